"""
Shared helpers of the bounded modules that work on files (C11, C12, C13, C14, C18, C20).

Nothing in here imports the library at module import time: the driver puts the tree under test on
``sys.path`` first and the helpers import ``windpyutils`` lazily.
"""
import itertools
import os
import shutil
import tempfile

PLAIN_CLASSES = ["RandomLineAccessFile", "MemoryMappedRandomLineAccessFile",
                 "MutableRandomLineAccessFile", "MutableMemoryMappedRandomLineAccessFile"]
RECORD_CLASSES = ["RecordFile", "MemoryMappedRecordFile", "MutableRecordFile", "MutableMemoryMappedRecordFile"]
MUTABLE_PLAIN = ["MutableRandomLineAccessFile", "MutableMemoryMappedRandomLineAccessFile"]
MUTABLE_RECORD = ["MutableRecordFile", "MutableMemoryMappedRecordFile"]


def is_mmap(cls_name: str) -> bool:
    return "MemoryMapped" in cls_name


def is_record(cls_name: str) -> bool:
    return "Record" in cls_name


LIVE_SCRATCH = set()  # scratch directories of this process that still exist (removed by the watchdog on a hang)


def remove_live_scratch():
    for d in list(LIVE_SCRATCH):
        shutil.rmtree(d, ignore_errors=True)
        LIVE_SCRATCH.discard(d)


class Scratch:
    """Scratch directory that is removed on exit (also when the body raises)."""

    def __init__(self, kill_children=False):
        # kill_children: SIGKILL every descendant process first, so that nothing re-creates files while the
        # directory is being removed (used by the cases that start processes)
        self.kill_children = kill_children

    def __enter__(self):
        self.d = tempfile.mkdtemp(prefix="l2b_")
        LIVE_SCRATCH.add(self.d)
        return self

    def __exit__(self, *a):
        if self.kill_children:
            import _pool_util
            _pool_util.kill_descendants()
        shutil.rmtree(self.d, ignore_errors=True)
        if os.path.exists(self.d):
            shutil.rmtree(self.d, ignore_errors=True)
        LIVE_SCRATCH.discard(self.d)

    def path(self, name):
        return os.path.join(self.d, name)

    def write(self, name, data: bytes):
        p = self.path(name)
        with open(p, "wb") as f:
            f.write(data)
        return p


_LIB = {}


def lib():
    """The library classes plus the sidecar record classes (defined once per process)."""
    if _LIB:
        return _LIB["ns"]
    from dataclasses import dataclass
    import windpyutils.files as F

    @dataclass
    class IR(F.Record):
        """trivial record: the line itself"""
        s: str

        @classmethod
        def load(cls, s):
            return cls(s)

        def save(self):
            return self.s

    @dataclass
    class CR(F.CSVRecord):
        a: int
        s: str
        x: float
        t: str

    @dataclass
    class TR(F.TSVRecord):
        a: int
        s: str
        x: float
        t: str

    @dataclass
    class C1(F.CSVRecord):
        s: str
        n: int

    @dataclass
    class JR(F.JsonRecord):
        a: object
        b: object

    class NS:
        pass

    ns = NS()
    ns.F = F
    ns.IR, ns.CR, ns.TR, ns.C1, ns.JR = IR, CR, TR, C1, JR
    _LIB["ns"] = ns
    return ns


def open_line_file(cls_name, path, index=None):
    """Instantiates (not opens) the named line/record file class; record classes get the trivial record IR."""
    L = lib()
    cls = getattr(L.F, cls_name)
    if is_record(cls_name):
        # (path, record_class, lines) is the signature of BaseRecordFile, the concrete classes resolve
        # __init__ through BaseRecordFile first
        f = cls(path, L.IR) if index is None else _record_with_index(cls, path, L.IR, index)
    else:
        f = cls(path) if index is None else cls(path, index)
    return f


def _record_with_index(cls, path, rc, index):
    # BaseRecordFile.__init__(path_to, record_class, lines) forwards `lines` to the next __init__ in the MRO
    return cls(path, rc, index)


def unwrap(cls_name, x):
    """line content of a read result (records of the trivial class IR are unwrapped)"""
    if is_record(cls_name):
        if isinstance(x, list):
            return [y.s for y in x]
        return x.s
    return x


def wrap(cls_name, s):
    if is_record(cls_name):
        return lib().IR(s)
    return s


# ---------------------------------------------------------------------------------------------------------------
# reference model of a text file, written from the statement of C11

def ref_lines(content: str):
    """'\\n'-delimited lines: an unterminated last line counts, a final '\\n' adds none."""
    parts = content.split("\n")
    if parts[-1] == "":
        parts = parts[:-1]
    return parts


def ref_offsets(content: str):
    """byte offset of the start of every line of ref_lines(content)"""
    offs = []
    pos = 0
    for ln in ref_lines(content):
        offs.append(pos)
        pos += len((ln + "\n").encode("utf-8"))
    return offs


def strings_upto(alphabet, max_len, min_len=0):
    for n in range(min_len, max_len + 1):
        for tup in itertools.product(alphabet, repeat=n):
            yield "".join(tup)


def call(fn):
    """(value, exception type name) of a call"""
    try:
        return fn(), None
    except Exception as e:  # noqa
        return None, type(e).__name__


def short(x, n=300):
    s = repr(x)
    return s if len(s) <= n else s[:n] + "...(%d chars)" % len(s)
