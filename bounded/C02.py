"""
C02 - imap and imap_unordered always terminate on finite input (bounded layer, real processes).

What is checked per case: the call comes back (all results, compared with the reference as in C01), the pool context
can be left, no worker stays alive - all within a watchdog of 20 s in a fresh interpreter. A hang is a failure with
observed "timeout". The timing of the input iterator (items and StopIteration arriving late relative to the results),
a slow first item with results_queue_maxsize=1 (flow control pauses the feeder) and a delayed feeder are forced with
sidecar generators / subclasses, never by editing the library.
"""
import itertools
import os
import random
import sys

sys.path.insert(0, os.path.dirname(os.path.abspath(__file__)))
import _pool_util as PU  # noqa: E402

RUN_IN_SUBPROCESS = True
CASE_TIMEOUT_S = 30
BODY_TIMEOUT_S = 20

BOUNDS = {
    "quick": {
        "slow_exhaustion": "input generator that sleeps 0.4 s before StopIteration: |data| 0..3 x chunk 1..2 x "
                           "workers 1..2 x {imap, imap_unordered} x results queue bound {None, 1} x "
                           "{FunctorPool, FactoryFunctorPool(quota 1)} (rotated)",
        "slow_items": "generator sleeping 0.25 s before item k, k in 0..|data|-1, |data| 3, chunk 1..2",
        "flow_control": "results_queue_maxsize 1 (int) and 0.5 (float -> 1 with 2 workers), functor sleeping 0.4 s "
                        "on the first / middle item, |data| 4..5, chunk 1..2, workers 2, both imap variants",
        "delayed_feeder": "feeder start delayed by 0.3 s with an empty and a non-empty input",
        "retire_at_end_then_exit": "FactoryFunctorPool, 2 workers, quota 1, 2 chunks (every worker retires exactly at "
                                   "the end of the call), the wid of a retiring worker posted 0.5 s late (after the "
                                   "replace thread was stopped), work queue bound in {1, 0.5, 1.0, None, 2}; then the "
                                   "context is left",
        "plain": "all |data| 0..5 x chunk 1..3 x {imap, imap_unordered} with 1 worker, work queue bound 1 and "
                 "results queue bound 1 (tightest queues)",
        "random": "10 random timing patterns",
    },
    "thorough": {
        "slow_exhaustion": "full product of the quick dimensions, delays 0.05 / 0.4 / 1.0 s",
        "slow_items": "|data| 1..4, every k",
        "flow_control": "bounds 1..2, slow item at every position",
        "delayed_feeder": "delays 0.1 / 0.3 / 0.8",
        "plain": "as quick with 1..2 workers",
        "random": "150 random timing patterns",
    },
}

RULE = ("One case = one pool configuration + one call with a forced timing pattern, in a fresh process under a "
        "20 s watchdog; ok = the call returned the reference results and the context was left with no worker "
        "alive. Trivial: never (an empty input still has to terminate).")


def _cfg(pool, workers, wq, rq, quota=None, **kw):
    c = {"pool": pool, "workers": workers, "wq": wq, "rq": rq}
    if quota is not None:
        c["quota"] = quota
    c.update(kw)
    return c


def cases(tier, seed):
    quick = tier != "thorough"
    # slow exhaustion (DESIGN §7 F2) ------------------------------------------------------------------------------
    # the native reproducer of §7: yield 1; yield 2; sleep(1.0)
    for ordered in (True, False):
        yield {"kind": "slow-exhaustion", "cfg": _cfg("functor", 2, 1.0, None),
               "calls": [{"ordered": ordered, "n": 2, "cs": 1, "lazy": True, "end_delay": 1.0}]}
    delays = [0.4] if quick else [0.05, 0.4, 1.0]
    k = 0
    for d in delays:
        for n, cs, w, ordered in itertools.product(range(0, 4), (1, 2), (1, 2), (True, False)):
            for rq, pool in (itertools.product((None, 1), ("functor", "factory")) if not quick
                             else [((None, 1)[k % 2], ("functor", "factory")[(k // 2) % 2])]):
                k += 1
                yield {"kind": "slow-exhaustion", "cfg": _cfg(pool, w, 1.0, rq, 1 if pool == "factory" else None),
                       "calls": [{"ordered": ordered, "n": n, "cs": cs, "lazy": True, "end_delay": d}]}
    # slow items --------------------------------------------------------------------------------------------------
    for n in ((3,) if quick else (1, 2, 3, 4)):
        for pos in range(n):
            for cs, ordered in itertools.product((1, 2), (True, False)):
                dl = [0.0] * n
                dl[pos] = 0.25
                yield {"kind": "slow-item-production", "cfg": _cfg("functor", 2, 1.0, None),
                       "calls": [{"ordered": ordered, "n": n, "cs": cs, "lazy": True, "delays": dl}]}
    # flow control ------------------------------------------------------------------------------------------------
    for rq in ((1, 0.5) if quick else (1, 0.5, 2, 1.0)):
        for n, cs in ((5, 1), (4, 2)):
            for slow_pos in ((0, n // 2) if quick else range(n)):
                for ordered in (True, False):
                    yield {"kind": "flow-control-slow-item",
                           "cfg": _cfg("functor", 2, 1.0, rq, slow_value=10 + slow_pos, slow_s=0.4),
                           "calls": [{"ordered": ordered, "n": n, "cs": cs}]}
    yield {"kind": "flow-control-slow-item",
           "cfg": _cfg("factory", 2, 1.0, 1, 2, slow_value=10, slow_s=0.4),
           "calls": [{"ordered": True, "n": 5, "cs": 1, "lazy": True, "end_delay": 0.3}]}
    # delayed feeder ----------------------------------------------------------------------------------------------
    for d in ([0.3] if quick else [0.1, 0.3, 0.8]):
        for n, ordered in itertools.product((0, 3), (True, False)):
            yield {"kind": "delayed-feeder", "cfg": _cfg("functor", 2, 1.0, None),
                   "calls": [{"ordered": ordered, "n": n, "cs": 1, "feeder_delay": d, "settle": 0.3}]}
    # all workers retire exactly at the end of the call and post their wid late (after the replace thread has been
    # stopped): the context must still be left, whatever the work queue bound -------------------------------------
    for wq in (1, 0.5, 1.0, None, 2):
        for w, q in (((2, 1),) if quick else ((2, 1), (2, 2), (3, 1))):
            yield {"kind": "retire-at-end-then-exit",
                   "cfg": _cfg("factory", w, wq, None, q, wid_delay=0.5, wait_ready=True, item_s=0.05),
                   "calls": [{"ordered": True, "n": w * q, "cs": 1}]}
    # a call ends while the replacement of a retired worker is still in progress; the NEXT call must terminate too ---
    for pause in (0.0, 0.4):
        base = {"pool": "factory", "wq": 1.0, "rq": None, "factory_delay": 0.4, "factory_slow_from": 2}
        yield {"kind": "replacement-in-progress-at-call-end", "cfg": dict(base, workers=1, quota=1),
               "calls": [{"ordered": True, "n": 2, "cs": 1, "base": 10, "pause_after": pause},
                         {"ordered": True, "n": 3, "cs": 1, "base": 110}]}
        yield {"kind": "replacement-in-progress-at-call-end", "cfg": dict(base, workers=2, quota=1, factory_slow_from=3),
               "calls": [{"ordered": True, "n": 2, "cs": 1, "base": 10, "pause_after": pause},
                         {"ordered": False, "n": 4, "cs": 1, "base": 110}]}
    # input containers other than list / generator: every finite iterable must be consumed and the call must end ---
    for kind in ("deque", "tuple", "range", "circular"):
        for ordered in (True, False):
            yield {"kind": "input-container", "cfg": _cfg("functor", 2, 1.0, None),
                   "calls": [{"ordered": ordered, "n": 5, "cs": 2, "container": kind}]}
    # tight queues ------------------------------------------------------------------------------------------------
    for w in ((1,) if quick else (1, 2)):
        for n, cs, ordered in itertools.product(range(0, 6), (1, 2, 3), (True, False)):
            yield {"kind": "tight-queues", "cfg": _cfg("functor", w, 1, 1),
                   "calls": [{"ordered": ordered, "n": n, "cs": cs}]}
    rng = random.Random(seed)
    for _ in range(10 if quick else 150):
        n = rng.randint(1, 6)
        pool = rng.choice(["functor", "factory"])
        # (a finite quota together with a work queue bound below the worker count is exercised by the dedicated
        #  retire-at-end-then-exit scenario only)
        yield {"kind": "random-timing",
               "cfg": _cfg(pool, rng.randint(1, 3), rng.choice([None, 1, 1.0, 2] if pool == "functor" else [None, 1.0]),
                           rng.choice([None, 1, 2]),
                           rng.choice([1, 2, None]) if pool == "factory" else None,
                           slow_value=10 + rng.randrange(n), slow_s=rng.choice([0.0, 0.2, 0.5])),
               "calls": [{"ordered": rng.random() < 0.5, "n": n, "cs": rng.randint(1, 3), "lazy": True,
                          "delays": [rng.choice([0.0, 0.0, 0.15, 0.3]) for _ in range(n)],
                          "end_delay": rng.choice([0.0, 0.2, 0.6]),
                          "feeder_delay": rng.choice([0.0, 0.0, 0.3])}]}


def run_case(case):
    return PU.guarded(lambda: PU.pool_history_body(case, "termination", trivial_if_empty=False), BODY_TIMEOUT_S,
                      "termination/" + case.get("kind", "?"))
