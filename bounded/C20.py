"""
C20 - TmpPool and FilePool leave nothing behind (bounded layer).

Reference model: a Python list of the created-and-not-removed paths plus the directory listing of a private scratch
directory; for FilePool the list of given paths and the ``closed`` flag of every handle handed out.
Single-process cases run in-process; cases of a multi_proc pool (manager + child processes) isolate themselves in a
fresh interpreter (own session, killed as a group) through ``_pool_util.run_isolated``.
"""
import itertools
import os
import random
import sys

sys.path.insert(0, os.path.dirname(os.path.abspath(__file__)))
import _files_util as U  # noqa: E402
import _pool_util as PU  # noqa: E402

RUN_IN_SUBPROCESS = False  # only kind=tmp_multiproc starts processes; it isolates itself
CASE_TIMEOUT_S = 30      # in-process watchdog of the driver
ISOLATED_TIMEOUT_S = 22  # hard timeout of the self-isolated multi_proc cases (body watchdog: 14 s)

TMP_OPS = ["c", "r0", "r1", "e0", "f"]  # create, remove model[0], remove model[1], remove an externally deleted
#                                          file, flush; "x" = the body raises here (always last)
MODES = ["r", "rb", "w", "a", "r+", "wb"]
LEAVES = ["normal", "raise@0", "raise@1", "raise@2", "base@1", "return@1", "close-reopen"]

BOUNDS = {
    "quick": {
        "tmp_no_context": "TmpPool used without the context manager: create / remove / flush / reuse (0, 1, 3 files)", 
        "filepool_iterables": "paths given as iterator / generator / tuple", 
        "tmp_history": "all sequences of length <= 5 over {create, remove(oldest), remove(2nd), remove of an "
                       "externally deleted file, flush}, each once leaving the context normally and once with an "
                       "exception raised after the last operation (= at every point of the body): 2 x 3906",
        "tmp_multiproc": "18 scenarios: 1..3 child processes creating 1..2 files each (+ parent), leaving normally "
                         "/ by exception, parent removing a child's file, flush before the children start, flush "
                         "while a child holds the pool and creates afterwards",
        "filepool": "0..3 files x 6 modes x 7 ways of leaving the context (normal, exception before / between / "
                    "after I/O, BaseException, return, explicit close first)",
    },
    "thorough": {
        "tmp_no_context": "TmpPool used without the context manager: create / remove / flush / reuse (0, 1, 3 files)", 
        "filepool_iterables": "paths given as iterator / generator / tuple", 
        "tmp_history": "length <= 6 (2 x 19531) + 2000 random histories of length 7..10",
        "tmp_multiproc": "48 scenarios (all combinations of 1..3 children x 1..2 files x leave x 4 variants)",
        "filepool": "as quick + 0..5 files",
    },
}

RULE = ("kind=tmp_history: one case per (sequence of pool operations, way of leaving); after EVERY operation the "
        "pool's listing must equal the model list and the directory must contain exactly the model's files; every "
        "created path must be new and exist; after the context nothing created exists. kind=tmp_multiproc: one "
        "case per scenario, run in a fresh interpreter. kind=filepool: one case per (number of files, mode, way "
        "of leaving). Trivial: histories without a create; file pools without files.")


def cases(tier, seed):
    quick = tier != "thorough"
    max_len = 5 if quick else 6
    for n in range(0, max_len + 1):
        for ops in itertools.product(TMP_OPS, repeat=n):
            yield {"kind": "tmp_history", "ops": list(ops), "leave": "normal"}
            yield {"kind": "tmp_history", "ops": list(ops), "leave": "raise"}
    for n in (0, 1, 3):
        for rf in (False, True):
            yield {"kind": "tmp_no_context", "n": n, "remove_first": rf}
    yield {"kind": "tmp_default_dir", "leave": "normal"}
    yield {"kind": "tmp_default_dir", "leave": "raise"}
    # FilePool
    for n in range(0, 4 if quick else 6):
        for mode in MODES:
            for leave in LEAVES:
                yield {"kind": "filepool", "n": n, "mode": mode, "leave": leave}
    # the paths may be given as any iterable (one-shot iterators included): everything opened must be closed again
    for src in ("iterator", "generator", "tuple"):
        for leave in LEAVES[:2]:
            yield {"kind": "filepool", "n": 2, "mode": MODES[0], "leave": leave, "paths_as": src}
    # multi-process pools
    for variant in ("plain", "parent_removes_child_file", "flush_before_children", "child_creates_after_flush"):
        if quick:
            shapes = [(1, 1, "normal"), (2, 2, "raise"), (3, 1, "normal"), (2, 1, "normal")]
            if variant == "child_creates_after_flush":
                shapes += [(1, 2, "raise"), (3, 2, "normal")]
        else:
            shapes = [(c, m, lv) for c in (1, 2, 3) for m in (1, 2) for lv in ("normal", "raise")]
        for children, per_child, leave in shapes:
            yield {"kind": "tmp_multiproc", "variant": variant, "children": children, "per_child": per_child,
                   "leave": leave, "parent_creates": children % 2}
    rng = random.Random(seed)
    for _ in range(200 if quick else 2000):
        ops = [rng.choice(TMP_OPS) for _ in range(rng.randint(max_len + 1, max_len + 4))]
        yield {"kind": "tmp_history", "ops": ops, "leave": rng.choice(["normal", "raise"])}


def _fail(scenario, expected, observed):
    return {"ok": False, "trivial": False, "scenario": scenario, "expected": U.short(expected, 600),
            "observed": U.short(observed, 600)}


class _Boom(Exception):
    pass


class _BaseBoom(BaseException):
    pass


# ---------------------------------------------------------------------------------------------------------------

def _run_tmp_history(case):
    from windpyutils.files import TmpPool
    ops = case["ops"]
    with U.Scratch() as sc:
        d = sc.path("pool")
        os.mkdir(d)
        model, everything = [], []
        bad = []

        def state(step):
            listed, e = U.call(lambda: [pool[i] for i in range(len(pool))])
            on_disk = sorted(os.listdir(d))
            if e is not None or listed != model:
                bad.append(("tmppool/listing", {"step": step, "paths": model}, (listed, e)))
            elif on_disk != sorted(os.path.basename(q) for q in model):
                bad.append(("tmppool/disk", {"step": step, "files": sorted(os.path.basename(q) for q in model)},
                            on_disk))

        try:
            with TmpPool(d) as pool:
                state(0)
                for step, o in enumerate(ops, 1):
                    if bad:
                        break
                    if o == "c":
                        q = pool.create()
                        if q in everything or not os.path.isfile(q) or os.path.dirname(q) != d:
                            bad.append(("tmppool/create", "a new existing file in the pool directory", q))
                        model.append(q)
                        everything.append(q)
                    elif o in ("r0", "r1"):
                        k = int(o[1])
                        if len(model) > k:
                            pool.remove(model.pop(k))
                    elif o == "e0":
                        if model:
                            os.remove(model[0])
                            pool.remove(model.pop(0))
                    elif o == "f":
                        pool.flush()
                        model = []
                        if any(os.path.exists(q) for q in everything):
                            bad.append(("tmppool/flush", "no created file exists", [q for q in everything
                                                                                    if os.path.exists(q)]))
                    state(step)
                if case["leave"] == "raise" and not bad:
                    raise _Boom()
        except _Boom:
            pass
        except Exception as ex:  # noqa
            import traceback
            return _fail("tmppool/exception", "no exception", "%s: %s %s" % (
                type(ex).__name__, ex, traceback.format_exc(limit=3)[-500:]))
        if bad:
            return _fail(*bad[0])
        left = os.listdir(d)
        if left or any(os.path.exists(q) for q in everything):
            return _fail("tmppool/left-behind-after-exit", [], left)
    return {"ok": True, "trivial": "c" not in ops, "scenario": "tmppool/history", "expected": None, "observed": None}


def _run_tmp_no_context(case):
    """create / remove / flush work on a pool that is never entered as a context manager (same process): flush removes every listed file"""
    from windpyutils.files import TmpPool
    import tempfile
    d = tempfile.mkdtemp()
    made = []
    try:
        pool = TmpPool(d)
        for _ in range(case["n"]):
            made.append(pool.create())
        if len(set(made)) != case["n"] or not all(os.path.isfile(q) for q in made) or len(pool) != case["n"]:
            return _fail("tmppool/no-context/create", "%d distinct existing listed files" % case["n"], {"made": made, "len": len(pool)})
        if case["n"] >= 2 and case["remove_first"]:
            pool.remove(made[0])
            if os.path.exists(made[0]) or len(pool) != case["n"] - 1:
                return _fail("tmppool/no-context/remove", "first file removed and unlisted", {"exists": os.path.exists(made[0]), "len": len(pool)})
        pool.flush()
        left = [q for q in made if os.path.exists(q)]
        if left or len(pool) != 0:
            return _fail("tmppool/no-context/flush", {"left": [], "listed": 0}, {"left": [os.path.basename(q) for q in left], "listed": len(pool)})
        again = pool.create()
        ok_again = os.path.isfile(again) and len(pool) == 1
        pool.flush()
        if not ok_again or os.path.exists(again):
            return _fail("tmppool/no-context/reuse-after-flush", "create and flush work again", {"created": ok_again, "left": os.path.exists(again)})
        # files created BEFORE the context is entered (and between two contexts on the same pool) belong to the pool like any other
        for leave in ("normal", "raise"):
            before = [pool.create() for _ in range(max(1, case["n"]))]
            try:
                with pool:
                    inside = pool.create()
                    listed = sorted(pool[i] for i in range(len(pool)))
                    if listed != sorted(before + [inside]):
                        return _fail("tmppool/created-before-enter", {"listed": len(before) + 1}, {"listed": len(listed)})
                    if leave == "raise":
                        raise KeyError("body fails")
            except KeyError:
                pass
            left = [q for q in before + [inside] if os.path.exists(q)]
            if left or len(pool) != 0:
                return _fail("tmppool/created-before-enter", {"left-after-exit(%s)" % leave: [], "listed": 0},
                             {"left": [os.path.basename(q) for q in left], "listed": len(pool)})
    finally:
        for f in os.listdir(d):
            os.remove(os.path.join(d, f))
        os.rmdir(d)
    return {"ok": True, "trivial": False, "scenario": "tmppool/no-context", "expected": None, "observed": None}


def _run_tmp_default_dir(case):
    from windpyutils.files import TmpPool
    made = []
    try:
        with TmpPool() as pool:
            for _ in range(3):
                made.append(pool.create())
            if len(set(made)) != 3 or not all(os.path.isfile(q) for q in made):
                return _fail("tmppool/create", "3 distinct existing files", made)
            pool.remove(made[1])
            if [pool[i] for i in range(len(pool))] != [made[0], made[2]] or os.path.exists(made[1]):
                return _fail("tmppool/listing", [made[0], made[2]], [pool[i] for i in range(len(pool))])
            if case["leave"] == "raise":
                raise _Boom()
    except _Boom:
        pass
    finally:
        left = [q for q in made if os.path.exists(q)]
        for q in left:
            os.remove(q)
    if left:
        return _fail("tmppool/left-behind-after-exit", [], left)
    return {"ok": True, "trivial": False, "scenario": "tmppool/default-dir", "expected": None, "observed": None}


# ---------------------------------------------------------------------------------------------------------------

def _fp_body(fp, paths, mode, leave, handles):
    def point(k):
        if leave == "raise@%d" % k:
            raise _Boom()
        if leave == "base@%d" % k:
            raise _BaseBoom()
        return leave == "return@%d" % k

    with fp as entered:
        if entered is not fp:
            return "filepool/enter", "the pool itself", repr(entered)
        handles.extend(fp[p] for p in paths)
        point(0)
        if len(fp) != len(paths) or list(fp) != paths:
            return "filepool/mapping", paths, (len(fp), list(fp))
        for p in paths:
            h = fp[p]
            if h.closed or h.name != p or h.mode != mode:
                return "filepool/handle", (p, mode, "open"), (h.name, h.mode, "closed" if h.closed else "open")
            if p not in fp:
                return "filepool/mapping", "path in pool", "not in pool"
        v, e = U.call(lambda: fp[os.path.join(os.path.dirname(paths[0]) if paths else "/", "unknown")])
        if e != "KeyError":
            return "filepool/mapping", "KeyError for an unknown path", (v, e)
        if point(1):
            return None
        for p in paths:
            h = fp[p]
            if "r" in mode and "+" not in mode:
                got = h.read()
                exp = ("content of %s\n" % os.path.basename(p))
                if got != (exp.encode() if "b" in mode else exp):
                    return "filepool/handle", exp, got
            else:
                h.write(b"w" if "b" in mode else "w")
        point(2)
        if leave == "close-reopen":
            fp.close()
            if not all(h.closed for h in handles):
                return "filepool/closed-after-close", "all closed", [h.closed for h in handles]
            # (__exit__ of an already closed pool is outside the statement: reopen before leaving)
            fp.open()
            handles.extend(fp[p] for p in paths)
    return None


def _run_filepool(case):
    from windpyutils.files import FilePool
    n, mode, leave = case["n"], case["mode"], case["leave"]
    with U.Scratch() as sc:
        paths = []
        for i in range(n):
            p = sc.path("f%d.txt" % i)
            if mode[0] in "ra":
                with open(p, "w") as f:
                    f.write("content of f%d.txt\n" % i)
            paths.append(p)
        handles = []
        src = case.get("paths_as", "list")
        given = list(paths) if src == "list" else (iter(list(paths)) if src == "iterator" else (x for x in list(paths)) if src == "generator"
                                                   else tuple(paths))
        fp = FilePool(given, mode)
        try:
            bad = _fp_body(fp, paths, mode, leave, handles)
        except (_Boom, _BaseBoom):
            bad = None
        except Exception as ex:  # noqa
            return _fail("filepool/exception", "no exception", "%s: %s" % (type(ex).__name__, ex))
        if bad:
            return _fail(*bad)
        if len(handles) < n:
            return _fail("filepool/harness", n, len(handles))
        still_open = [h.name for h in handles if not h.closed]
        for h in handles:
            if not h.closed:
                h.close()
        if still_open:
            return _fail("filepool/closed-after-exit", "every handle closed (left by %s)" % leave, still_open)
    return {"ok": True, "trivial": n == 0, "scenario": "filepool/" + leave.split("@")[0], "expected": None,
            "observed": None}


# ---------------------------------------------------------------------------------------------------------------

def _mp_child(pool, n, go, out):
    try:
        if go is not None:
            go.wait(20)
        made = [pool.create() for _ in range(n)]
        out.put(made)
    except BaseException as e:  # noqa
        out.put("error: %r" % (e,))


def _mp_body(case):
    import multiprocessing
    from windpyutils.files import TmpPool
    variant = case["variant"]
    with U.Scratch(kill_children=True) as sc:
        d = sc.path("pool")
        os.mkdir(d)
        model, everything = [], []
        out = multiprocessing.Queue()
        problem = None
        try:
            with TmpPool(d, multi_proc=True) as pool:
                for _ in range(case.get("parent_creates", 0)):
                    q = pool.create()
                    model.append(q)
                    everything.append(q)
                go = None
                if variant == "flush_before_children":
                    pool.flush()
                    model = []
                if variant == "child_creates_after_flush":
                    go = multiprocessing.Event()
                cs = [multiprocessing.Process(target=_mp_child, args=(pool, case["per_child"], go, out))
                      for _ in range(case["children"])]
                for c in cs:
                    c.start()
                if variant == "child_creates_after_flush":
                    # the children already hold the pool; the parent flushes, then lets them create
                    pool.flush()
                    model = []
                    go.set()
                for _ in cs:
                    made = out.get(timeout=20)
                    if isinstance(made, str):
                        problem = ("tmppool/multiproc-child-exception", "no exception", made)
                        made = []
                    model.extend(made)
                    everything.extend(made)
                for c in cs:
                    c.join(20)
                if problem is None:
                    if len(set(everything)) != len(everything) or not all(os.path.isfile(q) for q in model):
                        problem = ("tmppool/multiproc-create", "distinct existing files", everything)
                if problem is None and variant == "parent_removes_child_file" and model:
                    victim = model.pop(len(model) // 2)
                    pool.remove(victim)
                    if os.path.exists(victim):
                        problem = ("tmppool/multiproc-remove", "removed", victim)
                if problem is None:
                    listed = sorted(pool[i] for i in range(len(pool)))
                    if listed != sorted(model):
                        problem = ("tmppool/multiproc-listing" + ("-after-flush" if "after_flush" in variant else ""),
                                   sorted(model), listed)
                    elif sorted(os.listdir(d)) != sorted(os.path.basename(q) for q in model):
                        problem = ("tmppool/multiproc-disk", sorted(model), sorted(os.listdir(d)))
                if case["leave"] == "raise":
                    raise _Boom()
        except _Boom:
            pass
        left = sorted(os.listdir(d))
        if left:
            return _fail("tmppool/multiproc-left-behind" + ("-after-flush" if "after_flush" in variant else ""),
                         [], {"left": left, "earlier": problem})
        if problem:
            return _fail(*problem)
    return {"ok": True, "trivial": False, "scenario": "tmppool/multiproc-" + variant, "expected": None,
            "observed": None}


def _run_tmp_multiproc(case):
    if os.environ.get("L2_CHILD") != "1":
        return PU.run_isolated("C20", case, None, ISOLATED_TIMEOUT_S)
    return PU.guarded(lambda: _mp_body(case), ISOLATED_TIMEOUT_S - 8, "tmppool/multiproc")


def run_case(case):
    k = case["kind"]
    if k == "tmp_history":
        return _run_tmp_history(case)
    if k == "tmp_default_dir":
        return _run_tmp_default_dir(case)
    if k == "tmp_no_context":
        return _run_tmp_no_context(case)
    if k == "filepool":
        return _run_filepool(case)
    if k == "tmp_multiproc":
        return _run_tmp_multiproc(case)
    raise ValueError("unknown kind %r" % (k,))
