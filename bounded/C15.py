"""C15 - Reorder buffers emit each item once in serial order; ring buffer keeps last N.

Reference models written from the statement / docstrings: the emitted sequence must be the ascending prefix
0..w-1 of the serials, w maximal such that all of 0..w-1 were fed; pending = fed minus emitted;
PrintBuffer output is compared through str.split(end); CircularBuffer against the tail of the put history (plain list).
"""
import io, itertools, random
from _util import take, ok, Fail, check, call

from windpyutils.buffers import Buffer, PrintBuffer
from windpyutils.structures.circular_buffer import CircularBuffer

BOUNDS = {
    "quick": {"buffer": {"n": "0..6", "arrival": "all n! permutations", "drains": "all 2^n subsets of drain points (+ final drain)",
                         "flush": "n<=5: additionally a flush() after every prefix, then the whole run again on the same object"},
              "printbuffer": {"n": "0..6", "arrival": "all permutations", "interrupt": "none / flush() / clear() after every prefix",
                              "end": ["\\n", "|"]},
              "circular": {"capacity": "1..5", "ops": "all put/clear sequences of length <=10"},
              "random": {"count": 1500, "n": "7..10"}},
    "thorough": {"buffer": {"n": "0..7", "arrival": "all permutations", "drains": "all subsets", "flush": "n<=6"},
                 "printbuffer": {"n": "0..7", "arrival": "all permutations", "interrupt": "none/flush/clear after every prefix",
                                 "end": ["\\n", "|"]},
                 "circular": {"capacity": "1..6", "ops": "all put/clear sequences of length <=13"},
                 "random": {"count": 40000, "n": "8..11"}},
}
RULE = ("Buffer: every arrival order of serials 0..n-1 x every subset of drain points (a drain = full consumption of "
        "iter(buffer)); at every drain the emitted items continue the ascending sequence without gap, waiting_for() == "
        "number emitted, len() == number held back; after the final drain everything was emitted exactly once. "
        "PrintBuffer: every arrival order, optional flush()/clear() after every prefix, the run then continues; output, "
        "return value of print(), waiting_for and len() after every step against the documented behaviour. "
        "CircularBuffer: every put/clear sequence; list(), len(), every index, `in`, and IndexError for -1, -len-1, len, len+1 "
        "after every step. Then a seeded random sample of larger n. Non-trivial = at least one item fed/put; distinct = canonical JSON.")


def cases(tier, seed):
    q = tier == "quick"
    nmax = 6 if q else 7
    # one long run released at once (the first serial arrives last): no operation may depend on how many items are held back
    for n in (3000, 20000) if q else (3000, 20000, 200000):
        yield {"kind": "buffer-long", "n": n}
    for n in range(nmax + 1):
        for perm in itertools.permutations(range(n)):
            for mask in range(2 ** n):
                yield {"kind": "buffer", "perm": list(perm), "drains": [i for i in range(n) if mask >> i & 1]}
            if n <= nmax - 1:
                for k in range(n + 1):
                    for mask in (0, 2 ** n - 1, 0b0101010 & (2 ** n - 1)):
                        yield {"kind": "buffer", "perm": list(perm), "drains": [i for i in range(n) if mask >> i & 1],
                               "flush_after": k}
            for end in ("\n", "|"):
                yield {"kind": "printbuffer", "perm": list(perm), "end": end}
                for k in range(n + 1):
                    for what in ("flush", "clear"):
                        yield {"kind": "printbuffer", "perm": list(perm), "end": end, "interrupt": [what, k]}
    for c in range(1, 6 if q else 7):
        for L in range(0, 11 if q else 14):
            for ops in itertools.product("pc", repeat=L):
                yield {"kind": "circular", "capacity": c, "ops": "".join(ops)}
    rng = random.Random(seed)
    b = BOUNDS[tier]["random"]
    lo, hi = (7, 10) if q else (8, 11)
    for _ in range(b["count"]):
        n = rng.randint(lo, hi)
        perm = list(range(n))
        rng.shuffle(perm)
        r = rng.random()
        if r < 0.4:
            yield {"kind": "buffer", "perm": perm, "drains": [i for i in range(n) if rng.random() < 0.4]}
        elif r < 0.8:
            c = {"kind": "printbuffer", "perm": perm, "end": rng.choice(["\n", "|", "\n\n"])}
            if rng.random() < 0.5:
                c["interrupt"] = [rng.choice(["flush", "clear"]), rng.randint(0, n)]
            yield c
        else:
            yield {"kind": "circular", "capacity": rng.randint(1, 9),
                   "ops": "".join(rng.choice("pppc") for _ in range(rng.randint(5, 40)))}


# ---------------------------------------------------------------------------------------------------------------
def _feed_buffer(b, perm, drains):
    """Feed `perm` with drains at the stated positions and a final drain; checks the Buffer clauses."""
    fed, emitted = set(), 0
    n = len(perm)
    for pos, serial in enumerate(perm):
        r = call("buffer/feed", b, serial, ["item", serial])[1]
        check(r is b, "buffer/feed", "returns itself", type(r).__name__)
        fed.add(serial)
        check(call("buffer/len", len, b)[1] == len(fed) - emitted, "buffer/len-held-back", len(fed) - emitted,
              {"after feeding": perm[:pos + 1], "len": len(b)})
        check(b.waiting_for() == emitted, "buffer/waiting-for", emitted, {"after feeding": perm[:pos + 1], "waiting_for": b.waiting_for()})
        if pos in drains or pos == n - 1:
            out = call("buffer/drain-terminate", lambda: take(iter(b), n + 1))[1]
            w = emitted
            while w in fed:
                w += 1
            exp = [["item", s] for s in range(emitted, w)]
            check(out == exp, "buffer/emit-order", exp, {"fed": perm[:pos + 1], "emitted before": emitted, "drain": out})
            emitted = w
            check(b.waiting_for() == emitted, "buffer/waiting-for", emitted, {"after drain at": pos, "waiting_for": b.waiting_for()})
            check(len(b) == len(fed) - emitted, "buffer/len-held-back", len(fed) - emitted, {"after drain at": pos, "len": len(b)})
            again = call("buffer/drain-terminate", lambda: take(iter(b), n + 1))[1]
            check(again == [], "buffer/emit-once", [], {"second drain": again})
    check(emitted == n and len(b) == 0, "buffer/emit-all", {"emitted": n, "held": 0}, {"emitted": emitted, "held": len(b)})


def _run_buffer(case):
    perm, drains = case["perm"], set(case["drains"])
    b = call("buffer/construct", Buffer)[1]
    check(b.waiting_for() == 0 and len(b) == 0, "buffer/construct", [0, 0], [b.waiting_for(), len(b)])
    if "flush_after" in case:
        k = case["flush_after"]
        for pos, serial in enumerate(perm[:k]):
            call("buffer/feed", b, serial, ["old", serial])
            if pos in drains:
                call("buffer/drain-terminate", lambda: take(iter(b), len(perm) + 1))
        call("buffer/flush", b.flush)
        check(b.waiting_for() == 0 and len(b) == 0 and take(iter(b), 1) == [], "buffer/flush",
              {"waiting_for": 0, "len": 0}, {"waiting_for": b.waiting_for(), "len": len(b)})
    _feed_buffer(b, perm, drains)
    return ok("buffer/flush-then-reuse" if "flush_after" in case else "buffer/reorder", trivial=not perm)


def _run_buffer_long(case):
    n = case["n"]
    b = call("buffer/construct", Buffer)[1]
    for s_ in range(n - 1, 0, -1):
        b(s_, s_)
    check(len(b) == n - 1 and take(iter(b), 1) == [], "buffer/long-run", {"held": n - 1, "emitted": 0}, {"held": len(b)})
    b(0, 0)
    out = call("buffer/long-run", lambda: take(iter(b), n + 1))[1]
    check(out == list(range(n)), "buffer/long-run", "all %d items in serial order" % n, {"emitted": len(out), "first": out[:3]})
    check(len(b) == 0 and b.waiting_for() == n, "buffer/long-run", {"held": 0, "waiting_for": n}, {"held": len(b), "waiting_for": b.waiting_for()})
    return ok("buffer/long-run")


def _run_printbuffer(case):
    perm, end = case["perm"], case["end"]
    intr = case.get("interrupt")
    f = io.StringIO()
    pb = call("printbuffer/construct", PrintBuffer, f, False, end)[1]
    w, pending, out = 0, {}, []          # reference state: next serial, held back, printed values

    def observe(after):
        text = f.getvalue()
        parts = text.split(end)
        check(parts[-1] == "" and parts[:-1] == out if out else text == "", "printbuffer/output", out, {"after": after, "text": text})
        check(pb.waiting_for == w, "printbuffer/waiting-for", w, {"after": after, "waiting_for": pb.waiting_for})
        check(len(pb) == len(pending), "printbuffer/len-held-back", len(pending), {"after": after, "len": len(pb)})
    observe("construct")
    for pos in range(len(perm) + 1):
        if intr and intr[1] == pos:
            if intr[0] == "flush":
                call("printbuffer/flush", pb.flush)
                for s in sorted(pending):
                    out.append(f"v{s}")
                if pending:
                    w = max(pending) + 1
                pending.clear()
                observe(["flush after", perm[:pos]])
            else:
                call("printbuffer/clear", pb.clear)
                pending.clear()
                w = 0
                observe(["clear after", perm[:pos]])
        if pos == len(perm):
            break
        s = perm[pos]
        r = call("printbuffer/print", pb.print, s, f"v{s}")[1]
        if s == w:
            out.append(f"v{s}")
            w += 1
            while w in pending:
                out.append(pending.pop(w))
                w += 1
            e = True
        else:
            pending[s] = f"v{s}"
            e = False
        check(r is e, "printbuffer/print-return", e, {"after": perm[:pos + 1], "returned": r})
        observe(perm[:pos + 1])
    if not intr:
        # the statement's global clause, independent of the step model: everything once, ascending
        exp = "".join(f"v{i}{end}" for i in range(len(perm)))
        check(f.getvalue() == exp and pb.waiting_for == len(perm) and len(pb) == 0, "printbuffer/emit-all", exp, f.getvalue())
    return ok("printbuffer/" + (intr[0] if intr else "reorder"), trivial=not perm)


def _run_circular(case):
    c, ops = case["capacity"], case["ops"]
    cb = call("circular/construct", CircularBuffer, c)[1]
    hist, k = [], 0
    for step, o in enumerate(ops + "."):
        if o == "p":
            call("circular/put", cb.put, ["e", k])
            hist.append(["e", k])
            k += 1
        elif o == "c":
            call("circular/clear", cb.clear)
            hist = []
        exp = hist[-c:] if hist else []
        after = ops[:step + 1]
        n = call("circular/len", len, cb)[1]
        check(n == len(exp), "circular/len", len(exp), {"after": after, "len": n})
        got = call("circular/iteration", lambda: take(iter(cb), c + 1))[1]
        check(got == exp, "circular/last-n", exp, {"after": after, "list": got})
        for i in range(len(exp)):
            r = call("circular/index", cb.__getitem__, i)[1]
            check(r == exp[i], "circular/index", exp[i], {"after": after, "index": i, "item": r})
        for i in (-1, -len(exp) - 1, len(exp), len(exp) + 1, c, c + 1):
            if i < 0 or i >= len(exp):
                r = call("circular/index-rejected", cb.__getitem__, i, allowed=(IndexError,))
                check(r == ("raised", "IndexError"), "circular/index-rejected", "IndexError", {"after": after, "index": i, "result": r})
        check((["e", 0] in cb) == (["e", 0] in exp), "circular/contains", ["e", 0] in exp, {"after": after})
        check(cb.max_size == c, "circular/capacity", c, cb.max_size)
    return ok("circular/wrap" if k > c else "circular/fill", trivial=k == 0)


_RUN = {"buffer-long": _run_buffer_long, "buffer": _run_buffer, "printbuffer": _run_printbuffer, "circular": _run_circular}


def run_case(case):
    try:
        return _RUN[case["kind"]](case)
    except Fail as f:
        return f.result
