"""Helpers shared by the bounded-layer modules (no library imports here)."""
import itertools

# run.py reads PROGRESS["scenario"] when a watchdog fires, so that a hang / memory blow-up is
# attributed to the behaviour that was being checked (e.g. "lru/values-terminate").
PROGRESS = {"scenario": None}


class StepBudget(Exception):
    """An iterator of the library produced more elements than any correct answer could have."""


def at(scenario):
    PROGRESS["scenario"] = scenario


def take(iterable, limit):
    """list(iterable) with a step budget: more than `limit` elements -> StepBudget."""
    out = list(itertools.islice(iter(iterable), limit + 1))
    if len(out) > limit:
        raise StepBudget(f"more than {limit} elements produced")
    return out


def exc(e):
    return f"{type(e).__name__}: {e}"[:300]


def ok(scenario, trivial=False):
    return {"ok": True, "trivial": trivial, "scenario": scenario, "expected": None, "observed": None}


def bad(scenario, expected, observed, trivial=False):
    return {"ok": False, "trivial": trivial, "scenario": scenario, "expected": expected, "observed": observed}


class Fail(Exception):
    """Raised inside run_case helpers to abort the case with a verdict."""

    def __init__(self, scenario, expected, observed):
        super().__init__(scenario)
        self.result = bad(scenario, expected, observed)


def check(cond, scenario, expected, observed):
    if not cond:
        raise Fail(scenario, expected, observed)


def call(scenario, f, *a, allowed=()):
    """Call into the library. An exception type listed in `allowed` is returned as
    ("raised", type-name); any other exception of the library is a failure of the case."""
    at(scenario)
    try:
        return ("value", f(*a))
    except allowed as e:
        return ("raised", type(e).__name__)
    except StepBudget as e:
        raise Fail(scenario, "terminates", "step-budget: " + str(e))
    except Exception as e:  # library raised where the property allows no exception
        raise Fail(scenario, "no exception", "exception: " + exc(e))


def histories(maxlen, per_key, keyless, keys):
    """All operation sequences of length 1..maxlen, shortest first, canonical w.r.t. renaming of keys:
    a key may be touched only when all earlier keys of `keys` were touched before.
    Ops are [name] (keyless) or [name, key]."""
    def rec(prefix, used, left):
        if not left:
            yield list(prefix)
            return
        for op in keyless:
            prefix.append([op])
            yield from rec(prefix, used, left - 1)
            prefix.pop()
        for ki in range(min(used + 1, len(keys))):
            for op in per_key:
                prefix.append([op, keys[ki]])
                yield from rec(prefix, max(used, ki + 1), left - 1)
                prefix.pop()
    for n in range(1, maxlen + 1):
        yield from rec([], 0, n)
