"""
C18 - one opened line / map file can be read from many forked processes at once (bounded layer, real processes).

Reference model: the list of lines the file was written from (``content.split("\\n")`` of the statement of C11);
``MapAccessFile`` returns the line including its terminator, so the reference is ``line + "\\n"``.

Scenarios
* stress: the parent opens ONE object, (optionally) reads from it, forks k children; parent and children read
  random lines / iterate concurrently; every value is compared with the reference in the process that read it.
* own-description: each process must end up with its own OS-level open file description. The parent keeps a
  ``dup()`` of its descriptor (which shares the parent's description); after its first read a child moves the file
  offset of ITS handle to a distinctive position and looks at the offset of the parent's description through the
  dup (and the other way round). Equal offsets = shared description. ``_opened_in_process_with_id`` must equal the
  child's pid after a read. (Buffered and map variants; for the memory-mapped variant the read position lives in the
  mmap object, i.e. in process memory, so only the values and the pid attribute are checked.)
* forced-seek-between: the schedule of the statement's "why tests can't" forced deterministically. The parent's
  file handle is wrapped by a gate whose ``seek`` (after seeking) lets a forked child do a complete read of a far
  away line and waits for it, and only then the parent's ``readline`` happens. If the child reads through the
  inherited description the parent's offset has moved and the parent returns a wrong line.
"""
import itertools
import os
import random
import sys

sys.path.insert(0, os.path.dirname(os.path.abspath(__file__)))
import _pool_util as PU  # noqa: E402
import _files_util as U  # noqa: E402

RUN_IN_SUBPROCESS = True
CASE_TIMEOUT_S = 40
BODY_TIMEOUT_S = 30

VARIANTS = ["buf", "mmap", "map", "rec", "mmaprec"]

BOUNDS = {
    "quick": {
        "stress": "variants {RandomLineAccessFile, MemoryMapped..., MapAccessFile, RecordFile, "
                  "MemoryMappedRecordFile} x children {1, 2, 4} x parent read before fork {yes, no}: 4000-line file "
                  "(about 80 kB, multi-byte lines), 1500 random reads per process, + interleaved iteration for the line "
                  "files",
        "own_description": "{buf, map, rec} x children {1, 3} x parent read before fork {yes, no}",
        "forced_seek_between": "{buf, map, rec} x 4 pairs of (parent line, child line) more than the io buffer apart "
                               "x child reads {1 line, 3 lines}",
    },
    "thorough": {
        "stress": "children {1, 2, 4, 8}, 10000 reads per process, 3 seeds",
        "own_description": "children {1, 2, 3, 5}",
        "forced_seek_between": "all 12 ordered pairs of 4 far apart lines",
    },
}

RULE = ("One case = one scenario in a fresh process. ok = every value read in every process equals the reference "
        "line, every child reports its own open file description (where applicable) and its own pid as the "
        "opener. Trivial: never.")

N_LINES = 4000


def make_lines(n=N_LINES):
    return ["line-%d-%s%s" % (i, "y" * (i % 13), "é" * (i % 3)) for i in range(n)]


def cases(tier, seed):
    quick = tier != "thorough"
    pairs = [(10, 3000), (3500, 5), (2000, 500), (0, 3000)]
    if not quick:
        spots = [5, 1300, 2600, 3990]
        pairs = [(a, b) for a in spots for b in spots if a != b]
    for variant in ("buf", "map", "rec"):
        for (pl, cl), nread in itertools.product(pairs, (1, 3)):
            # where the parent's handle is parked before the experiment: as far as possible from both lines, so
            # that neither lies in the io buffer the child inherits
            far = max((0, 650, 1950, 3250, 3999), key=lambda x: min(abs(x - pl), abs(x - cl)))
            yield {"kind": "forced_seek_between", "variant": variant, "parent_line": pl, "child_line": cl,
                   "child_reads": nread, "park_line": far}
    # children made by a bare os.fork() (no multiprocessing hook runs in them) under the same forced interleaving
    for variant in ("buf", "map", "rec"):
        for pl, cl in pairs[:2]:
            far = max((0, 650, 1950, 3250, 3999), key=lambda x: min(abs(x - pl), abs(x - cl)))
            yield {"kind": "forced_seek_between", "variant": variant, "parent_line": pl, "child_line": cl, "child_reads": 2,
                   "park_line": far, "fork": "os"}
    # the parent reads lines 0..k one after the other, forks, and the child's FIRST read is exactly line k+1 (then others)
    for variant in VARIANTS:
        for k in (0, 5):
            for how in ("mp", "os"):
                yield {"kind": "continue_after_fork", "variant": variant, "k": k, "fork": how}
    for variant in ("buf", "map", "rec"):
        for k, pre in itertools.product((1, 3) if quick else (1, 2, 3, 5), (True, False)):
            yield {"kind": "own_description", "variant": variant, "children": k, "parent_reads_first": pre}
    for variant in VARIANTS:
        for k, pre in itertools.product((1, 2, 4) if quick else (1, 2, 4, 8), (True, False)):
            for sd in ((seed,) if quick else (seed, seed + 1, seed + 2)):
                yield {"kind": "stress", "variant": variant, "children": k, "parent_reads_first": pre,
                       "reads": 1500 if quick else 10000, "seed": sd}


def _fail(scenario, expected, observed):
    return {"ok": False, "trivial": False, "scenario": scenario, "expected": PU._short(expected),
            "observed": PU._short(observed)}


def _prepare(sc, variant):
    """writes the file, returns (object (not opened), reader function i -> line content, lines)"""
    L = U.lib()
    lines = make_lines()
    text = "".join(x + "\n" for x in lines)
    path = sc.write("lines.txt", text.encode("utf-8"))
    if variant == "buf":
        f = L.F.RandomLineAccessFile(path)
        read = lambda i: f[i]  # noqa: E731
    elif variant == "mmap":
        f = L.F.MemoryMappedRandomLineAccessFile(path)
        read = lambda i: f[i]  # noqa: E731
    elif variant == "rec":
        f = L.F.RecordFile(path, L.IR)
        read = lambda i: f[i].s  # noqa: E731
    elif variant == "mmaprec":
        f = L.F.MemoryMappedRecordFile(path, L.IR)
        read = lambda i: f[i].s  # noqa: E731
    elif variant == "map":
        offs = U.ref_offsets(text)
        f = L.F.MapAccessFile(path, {"k%d" % i: o for i, o in enumerate(offs)})
        read = lambda i: _strip_nl(f["k%d" % i])  # noqa: E731
    else:
        raise ValueError(variant)
    return f, read, lines


def _strip_nl(s):
    return s[:-1] if s.endswith("\n") else "<no terminator>" + s


def _reader_loop(f, read, lines, variant, seed, n_reads, iterate):
    """random reads (+ an interleaved iteration for line files); -> list of mismatches"""
    rng = random.Random(seed)
    bad = []
    it = iter(f) if iterate else None
    it_pos = 0
    for k in range(n_reads):
        i = rng.randrange(len(lines))
        v = read(i)
        if v != lines[i]:
            bad.append(("read", i, v))
        if it is not None and k % 7 == 0 and it_pos < len(lines):
            x = next(it)
            x = x.s if hasattr(x, "s") else x
            if x != lines[it_pos]:
                bad.append(("iter", it_pos, x))
            it_pos += 1
        if len(bad) > 5:
            break
    return bad


def _stress_child(f, read, lines, variant, seed, n_reads, out):
    try:
        bad = _reader_loop(f, read, lines, variant, seed, n_reads, variant != "map")
        out.put({"pid": os.getpid(), "bad": bad[:3], "opener": f._opened_in_process_with_id})
    except BaseException as e:  # noqa
        out.put({"pid": os.getpid(), "bad": [("exception", repr(e))], "opener": None})


def _body_stress(case):
    import multiprocessing
    with U.Scratch(kill_children=True) as sc:
        f, read, lines = _prepare(sc, case["variant"])
        with f:
            if case["parent_reads_first"]:
                if read(3) != lines[3]:
                    return _fail("fork/single-process-read", lines[3], read(3))
            out = multiprocessing.Queue()
            cs = [multiprocessing.Process(target=_stress_child,
                                          args=(f, read, lines, case["variant"], case["seed"] * 100 + k,
                                                case["reads"], out)) for k in range(case["children"])]
            for c in cs:
                c.start()
            bad = _reader_loop(f, read, lines, case["variant"], case["seed"] * 100 + 99, case["reads"],
                               case["variant"] != "map")
            reports = [out.get(timeout=25) for _ in cs]
            for c in cs:
                c.join(10)
            if bad:
                return _fail("fork/parent-read", "reference lines", bad[:3])
            for r in reports:
                if r["bad"]:
                    return _fail("fork/child-read", "reference lines", r)
                if r["opener"] != r["pid"]:
                    return _fail("fork/opener-pid", {"pid": r["pid"]}, {"_opened_in_process_with_id": r["opener"]})
            if f._opened_in_process_with_id != os.getpid():
                return _fail("fork/opener-pid", os.getpid(), f._opened_in_process_with_id)
    return {"ok": True, "trivial": False, "scenario": "fork/stress-" + case["variant"], "expected": None,
            "observed": None}


# ---------------------------------------------------------------------------------------------------------------

def _descr_child(f, read, lines, dup_fd, lock, idx, out):
    try:
        first = read(100 + idx)
        rep = {"pid": os.getpid(), "first": first == lines[100 + idx], "opener": f._opened_in_process_with_id}
        my_fd = f.file.fileno()
        with lock:
            x = 50000 + 17 * idx
            before_parent = os.lseek(dup_fd, 0, os.SEEK_CUR)
            os.lseek(my_fd, x, os.SEEK_SET)
            parent_after = os.lseek(dup_fd, 0, os.SEEK_CUR)
            y = 90000 + 13 * idx
            os.lseek(dup_fd, y, os.SEEK_SET)
            mine_after = os.lseek(my_fd, 0, os.SEEK_CUR)
            os.lseek(dup_fd, before_parent, os.SEEK_SET)
        rep["shared"] = parent_after == x or mine_after == y
        rep["detail"] = {"set_mine": x, "parent_description_then": parent_after, "set_parent": y, "mine_then": mine_after}
        # the object still works after the raw seeks (every read seeks first)
        second = read(2000 + idx)
        rep["second"] = second == lines[2000 + idx]
        out.put(rep)
    except BaseException as e:  # noqa
        out.put({"pid": os.getpid(), "error": repr(e)})


def _body_own_description(case):
    import multiprocessing
    with U.Scratch(kill_children=True) as sc:
        f, read, lines = _prepare(sc, case["variant"])
        with f:
            if case["parent_reads_first"]:
                read(7)
            dup_fd = os.dup(f.file.fileno())
            lock = multiprocessing.Lock()
            out = multiprocessing.Queue()
            cs = [multiprocessing.Process(target=_descr_child, args=(f, read, lines, dup_fd, lock, k, out))
                  for k in range(case["children"])]
            for c in cs:
                c.start()
            reports = [out.get(timeout=25) for _ in cs]
            for c in cs:
                c.join(10)
            os.close(dup_fd)
            # the parent still reads correctly after the children are gone
            chk = [(i, read(i)) for i in (0, 3999, 1234)]
            for r in reports:
                if "error" in r:
                    return _fail("fork/child-exception", "no exception", r["error"])
                if r["shared"]:
                    return _fail("fork/shared-file-description", "an open file description of its own per process", r)
                if r["opener"] != r["pid"]:
                    return _fail("fork/opener-pid", {"pid": r["pid"]}, {"_opened_in_process_with_id": r["opener"]})
                if not (r["first"] and r["second"]):
                    return _fail("fork/child-read", "reference lines", r)
            if any(v != lines[i] for i, v in chk):
                return _fail("fork/parent-read", [lines[i] for i, _ in chk], [v for _, v in chk])
    return {"ok": True, "trivial": False, "scenario": "fork/own-description-" + case["variant"], "expected": None,
            "observed": None}


# ---------------------------------------------------------------------------------------------------------------

class _SeekGate:
    """wraps the parent's file handle: after seek() the armed hook runs (once), then the caller goes on"""

    def __init__(self, real):
        self._real = real
        self.hook = None

    def seek(self, *a):
        r = self._real.seek(*a)
        h, self.hook = self.hook, None
        if h is not None:
            h()
        return r

    def __getattr__(self, name):
        return getattr(self._real, name)


def _seek_child(f, read, lines, first, n, conn):
    try:
        conn.recv()  # wait until the parent sits between its seek and its readline
        got = [(first + 37 * j) % len(lines) for j in range(n)]
        conn.send([(i, read(i)) for i in got])
    except BaseException as e:  # noqa
        conn.send([("exception", repr(e))])


class _OsForkChild:
    """a child made by a bare os.fork(): nothing of multiprocessing's after-fork machinery runs in it"""

    def __init__(self, body):
        self.body, self.pid = body, None

    def start(self):
        self.pid = os.fork()
        if self.pid == 0:
            try:
                self.body()
            finally:
                os._exit(0)

    def join(self, timeout=None):
        import time
        t0 = time.time()
        while timeout is None or time.time() - t0 < timeout:
            try:
                p, _ = os.waitpid(self.pid, os.WNOHANG)
            except ChildProcessError:
                return
            if p == self.pid:
                return
            time.sleep(0.01)
        try:
            os.kill(self.pid, 9)
            os.waitpid(self.pid, 0)
        except OSError:
            pass


def _continue_child(read, lines, k, conn):
    try:
        order = [k + 1, k + 2, 3000, k + 1, 0]
        conn.send([(i, read(i)) for i in order])
    except BaseException as e:  # noqa
        conn.send([("exception", repr(e))])


def _body_continue_after_fork(case):
    import multiprocessing
    with U.Scratch(kill_children=True) as sc:
        f, read, lines = _prepare(sc, case["variant"])
        k = case["k"]
        with f:
            for i in range(k + 1):
                if read(i) != lines[i]:
                    return _fail("fork/single-process-read", lines[i], read(i))
            a, b = multiprocessing.Pipe()
            results = []
            for _ in range(2):
                if case["fork"] == "os":
                    child = _OsForkChild(lambda: _continue_child(read, lines, k, b))
                else:
                    child = multiprocessing.Process(target=_continue_child, args=(read, lines, k, b))
                child.start()
                if not a.poll(15):
                    child.join(1)
                    return _fail("fork/child-read", "an answer from the child", "none within 15 s")
                results.append(a.recv())
                child.join(10)
            for res in results:
                wrong = [(i, v) for i, v in res if i == "exception" or v != lines[i]]
                if wrong:
                    return _fail("fork/first-read-after-fork", {"parent read lines": "0..%d" % k, "child reads": [i for i, _ in res],
                                                                "expected": [lines[i] for i, _ in res][:2]}, wrong[:3])
            if read(k + 1) != lines[k + 1]:
                return _fail("fork/parent-read", lines[k + 1], read(k + 1))
    return {"ok": True, "trivial": False, "scenario": "fork/continue-after-fork-" + case["variant"], "expected": None, "observed": None}


def _body_forced_seek(case):
    import multiprocessing
    with U.Scratch(kill_children=True) as sc:
        f, read, lines = _prepare(sc, case["variant"])
        with f:
            # put the parent's own position far away from both lines, then install the gate
            far = case["park_line"]
            if read(far) != lines[far]:
                return _fail("fork/single-process-read", lines[far], read(far))
            gate = _SeekGate(f.file)
            f.file = gate
            a, b = multiprocessing.Pipe()
            if case.get("fork") == "os":
                child = _OsForkChild(lambda: _seek_child(f, read, lines, case["child_line"], case["child_reads"], b))
            else:
                child = multiprocessing.Process(target=_seek_child,
                                                args=(f, read, lines, case["child_line"], case["child_reads"], b))
            child.start()
            child_result = []

            def hook():
                a.send("go")
                if a.poll(15):
                    child_result.extend(a.recv())

            gate.hook = hook
            got = read(case["parent_line"])
            child.join(10)
            if gate.hook is not None:
                return _fail("fork/forced-seek-harness", "the read seeks through the handle", "no seek seen")
            if not child_result:
                return _fail("fork/child-read", "an answer from the child", "none within 15 s")
            wrong = [(i, v) for i, v in child_result if i == "exception" or v != lines[i]]
            if wrong:
                return _fail("fork/child-read", "reference lines", wrong[:3])
            if got != lines[case["parent_line"]]:
                return _fail("fork/read-position-disturbed",
                             {"parent_line": case["parent_line"], "text": lines[case["parent_line"]]},
                             {"parent_got": got, "child_read_lines": [i for i, _ in child_result]})
            # afterwards both still fine
            if read(5) != lines[5]:
                return _fail("fork/parent-read", lines[5], read(5))
    return {"ok": True, "trivial": False, "scenario": "fork/forced-seek-between-" + case["variant"],
            "expected": None, "observed": None}


def run_case(case):
    bodies = {"stress": _body_stress, "own_description": _body_own_description,
              "forced_seek_between": _body_forced_seek, "continue_after_fork": _body_continue_after_fork}
    kind = case.get("kind")
    if kind not in bodies:
        raise ValueError("unknown kind %r" % (kind,))
    return PU.guarded(lambda: bodies[kind](case), BODY_TIMEOUT_S, "fork/" + kind)
