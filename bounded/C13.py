"""
C13 - records survive save/load and record files are sequences of records (bounded layer).

Reference models: the record itself (round trip), ``csv.writer`` on a FRESH ``StringIO`` / ``json.dumps`` for the
expected single-line representation (stdlib, not the library), a Python ``list`` of records for record files.
"""
import csv
import io
import itertools
import json
import os
import random
import sys

sys.path.insert(0, os.path.dirname(os.path.abspath(__file__)))
import _files_util as U  # noqa: E402

CSV_CHARS = ["a", ",", "\t", '"', " ", "\\", "é"]
CSV_CHARS_THOROUGH = CSV_CHARS + ["'", ";", "0"]
JSON_CHARS = ["a", '"', "\\", "\n", "\r", "\t", "\x00", "é", " ", "\U0001F600", "\u2028", "/"]
INTS = [0, 1, -1, 7, -12345, 10 ** 30, -(10 ** 18)]
FLOATS = [0.0, -0.0, 0.1, 1.5, -2.5e-300, 1e308, 5e-324, 1 / 3, 1e16, 123456789.12345679, -1e-7, float(10 ** 20)]
JSON_VALUES = [None, True, False, 0, -7, 10 ** 30, 0.1, -2.5e-300, 1e308, "", "a\nb\r \x00\\\"é\u2028",
               [], {}, [1, [2, {"k": None}]], {"k": {"z": [1.5, "s"]}, "": 0}, [[], [[]], {"a": []}],
               {"a\n": "\r\n", "é": [True, False, None]}, "\U0001F600", -0.0, [0.5, -1, "x", None, True]]
FORMATS = ["csv", "tsv", "csv1"]
REC_CLASSES = U.RECORD_CLASSES

BOUNDS = {
    "quick": {
        "fresh_objects": "a record read from a record file is a new object per read (4 record-file classes; a mutable list field changed by the caller)", 
        "csv_tsv_strings": "all strings of length <= 3 over {a , TAB \" SPACE \\ é} (400) as the str fields of "
                           "CSVRecord/TSVRecord subclasses (int, str, float, str) and of a single-field record; "
                           "ints from %r, floats from %r" % (INTS, FLOATS),
        "json": "all ordered pairs of %d JSON values (None, bools, ints, finite floats, strings with control "
                "characters, nested lists/dicts of depth <= 3) + all strings of length <= 2 over 12 "
                "JSON-relevant characters" % len(JSON_VALUES),
        "shared_buffer": "10^3 consecutive saves alternating over 4 CSV/TSV classes that share the class-level "
                         "buffer, each output compared with a fresh csv.writer and loaded back",
        "derived_classes": "record classes derived from a concrete record class (an extra field; another delimiter), saved parent-first, "
                           "child-first and sibling-first",
        "record_files": "4 record-file classes x {csv, tsv, json} x all sub-lists (length 1..3) of a pool of 4 "
                        "records x line terminator {LF, save()'s own CRLF}; index, negative index, slices, "
                        "iterables, iteration",
        "mutable_record_files": "2 mutable record-file classes x {csv, json} x all edit histories of length <= 2 "
                                "over 9 op instances, + 150 random histories of length 3..6 on all formats; "
                                "save + reopen with all 4 record-file classes",
    },
    "thorough": {
        "fresh_objects": "a record read from a record file is a new object per read (4 record-file classes; a mutable list field changed by the caller)", 
        "csv_tsv_strings": "length <= 3 over 10 characters (adds ' ; 0) and length 4 over the 7 characters",
        "json": "as quick + strings of length <= 3",
        "shared_buffer": "10^4 consecutive saves",
        "derived_classes": "as quick",
        "record_files": "as quick with sub-lists up to length 4",
        "mutable_record_files": "histories of length <= 3, 2000 random histories",
    },
}

RULE = ("kind=csv/json: one case per record value (round trip load(save(r)) == r with field types preserved, "
        "save(r) has no interior line break, equals the stdlib serialisation). kind=shared_buffer: one long "
        "run. kind=recfile: one case per (class, format, record list, terminator). kind=mutrec: one case per "
        "(class, format, initial records, edit history); compared with a list of records after every edit and "
        "after save + reopen. Trivial: never (every case reads or writes at least one record), except empty "
        "histories.")

MUT_OPS = [["set", 0], ["set", -1], ["del", 0], ["ins", 1], ["app"], ["ext"], ["pop"], ["pop", 0], ["rev"]]


# ---------------------------------------------------------------------------------------------------------------

def _strings(chars, n):
    return list(U.strings_upto(chars, n))


def cases(tier, seed):
    quick = tier != "thorough"
    if quick:
        strs = _strings(CSV_CHARS, 3)
    else:
        strs = _strings(CSV_CHARS_THOROUGH, 3) + list(U.strings_upto(CSV_CHARS, 4, 4))
    yield {"kind": "shared_buffer", "n": 1000 if quick else 10000, "seed": seed}
    for order in ("parent-first", "child-first", "sibling-first"):
        yield {"kind": "derived", "order": order}
    for cls in REC_CLASSES:
        yield {"kind": "fresh_objects", "cls": cls}
    for i, s in enumerate(strs):
        for fmt in FORMATS:
            yield {"kind": "csv", "fmt": fmt, "s": s, "i": i}
    for a, b in itertools.product(range(len(JSON_VALUES)), repeat=2):
        yield {"kind": "json", "a": JSON_VALUES[a], "b": JSON_VALUES[b]}
    for s in _strings(JSON_CHARS, 2 if quick else 3):
        yield {"kind": "json", "a": s, "b": {s: [s]}}
    max_sub = 3 if quick else 4
    for cls in REC_CLASSES:
        for fmt in ("csv", "tsv", "json"):
            for n in range(1, max_sub + 1):
                for idxs in itertools.product(range(4), repeat=n):
                    for term in ("lf", "own") + (("unterminated-last",) if n <= 2 else ()):
                        yield {"kind": "recfile", "cls": cls, "fmt": fmt, "idxs": list(idxs), "term": term}
    # the same path read again after it was rewritten with the same total size but other line boundaries (save over an opened file)
    for cls in REC_CLASSES:
        for fmt in ("csv", "json"):
            for hist in ([[0, 1], [1, 0]], [[0, 2, 3], [3, 2, 0], [2, 0, 3]]):
                yield {"kind": "rec-rewrite", "cls": cls, "fmt": fmt, "history": hist}
    # JSON strings that only an escaping encoder keeps on one line / encodable: lone surrogates, U+2028, U+2029, U+0085, other separators
    for sp in ("\ud83d", "x\u2028y\u2029z", "\u0085", "\x0b\x0c\x1c\x1d\x1e", "\udc00\ud800"):
        yield {"kind": "json", "a": sp, "b": {sp: [sp]}}
        for cls in U.MUTABLE_RECORD:
            yield {"kind": "json-file", "cls": cls, "s": sp}
    for cls in U.MUTABLE_RECORD:
        for fmt in ("csv", "json"):
            for n in range(0, (2 if quick else 3) + 1):
                for ops in itertools.product(MUT_OPS, repeat=n):
                    yield {"kind": "mutrec", "cls": cls, "fmt": fmt, "init": [0, 1, 2], "ops": [list(o) for o in ops]}
    rng = random.Random(seed)
    for _ in range(150 if quick else 2000):
        ops = [list(rng.choice(MUT_OPS)) for _ in range(rng.randint(3, 6))]
        yield {"kind": "mutrec", "cls": rng.choice(U.MUTABLE_RECORD), "fmt": rng.choice(["csv", "tsv", "json"]),
               "init": [rng.randrange(4) for _ in range(rng.randint(1, 4))], "ops": ops}
    for _ in range(100 if quick else 1000):
        s = "".join(rng.choice(CSV_CHARS_THOROUGH) for _ in range(rng.randint(4, 9)))
        yield {"kind": "csv", "fmt": rng.choice(FORMATS), "s": s, "i": rng.randrange(10 ** 6)}


# ---------------------------------------------------------------------------------------------------------------

def _fail(scenario, expected, observed):
    return {"ok": False, "trivial": False, "scenario": scenario, "expected": U.short(expected, 500),
            "observed": U.short(observed, 500)}


OK = {"ok": True, "trivial": False, "expected": None, "observed": None}


def _csv_record(fmt, s, i):
    """the record of a csv case and its field list"""
    L = U.lib()
    if fmt == "csv1":
        return _single()(s), [s], ","
    a = INTS[i % len(INTS)]
    x = FLOATS[(i // 3) % len(FLOATS)]
    pool = ["", " ", "x,y", 'q"', "\ttab", "é ", " lead", "\\", "plain"]
    t = pool[(i * 31 + 7) % len(pool)]
    cls = L.CR if fmt == "csv" else L.TR
    return cls(a, s, x, t), [a, s, x, t], ("," if fmt == "csv" else "\t")


_SINGLE = {}


def _single():
    if "c" not in _SINGLE:
        from dataclasses import dataclass
        L = U.lib()

        @dataclass
        class S1(L.F.CSVRecord):
            s: str

        @dataclass
        class S2(L.F.TSVRecord):
            n: int
            s: str
        _SINGLE["c"] = S1
        _SINGLE["t"] = S2
    return _SINGLE["c"]


def _fresh_csv(fields, delimiter):
    buf = io.StringIO()
    csv.writer(buf, delimiter=delimiter).writerow(fields)
    return buf.getvalue()


def _same_typed(r1, r2, names):
    for nme in names:
        v1, v2 = getattr(r1, nme), getattr(r2, nme)
        if type(v1) is not type(v2) or v1 != v2:
            return False
    return True


def _check_csv_roundtrip(r, fields, delim):
    cls = type(r)
    sv, e = U.call(r.save)
    if e is not None:
        return _fail("records/csv-save-exception", "no exception", e)
    exp = _fresh_csv(fields, delim)
    if sv != exp:
        return _fail("records/csv-save-text", exp, sv)
    body = sv[:-2] if sv.endswith("\r\n") else sv
    if "\n" in body or "\r" in body:
        return _fail("records/csv-single-line", "no interior line break", sv)
    back, e = U.call(lambda: cls.load(sv))
    if e is not None or back != r or not _same_typed(back, r, cls.field_names()):
        return _fail("records/csv-roundtrip", r, (back, e))
    # the line as a line file returns it (terminator stripped up to the CR)
    for line in (body, body + "\r"):
        back, e = U.call(lambda: cls.load(line))
        if e is not None or back != r:
            return _fail("records/csv-roundtrip-stripped-line", r, (line, back, e))
    return None


def _run_csv(case):
    r, fields, delim = _csv_record(case["fmt"], case["s"], case["i"])
    # a first save of another record of the same class: the writer buffer is shared and must be clean afterwards
    # (makes the case independent of what ran before it in the same process, so that a replay sees the same)
    prime, pfields, _ = _csv_record(case["fmt"], "prime", 1)
    bad = _check_csv_roundtrip(prime, pfields, delim)
    if bad:
        bad["scenario"] += "@first-save"
        return bad
    bad = _check_csv_roundtrip(r, fields, delim)
    if bad:
        return bad
    return dict(OK, scenario="records/csv-roundtrip")


def _run_json(case):
    L = U.lib()
    r = L.JR(case["a"], case["b"])
    sv, e = U.call(r.save)
    if e is not None:
        return _fail("records/json-save-exception", "no exception", e)
    if "\n" in sv or "\r" in sv or len(sv.splitlines()) != 1:
        return _fail("records/json-single-line", "no line break", ascii(sv))
    back, e = U.call(lambda: L.JR.load(sv))
    if e is not None or back != r:
        return _fail("records/json-roundtrip", r, (back, e))
    if json.loads(sv) != {"a": case["a"], "b": case["b"]}:
        return _fail("records/json-save-text", {"a": case["a"], "b": case["b"]}, sv)
    return dict(OK, scenario="records/json-roundtrip")


def _run_derived(case):
    """record classes derived from other CONCRETE record classes (another delimiter, an extra field), saved in both orders: every
    class must be written with its own field names and its own delimiter"""
    from dataclasses import dataclass
    L = U.lib()

    @dataclass
    class A(L.F.CSVRecord):
        n: int
        s: str

    @dataclass
    class B(A):                      # derived from a concrete class: one more field
        t: str = "dflt"

    @dataclass
    class C(A):                      # derived from a concrete class: another delimiter
        _delimiter = ";"

    order = {"parent-first": [A, B, C, A], "child-first": [B, C, A, B], "sibling-first": [C, B, A, C]}[case["order"]]
    for k, cls in enumerate(order):
        if cls is B:
            r, fields, delim = B(k, "x,y;z", "t" + str(k)), [k, "x,y;z", "t" + str(k)], ","
        elif cls is C:
            r, fields, delim = C(k, "x,y;z"), [k, "x,y;z"], ";"
        else:
            r, fields, delim = A(k, "x,y;z"), [k, "x,y;z"], ","
        bad = _check_csv_roundtrip(r, fields, delim)
        if bad:
            bad["scenario"] = bad["scenario"].replace("records/", "records/derived-classes/")
            bad["observed"] = "%s (save #%d, order %s): %s" % (cls.__name__, k, case["order"], bad["observed"])
            return bad
    return dict(OK, scenario="records/derived-classes")


def _run_fresh_objects(case):
    """f[i] is load(line i) every time: changing a record that was read (it is the caller's object) must not change what a later read of the
    same line - or of another line with the same text - returns"""
    from dataclasses import dataclass, field
    L = U.lib()

    @dataclass
    class TR(L.F.JsonRecord):
        name: str
        tags: list

    lines = [json.dumps({"name": "a", "tags": ["x"]}, separators=(",", ":")), json.dumps({"name": "b", "tags": []}, separators=(",", ":")),
             json.dumps({"name": "a", "tags": ["x"]}, separators=(",", ":"))]
    with U.Scratch() as sc:
        p = sc.write("recs.txt", ("\n".join(lines) + "\n").encode("utf-8"))
        with _open_rec(case["cls"], p, TR) as f:
            r0 = f[0]
            r0.tags.append("changed-by-the-caller")
            r0.name = "renamed"
            again, twin = f[0], f[2]
            exp = TR("a", ["x"])
            if again != exp or twin != exp or again is r0:
                return _fail("records/fresh-object-per-read", {"f[0]": exp, "f[2]": exp}, {"f[0]": again, "f[2]": twin, "same object": again is r0})
            got = list(f)
            if got != [exp, TR("b", []), exp]:
                return _fail("records/fresh-object-per-read", [exp, TR("b", []), exp], got)
    return dict(OK, scenario="records/fresh-object-per-read")


def _run_shared_buffer(case):
    L = U.lib()
    _single()
    rng = random.Random(case["seed"])
    chars = CSV_CHARS_THOROUGH
    for k in range(case["n"]):
        which = rng.randrange(4)
        s = "".join(rng.choice(chars) for _ in range(rng.randint(0, 6)))
        if which == 0:
            r, fields, delim = L.CR(k, s, k / 7.0, s[::-1]), [k, s, k / 7.0, s[::-1]], ","
        elif which == 1:
            r, fields, delim = L.TR(-k, s, k * 1e-3, ""), [-k, s, k * 1e-3, ""], "\t"
        elif which == 2:
            r, fields, delim = _SINGLE["c"](s), [s], ","
        else:
            r, fields, delim = _SINGLE["t"](k, s), [k, s], "\t"
        bad = _check_csv_roundtrip(r, fields, delim)
        if bad:
            bad["scenario"] = bad["scenario"].replace("records/", "records/shared-buffer/")
            bad["observed"] = "save #%d: %s" % (k, bad["observed"])
            return bad
    if L.F.CSVRecord._res_io.getvalue() != "":
        return _fail("records/shared-buffer/not-reset", "", L.F.CSVRecord._res_io.getvalue())
    return dict(OK, scenario="records/shared-buffer")


def _pool(fmt):
    """4 records per format with their reference one-line serialisation"""
    L = U.lib()
    if fmt == "json":
        recs = [L.JR({"k": [1, "\n"]}, None), L.JR("é", 2.5), L.JR([], {"": [True]}), L.JR("a,b\t\"", -1)]
        lines = [json.dumps({"a": r.a, "b": r.b}, separators=(",", ":")) for r in recs]
        return L.JR, recs, lines
    cls = L.CR if fmt == "csv" else L.TR
    delim = "," if fmt == "csv" else "\t"
    recs = [cls(1, "x,y", 0.5, ' q"'), cls(2, "", 1.0, "\t"), cls(-3, " é\\", -2.5e-300, "plain"),
            cls(10 ** 20, '""', 1e308, " ")]
    lines = [_fresh_csv([r.a, r.s, r.x, r.t], delim)[:-2] for r in recs]
    return cls, recs, lines


def _open_rec(cls_name, path, rc):
    L = U.lib()
    return getattr(L.F, cls_name)(path, rc)


def _seq_diff(f, model):
    n = len(model)
    v, e = U.call(lambda: len(f))
    if e is not None or v != n:
        return "len", n, (v, e)
    for i in range(-n, n):
        v, e = U.call(lambda: f[i])
        if e is not None or v != model[i]:
            return "index", (i, model[i]), (i, v, e)
    v, e = U.call(lambda: list(f))
    if e is not None or v != model:
        return "iter", model, (v, e)
    for sl in (slice(None), slice(None, None, -1), slice(1, None), slice(0, 2), slice(None, None, 2)):
        v, e = U.call(lambda: f[sl])
        if e is not None or v != model[sl]:
            return "slice", (str(sl), model[sl]), (v, e)
    if n:
        v, e = U.call(lambda: f[[n - 1, 0]])
        if e is not None or v != [model[n - 1], model[0]]:
            return "iterable-selector", [model[n - 1], model[0]], (v, e)
    return None


def _run_recfile(case):
    rc, recs, lines = _pool(case["fmt"])
    model = [recs[i] for i in case["idxs"]]
    if case["term"] == "unterminated-last":
        text = "\n".join(lines[i] for i in case["idxs"])
    elif case["term"] == "lf":
        text = "".join(lines[i] + "\n" for i in case["idxs"])
    else:
        # terminator produced by save() itself (CSV: CRLF), JSON has none -> LF
        text = "".join((recs[i].save() if recs[i].save().endswith("\n") else recs[i].save() + "\n")
                       for i in case["idxs"])
    with U.Scratch() as sc:
        p = sc.write("recs.txt", text.encode("utf-8"))
        try:
            with _open_rec(case["cls"], p, rc) as f:
                bad = _seq_diff(f, model)
        except Exception as ex:  # noqa
            bad = ("exception", "no exception", "%s: %s" % (type(ex).__name__, ex))
    if bad:
        return _fail("records/file-" + bad[0], bad[1], bad[2])
    return dict(OK, scenario="records/file-read")


def _run_mutrec(case):
    rc, recs, lines = _pool(case["fmt"])
    model = [recs[i] for i in case["init"]]
    text = "".join(lines[i] + "\n" for i in case["init"])
    fresh = itertools.cycle([recs[3], recs[1], recs[0], recs[2]])
    with U.Scratch() as sc:
        p = sc.write("recs.txt", text.encode("utf-8"))
        try:
            with _open_rec(case["cls"], p, rc) as f:
                bad = _seq_diff(f, model)
                if bad:
                    return _fail("records/mutable-initial-" + bad[0], bad[1], bad[2])
                for step, op in enumerate(case["ops"], 1):
                    k = op[0]
                    new = next(fresh)
                    if k == "set":
                        fa, fr = (lambda: f.__setitem__(op[1], new)), (lambda: model.__setitem__(op[1], new))
                    elif k == "del":
                        fa, fr = (lambda: f.__delitem__(op[1])), (lambda: model.__delitem__(op[1]))
                    elif k == "ins":
                        fa, fr = (lambda: f.insert(op[1], new)), (lambda: model.insert(op[1], new))
                    elif k == "app":
                        fa, fr = (lambda: f.append(new)), (lambda: model.append(new))
                    elif k == "ext":
                        fa, fr = (lambda: f.extend([new, recs[0]])), (lambda: model.extend([new, recs[0]]))
                    elif k == "pop":
                        fa, fr = (lambda: f.pop(*op[1:])), (lambda: model.pop(*op[1:]))
                    elif k == "rev":
                        fa, fr = (lambda: f.reverse()), (lambda: model.reverse())
                    else:
                        raise ValueError(op)
                    ra, ea = U.call(fa)
                    rr, er = U.call(fr)
                    if ea != er or ra != rr:
                        return _fail("records/mutable-op-" + k, {"step": step, "result": rr, "exception": er},
                                     {"step": step, "result": ra, "exception": ea})
                    bad = _seq_diff(f, model)
                    if bad:
                        return _fail("records/mutable-state-after-%s/%s" % (k, bad[0]), bad[1], bad[2])
                out = sc.path("out.txt")
                f.save(out)
            with open(p, "rb") as g:
                if g.read() != text.encode("utf-8"):
                    return _fail("records/mutable-source-changed", text, "changed")
            for cls2 in REC_CLASSES:
                if not model and U.is_mmap(cls2):
                    continue
                with _open_rec(cls2, out, rc) as g:
                    bad = _seq_diff(g, model)
                if bad:
                    return _fail("records/mutable-reopen-" + bad[0], {"class": cls2, "exp": bad[1]}, bad[2])
        except Exception as ex:  # noqa
            import traceback
            return _fail("records/mutable-exception", "no exception",
                         "%s: %s %s" % (type(ex).__name__, ex, traceback.format_exc(limit=3)[-500:]))
    return dict(OK, scenario="records/mutable-edit-save-reopen", trivial=len(case["ops"]) == 0)


def _run_rec_rewrite(case):
    rc, recs, lines = _pool(case["fmt"])
    with U.Scratch() as sc:
        for step, idxs in enumerate(case["history"]):
            text = "".join(lines[i] + "\n" for i in idxs)
            p = sc.write("same.txt", text.encode("utf-8"))
            try:
                with _open_rec(case["cls"], p, rc) as f:
                    bad = _seq_diff(f, [recs[i] for i in idxs])
            except Exception as ex:  # noqa
                bad = ("exception", "no exception", "%s: %s" % (type(ex).__name__, ex))
            if bad:
                return _fail("records/same-path-rewritten", {"step": step, "records": idxs, bad[0]: bad[1]}, bad[2])
    return dict(OK, scenario="records/same-path-rewritten")


def _run_json_file(case):
    L = U.lib()
    r0, r1 = L.JR("plain", 1), L.JR(case["s"], {case["s"]: [case["s"], 2]})
    with U.Scratch() as sc:
        p = sc.write("recs.txt", (r0.save() + "\n").encode("utf-8"))
        out = sc.path("out.txt")
        try:
            with _open_rec(case["cls"], p, L.JR) as f:
                f.append(r1)
                f.insert(0, r1)
                f.save(out)
            for cls2 in REC_CLASSES:
                with _open_rec(cls2, out, L.JR) as g:
                    bad = _seq_diff(g, [r1, r0, r1])
                if bad:
                    return _fail("records/json-special-strings-file-" + bad[0], {"class": cls2, "exp": ascii(bad[1])}, ascii(bad[2]))
        except Exception as ex:  # noqa
            return _fail("records/json-special-strings-file", "edit, save and reopen work for any string",
                         "%s: %s" % (type(ex).__name__, ascii(str(ex))))
    return dict(OK, scenario="records/json-special-strings-file")


def run_case(case):
    k = case["kind"]
    if k == "rec-rewrite":
        return _run_rec_rewrite(case)
    if k == "json-file":
        return _run_json_file(case)
    if k == "csv":
        return _run_csv(case)
    if k == "json":
        return _run_json(case)
    if k == "shared_buffer":
        return _run_shared_buffer(case)
    if k == "derived":
        return _run_derived(case)
    if k == "fresh_objects":
        return _run_fresh_objects(case)
    if k == "recfile":
        return _run_recfile(case)
    if k == "mutrec":
        return _run_mutrec(case)
    raise ValueError("unknown kind %r" % (k,))
