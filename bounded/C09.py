"""C09 - SortedSet / SortedMap stay sorted, duplicate-free and equivalent to set / dict.

Reference model: builtin set / dict driven by the same operations; expected iteration = sorted(reference).
Keys are ints and floats mixed (1 and 1.0 are the same key). Foreign-typed probes ("x", None, (1,), [1]) through
`in`, lookup, get, remove, pop and del must report absent (False / KeyError / default) and leave the structure
unchanged. (discard / add / store of a foreign value are not probes and are not exercised.)
"""
import itertools, random
from _util import at, take, ok, Fail, check, call

from windpyutils.structures.sorted import SortedSet, SortedMap

VALS = [0, 1, 1.0, 2.5, -1]
KEYS = [0, 1, 1.0, 2.5]
FOREIGN = {"str": "x", "none": None, "tuple": (1,), "list": [1]}
SET_INITS = [[], [1, 2.5], [2.5, 0, 1.0, 0]]
MAP_INITS = [[], [[1, "i1"], [2.5, "i2"]], [[2.5, "i0"], [1, "i1"], [1.0, "i2"], [0, "i3"]]]
SET_OPS = [["add", v] for v in KEYS] + [["discard", v] for v in (0, 1.0, 2.5)] + [["remove", v] for v in (0, 1, 2.5)] + \
          [["pop"], ["in", "str"], ["remove", "str"], ["in", "none"]]
MAP_OPS = [["set", k] for k in KEYS] + [["del", k] for k in (0, 1.0, 2.5)] + [["pop", 1], ["pop", 2.5], ["popd", 0]] + \
          [["setdefault", 0], ["setdefault", 1.0], ["update-dict"], ["update-pairs"],
           ["get", "str"], ["in", "str"], ["pop", "str"], ["del", "none"]]

BOUNDS = {
    "quick": {
        "two_instances": "two SortedSet / SortedMap objects created the same way (no argument, empty, two values): changes of one are not visible in the other", "initialisers": {"values": VALS, "max_len": 4, "containers": ["list", "tuple", "iterator", "dict(map)"]},
              "set_history": {"ops": SET_OPS, "initial": SET_INITS, "len_per_initial": [5, 5, 4]},
              "map_history": {"ops": MAP_OPS, "initial": MAP_INITS, "len_per_initial": [4, 4, 3]},
              "probes": {"numeric": KEYS + [3, -0.5], "foreign": list(FOREIGN)},
              "random": {"count": 3000, "len": "8..40", "values": "ints -3..6, halves, -0.0, +-10**20, 1e300, -1e308"}},
    "thorough": {
        "two_instances": "two SortedSet / SortedMap objects created the same way (no argument, empty, two values): changes of one are not visible in the other", "initialisers": {"values": VALS, "max_len": 6, "containers": ["list", "tuple", "iterator", "dict(map)"]},
                 "set_history": {"ops": SET_OPS, "initial": SET_INITS, "len_per_initial": [5, 6, 5]},
                 "map_history": {"ops": MAP_OPS, "initial": MAP_INITS, "len_per_initial": [5, 5, 4]},
                 "probes": {"numeric": KEYS + [3, -0.5], "foreign": list(FOREIGN)},
                 "random": {"count": 60000, "len": "8..60", "values": "as quick"}},
}
RULE = ("Initialisers: every sequence over the value alphabet up to max_len (empty, unsorted, repeats, 1 vs 1.0) for "
        "SortedSet (list/tuple/iterator) and SortedMap (pair list / pair iterator / dict; values = positions so that "
        "'later pairs win' is visible). Histories: all operation sequences over the stated alphabets up to the stated "
        "length, shortest first, from each initial content; stored values are unique per position. After EVERY "
        "operation: iteration strictly ascending and == sorted(reference), len. At the end of every history (every "
        "prefix is itself an enumerated history) and after every operation of the random histories: membership / "
        "lookup / get of every numeric probe, every foreign probe -> False / KeyError / default with the content "
        "unchanged. Then a seeded random sample of longer histories over a wider numeric range. Non-trivial = the structure is non-empty at "
        "some point or is built from a non-empty initialiser; distinct = canonical JSON.")


def _seqs(ops, n):
    for L in range(1, n + 1):
        for t in itertools.product(ops, repeat=L):
            yield list(t)


def cases(tier, seed):
    b = BOUNDS[tier]
    for L in range(0, b["initialisers"]["max_len"] + 1):
        for init in itertools.product(VALS, repeat=L):
            for cont in ("list", "tuple", "iterator"):
                yield {"kind": "set-init", "init": list(init), "container": cont}
            for cont in ("pairs", "pair-iterator", "dict"):
                yield {"kind": "map-init", "init": list(init), "container": cont}
    # initialisers that are neither lists nor iterators of lists: ranges (ascending, DESCENDING, empty), sets, generators, reversed()
    for a in (-2, 0, 3):
        for b_ in (-2, 0, 3, 5):
            for st in (1, 2, -1, -2):
                yield {"kind": "set-init-iterable", "range": [a, b_, st], "as": "range"}
    for init in ([3, 1, 2], [2, 2, 1], [5, 4, 3, 2, 1]):
        for how in ("set", "frozenset", "generator", "reversed", "dict-keys", "map-object"):
            yield {"kind": "set-init-iterable", "init": init, "as": how}
    # keys outside the float range / beyond 2**53 (ints compare exactly with floats in Python; no conversion may be needed)
    for ks in ([10 ** 400, 1, -10 ** 400], [2 ** 53 + 1, 2 ** 53, 2.0 ** 53], [10 ** 400, 10 ** 400 + 1, 0.5]):
        yield {"kind": "huge-keys", "keys": [str(k) if isinstance(k, int) else k for k in ks]}
    for how in ("set-none", "set-empty", "set-vals", "map-none", "map-empty", "map-vals"):
        yield {"kind": "two-instances", "how": how}
    yield {"kind": "set-init", "init": None, "container": "none"}
    yield {"kind": "map-init", "init": None, "container": "none"}
    for kind, inits, ops in (("set-history", SET_INITS, SET_OPS), ("map-history", MAP_INITS, MAP_OPS)):
        hb = b[kind.replace("-", "_")]
        for init, n in zip(inits, hb["len_per_initial"]):
            for o in _seqs(ops, n):
                yield {"kind": kind, "init": init, "ops": o}
    rng = random.Random(seed)
    wide = list(range(-3, 7)) + [x + 0.5 for x in range(-3, 4)] + [1.0, 2.0, -0.0, 10 ** 20, -10 ** 20, 1e300, -1e308]
    for _ in range(b["random"]["count"]):
        vs = rng.sample(wide, rng.randint(2, 8))
        n = rng.randint(8, 40 if tier == "quick" else 60)
        if rng.random() < 0.5:
            ops = []
            for _ in range(n):
                op = rng.choice(["add", "add", "discard", "remove", "pop", "in", "remove"])
                ops.append([op] if op == "pop" else [op, rng.choice(vs + ["str", "none", "tuple"]) if op in ("in", "remove")
                                                     else rng.choice(vs)])
            yield {"kind": "set-history", "init": [rng.choice(vs) for _ in range(rng.randint(0, 5))], "ops": ops,
                   "probes": "every"}
        else:
            ops = []
            for _ in range(n):
                op = rng.choice(["set", "set", "del", "pop", "popd", "setdefault", "get", "in", "update-dict", "update-pairs"])
                if op.startswith("update"):
                    ops.append([op, [rng.choice(vs) for _ in range(rng.randint(0, 3))]])
                else:
                    ops.append([op, rng.choice(vs + ["str", "none", "list"]) if op in ("get", "in", "pop", "del", "popd")
                                else rng.choice(vs)])
            yield {"kind": "map-history", "init": [[rng.choice(vs), f"i{i}"] for i in range(rng.randint(0, 5))], "ops": ops,
                   "probes": "every"}


# ---------------------------------------------------------------------------------------------------------------
_D = "<default>"
PROBES = KEYS + [3, -0.5]


def _val(x):
    """Decode a case value: names of foreign probes -> the foreign object; numbers (incl. JSON inf) as they are."""
    return FOREIGN[x] if isinstance(x, str) and x in FOREIGN else x


def _foreign(x):
    return isinstance(x, str) and x in FOREIGN


def _set_state(s, ref, after, tag="sortedset"):
    exp = sorted(ref)
    got = call(f"{tag}/iteration", lambda: take(iter(s), len(exp) + 1))[1]
    check(got == exp and all(a < b for a, b in zip(got, got[1:])), f"{tag}/sorted-content", exp, {"after": after, "iter": got})
    n = call(f"{tag}/len", len, s)[1]
    check(n == len(exp), f"{tag}/len", len(exp), {"after": after, "len": n})


def _set_probes(s, ref, after):
    for p in PROBES:
        r = call("sortedset/membership", s.__contains__, p)[1]
        check(r == (p in ref), "sortedset/membership", p in ref, {"after": after, "probe": p, "in": r})
    for name, f in FOREIGN.items():
        r = call("sortedset/foreign-probe", s.__contains__, f)[1]
        check(r is False, "sortedset/foreign-probe", False, {"after": after, "probe": name, "in": r})
        r = call("sortedset/foreign-probe", s.remove, f, allowed=(KeyError,))
        check(r == ("raised", "KeyError"), "sortedset/foreign-probe", "KeyError", {"after": after, "remove": name, "result": r})
    _set_state(s, ref, [after, "probes"], "sortedset/after-probes")


def _map_state(m, ref, after):
    exp = sorted(ref.items())
    got = call("sortedmap/iteration", lambda: take(m.items(), len(exp) + 1))[1]
    keys = call("sortedmap/iteration", lambda: take(iter(m), len(exp) + 1))[1]
    check([list(x) for x in got] == [list(x) for x in exp] and keys == [k for k, _ in exp]
          and all(a < b for a, b in zip(keys, keys[1:])), "sortedmap/sorted-content", exp, {"after": after, "items": got})
    n = call("sortedmap/len", len, m)[1]
    check(n == len(exp), "sortedmap/len", len(exp), {"after": after, "len": n})


def _map_probes(m, ref, after):
    for p in PROBES:
        r = call("sortedmap/membership", m.__contains__, p)[1]
        check(r == (p in ref), "sortedmap/membership", p in ref, {"after": after, "probe": p, "in": r})
        r = call("sortedmap/lookup", m.__getitem__, p, allowed=(KeyError,))
        e = ("value", ref[p]) if p in ref else ("raised", "KeyError")
        check(r == e, "sortedmap/lookup", e, {"after": after, "probe": p, "result": r})
        r = call("sortedmap/get", m.get, p, _D)[1]
        check(r == ref.get(p, _D), "sortedmap/get", ref.get(p, _D), {"after": after, "probe": p, "result": r})
    for name, f in FOREIGN.items():
        r = call("sortedmap/foreign-probe", m.__contains__, f)[1]
        check(r is False, "sortedmap/foreign-probe", False, {"after": after, "probe": name, "in": r})
        for what, fn in (("lookup", m.__getitem__), ("pop", m.pop), ("del", m.__delitem__)):
            r = call("sortedmap/foreign-probe", fn, f, allowed=(KeyError,))
            check(r == ("raised", "KeyError"), "sortedmap/foreign-probe", "KeyError",
                  {"after": after, what: name, "result": r})
        r = call("sortedmap/foreign-probe", m.get, f, _D)[1]
        check(r == _D, "sortedmap/foreign-probe", _D, {"after": after, "get": name, "result": r})
        r = call("sortedmap/foreign-probe", m.pop, f, _D)[1]
        check(r == _D, "sortedmap/foreign-probe", _D, {"after": after, "pop-default": name, "result": r})
    _map_state(m, ref, [after, "probes"])


def _run_set_init(case):
    init, cont = case["init"], case["container"]
    if init is None:
        s = call("sortedset/init-none", SortedSet)[1]
        _set_state(s, set(), "SortedSet()", "sortedset/init-none")
        return ok("sortedset/init", trivial=True)
    tag = "sortedset/init-empty" if not init else "sortedset/init-repeats" if len(set(init)) < len(init) else "sortedset/init"
    arg = {"list": list, "tuple": tuple, "iterator": iter}[cont](list(init))
    s = call(tag, SortedSet, arg)[1]
    ref = set(init)
    _set_state(s, ref, {"init": init}, tag)
    _set_probes(s, ref, {"init": init})
    # the structure built from the initialiser must keep working
    call(tag, s.add, 0.5)
    ref.add(0.5)
    _set_state(s, ref, "add 0.5", tag)
    return ok(tag, trivial=not init)


def _run_map_init(case):
    init, cont = case["init"], case["container"]
    if init is None:
        m = call("sortedmap/init-none", SortedMap)[1]
        _map_state(m, {}, "SortedMap()")
        return ok("sortedmap/init", trivial=True)
    tag = "sortedmap/init-empty" if not init else "sortedmap/init-repeats" if len(set(init)) < len(init) else "sortedmap/init"
    pairs = [(k, f"p{i}") for i, k in enumerate(init)]
    ref = {}
    for k, v in pairs:          # later pairs win
        ref[k] = v
    arg = {"pairs": list, "pair-iterator": iter, "dict": dict}[cont](list(pairs))
    m = call(tag, SortedMap, arg)[1]
    at(tag)
    try:
        _map_state(m, ref, {"init": init})
        _map_probes(m, ref, {"init": init})
        call(tag, m.__setitem__, 0.5, "new")
        ref[0.5] = "new"
        _map_state(m, ref, "store 0.5")
    except Fail as f:
        if not f.result["scenario"].startswith(tag):
            f.result["scenario"] = tag + ":" + f.result["scenario"].split("/", 1)[1]
        raise
    return ok(tag, trivial=not init)


def _run_set_history(case):
    init = [_val(x) for x in case["init"]]
    s = call("sortedset/init", SortedSet, list(init))[1]
    ref = set(init)
    nonempty = bool(ref)
    _set_state(s, ref, {"init": init})
    for i, o in enumerate(case["ops"]):
        op, v = o[0], _val(o[1]) if len(o) > 1 else None
        foreign = len(o) > 1 and _foreign(o[1])
        if op == "add":
            call("sortedset/add", s.add, v)
            ref.add(v)
        elif op == "discard":
            call("sortedset/discard", s.discard, v)
            ref.discard(v)
        elif op == "remove":
            r = call("sortedset/foreign-probe" if foreign else "sortedset/remove", s.remove, v, allowed=(KeyError,))
            e = ("value", None) if not foreign and v in ref else ("raised", "KeyError")
            check(r == e, "sortedset/foreign-probe" if foreign else "sortedset/remove", e, {"after": o, "result": r})
            if not foreign:
                ref.discard(v)
        elif op == "in":
            r = call("sortedset/foreign-probe" if foreign else "sortedset/membership", s.__contains__, v)[1]
            e = (not foreign) and v in ref
            check(r is e, "sortedset/foreign-probe" if foreign else "sortedset/membership", e, {"after": o, "in": r})
        elif op == "pop":
            r = call("sortedset/pop", s.pop, allowed=(KeyError,))
            if not ref:
                check(r == ("raised", "KeyError"), "sortedset/pop", "KeyError", r)
            else:
                check(r[0] == "value" and r[1] in ref, "sortedset/pop", {"one of": sorted(ref)}, r)
                ref.discard(r[1])
        else:
            raise ValueError(f"unknown op {op}")
        nonempty = nonempty or bool(ref)
        _set_state(s, ref, o)
        if case.get("probes") == "every" or i == len(case["ops"]) - 1:
            _set_probes(s, ref, o)
    return ok("sortedset/history", trivial=not nonempty)


def _run_map_history(case):
    pairs = [(_val(k), v) for k, v in case["init"]]
    m = call("sortedmap/init", SortedMap, list(pairs))[1]
    ref = dict(pairs)
    nonempty = bool(ref)
    _map_state(m, ref, {"init": case["init"]})
    for i, o in enumerate(case["ops"]):
        op = o[0]
        k = _val(o[1]) if len(o) > 1 and not op.startswith("update") else None
        foreign = len(o) > 1 and _foreign(o[1])
        sc = "sortedmap/foreign-probe" if foreign else f"sortedmap/{op}"
        v = f"v{i}"
        if op == "set":
            call(sc, m.__setitem__, k, v)
            ref[k] = v
        elif op == "del":
            r = call(sc, m.__delitem__, k, allowed=(KeyError,))
            e = ("value", None) if not foreign and k in ref else ("raised", "KeyError")
            check(r == e, sc, e, {"after": o, "result": r})
            if not foreign:
                ref.pop(k, None)
        elif op == "get":
            r = call(sc, m.__getitem__, k, allowed=(KeyError,))
            e = ("value", ref[k]) if not foreign and k in ref else ("raised", "KeyError")
            check(r == e, sc, e, {"after": o, "result": r})
        elif op == "in":
            r = call(sc, m.__contains__, k)[1]
            e = (not foreign) and k in ref
            check(r is e, sc, e, {"after": o, "in": r})
        elif op == "pop":
            r = call(sc, m.pop, k, allowed=(KeyError,))
            e = ("value", ref.pop(k)) if not foreign and k in ref else ("raised", "KeyError")
            check(r == e, sc, e, {"after": o, "result": r})
        elif op == "popd":
            r = call(sc, m.pop, k, _D)[1]
            e = _D if foreign else ref.pop(k, _D)
            check(r == e, sc, e, {"after": o, "result": r})
        elif op == "setdefault":
            r = call(sc, m.setdefault, k, v)[1]
            e = ref.setdefault(k, v)
            check(r == e, sc, e, {"after": o, "result": r})
        elif op in ("update-dict", "update-pairs"):
            ks = [_val(x) for x in o[1]] if len(o) > 1 else [3, 0, 1.0]
            upd = [(kk, f"{v}.{j}") for j, kk in enumerate(ks)] + ([(ks[0], f"{v}.last")] if ks else [])
            call("sortedmap/update", m.update, dict(upd) if op == "update-dict" else iter(upd))
            ref.update(upd)
        else:
            raise ValueError(f"unknown op {op}")
        nonempty = nonempty or bool(ref)
        _map_state(m, ref, o)
        if case.get("probes") == "every" or i == len(case["ops"]) - 1:
            _map_probes(m, ref, o)
    return ok("sortedmap/history", trivial=not nonempty)


def _run_two_instances(case):
    """two containers created the same way are independent objects: a change of one is never visible in the other"""
    from windpyutils.structures.sorted import SortedSet, SortedMap
    mk = {"set-none": lambda: SortedSet(), "set-empty": lambda: SortedSet([]), "set-vals": lambda: SortedSet([3, 1]),
          "map-none": lambda: SortedMap(), "map-empty": lambda: SortedMap({}), "map-vals": lambda: SortedMap({3: "c", 1: "a"})}[case["how"]]
    a, b = mk(), mk()
    before = list(b.items()) if case["how"].startswith("map") else list(b)
    if case["how"].startswith("map"):
        a[7] = "x"
        a[2] = "y"
        after, mine = list(b.items()), list(a.keys())
    else:
        a.add(7)
        a.add(2)
        after, mine = list(b), list(a)
    check(after == before, "sorted/two-instances/independent", {"second": before}, {"second": after, "first": mine})
    check(7 in mine and 2 in mine and mine == sorted(mine), "sorted/two-instances/first", "7 and 2 added, sorted", mine)
    return ok("sorted/two-instances")


def _run_set_init_iterable(case):
    tag = "sortedset/init-iterable"
    if case["as"] == "range":
        a, b_, st = case["range"]
        arg, vals = range(a, b_, st), list(range(a, b_, st))
    else:
        vals = list(case["init"])
        arg = {"set": set, "frozenset": frozenset, "generator": lambda v: (x for x in v), "reversed": reversed,
               "dict-keys": lambda v: dict.fromkeys(v).keys(), "map-object": lambda v: map(lambda x: x, v)}[case["as"]](vals)
    s = call(tag, SortedSet, arg)[1]
    ref = set(vals)
    _set_state(s, ref, {"init": case}, tag)
    for x in sorted(ref) + [0.5, -7]:
        r = call(tag, s.__contains__, x)[1]
        check(r == (x in ref), tag, x in ref, {"init": case, "probe": x, "in": r})
    call(tag, s.add, 0.5)
    ref.add(0.5)
    if vals:
        call(tag, s.discard, vals[0])
        ref.discard(vals[0])
    _set_state(s, ref, {"init": case, "then": "add 0.5, discard first"}, tag)
    return ok(tag, trivial=not vals)


def _run_huge_keys(case):
    tag = "sorted/huge-keys"
    ks = [int(k) if isinstance(k, str) else k for k in case["keys"]]
    m, ref = call(tag, SortedMap)[1], {}
    s, sref = call(tag, SortedSet)[1], set()
    for i, k in enumerate(ks):
        how = i % 3
        if how == 0:
            call(tag, m.__setitem__, k, "v%d" % i)
            ref[k] = "v%d" % i
        elif how == 1:
            r = call(tag, m.setdefault, k, "v%d" % i)[1]
            check(r == ref.setdefault(k, "v%d" % i), tag, ref[k], {"setdefault": str(k)[:30], "result": r})
        else:
            call(tag, m.update, [(k, "v%d" % i)])
            ref[k] = "v%d" % i
        call(tag, s.add, k)
        sref.add(k)
        ok_keys = call(tag, lambda: take(iter(m), len(ref) + 1))[1]
        check(ok_keys == sorted(ref), tag, [str(x)[:30] for x in sorted(ref)], {"after": str(k)[:30], "keys": [str(x)[:30] for x in ok_keys]})
        so = call(tag, lambda: take(iter(s), len(sref) + 1))[1]
        check(so == sorted(sref), tag, [str(x)[:30] for x in sorted(sref)], {"after": str(k)[:30], "set": [str(x)[:30] for x in so]})
    for k in ks + [0, 10 ** 401]:
        r = call(tag, m.get, k, _D)[1]
        check(r == ref.get(k, _D), tag, ref.get(k, _D), {"get": str(k)[:30], "result": r})
        r = call(tag, s.__contains__, k)[1]
        check(r == (k in sref), tag, k in sref, {"in": str(k)[:30], "result": r})
    for k in ks:
        r = call(tag, m.pop, k, _D)[1]
        check(r == ref.pop(k, _D), tag, "dict.pop", {"pop": str(k)[:30], "result": r})
        call(tag, s.discard, k)
        sref.discard(k)
    check(len(m) == len(ref) and len(s) == len(sref), tag, [len(ref), len(sref)], [len(m), len(s)])
    return ok(tag)


_RUN = {"set-init-iterable": _run_set_init_iterable, "huge-keys": _run_huge_keys, "two-instances": _run_two_instances, "set-init": _run_set_init, "map-init": _run_map_init, "set-history": _run_set_history, "map-history": _run_map_history}


def run_case(case):
    try:
        return _RUN[case["kind"]](case)
    except Fail as f:
        return f.result
