"""
C14 - TextFileStorage: what is stored under an id is what any process reads back (bounded layer).

Reference model: a ``dict`` id -> text of the completed stores (plus, for the concurrent scenarios, the fixed function
id -> text every writer uses, so a reader can judge every value it sees on its own: IndexError or exactly that text).
Every case runs in a fresh interpreter: the storage owns a manager process, the concurrent scenarios start writer /
reader processes.

Forced schedule of DESIGN §7 F9: the storage's own output file is wrapped by a *gate* object (sidecar, installed
from outside) whose first ``write`` lets a reader on ANOTHER thread / process try to read the id that is being
stored, waits up to 0.5 s for its answer, and only then writes. If the index entry is published before the line is
written and outside the lock, the reader gets through and sees '' (violation); with the write inside the locked
block the reader blocks on the lock and afterwards reads the complete line.
"""
import itertools
import os
import random
import sys
import threading

sys.path.insert(0, os.path.dirname(os.path.abspath(__file__)))
import _pool_util as PU  # noqa: E402
import _files_util as U  # noqa: E402

RUN_IN_SUBPROCESS = True
CASE_TIMEOUT_S = 40
BODY_TIMEOUT_S = 30

BOUNDS = {
    "quick": {
        "sequential": "all histories of exactly 4 stores over the ids 0..4 (625; every prefix is checked on the way, "
                      "so all histories of length <= 4 are covered) x index pre-sized {no, 3}: gaps, reversed "
                      "order, repeated ids; texts ASCII / multi-byte / with blanks",
        "multiwriter": "2 writer processes + 1 reader process + the parent as observer, stores forced into a total "
                       "order by pipes: all orders of 3 distinct ids out of {0,1,2,4} with all 8 assignments to the "
                       "writers for 4 of them, a covering rotation for the rest (48), + repeated id",
        "concurrent": "3 configurations of free-running writers (2..3) and readers (1..2), 150..400 ids each, "
                      "shuffled / interleaved id assignment; 2 configurations of two writers racing for the same "
                      "ids",
        "forced_gap": "reader thread / reader process x ids [0], [3, 1, 0], pre-sized or not (8)",
        "flush": "flush after every sequential history; one scenario storing again after flush()",
    },
    "thorough": {
        "sequential": "exactly 5 stores over ids 0..4 (3125) x pre-sized {no, 3}",
        "multiwriter": "all orders of 3 ids out of {0,1,2,4} x all 8 assignments (192) + 4 ids (sample of 200)",
        "concurrent": "10 configurations up to 4 writers x 3 readers x 1500 ids",
        "forced_gap": "as quick with 6 id lists",
        "flush": "as quick",
    },
}

RULE = ("kind=seq: one case per (pre-size, id history); after EVERY store: ValueError exactly for an id already "
        "stored (and nothing changed), len, is_contiguous, every id in 0..6 read back (text or IndexError), "
        "iteration = texts in id order skipping gaps; afterwards close + flush: no file, len 0, nothing listed. "
        "kind=multiwriter: the same observables after every store, seen by the parent and by a separate reader "
        "process. kind=concurrent / concurrent_dup / forced_gap: one case per configuration. Trivial: empty "
        "history.")

TEXTS = ["t%d-%d", "é%d %d", " lead %d,%d", "%d\t%d trail "]


def text_for(k, g):
    return TEXTS[(k + g) % len(TEXTS)] % (k, g)


def conc_text(g, tag=""):
    # every 53rd text is longer than the io buffer (a partially written line would be visible)
    return "text-%d-%s" % (g, tag) + "x" * (g % 17) + ("é" if g % 5 == 0 else "") + (
        "L" * (9000 + g) if g % 53 == 7 else "")


def cases(tier, seed):
    quick = tier != "thorough"
    # regression scenarios of §7 F9 first
    for variant, ids, presize in itertools.product(("thread", "process"), ([0], [3, 1, 0]), (None, 4)):
        yield {"kind": "forced_gap", "reader": variant, "ids": ids, "presize": presize}
    if not quick:
        for variant, ids in itertools.product(("thread", "process"), ([5], [0, 1, 2, 3], [2, 2], [4, 0])):
            yield {"kind": "forced_gap", "reader": variant, "ids": ids, "presize": None}
    yield {"kind": "seq", "presize": None, "ids": [5, 2]}
    yield {"kind": "flush_reuse", "ids": [2, 0]}
    # one writer object used in several `with` sessions (closed and re-opened), observed inside and between the sessions
    for sessions in ([[0, 1], [2]], [[1], [0], [2]], [[2, 0], [1, 3]], [[0], []], [[], [0, 1]]):
        for presize in (None, 4):
            yield {"kind": "sessions", "sessions": sessions, "presize": presize}
    n = 4 if quick else 5
    for presize in (None, 3):
        for ids in itertools.product(range(5), repeat=n):
            yield {"kind": "seq", "presize": presize, "ids": list(ids)}
    # multi-writer, totally ordered
    k = 0
    for ids in itertools.permutations([0, 1, 2, 4], 3):
        assigns = list(itertools.product((0, 1), repeat=3))
        if quick and k % 6 != 0:
            assigns = [assigns[(k * 3) % 8]]
        k += 1
        for a in assigns:
            yield {"kind": "multiwriter", "presize": None if k % 2 else 3, "steps": [[w, g] for w, g in zip(a, ids)]}
    yield {"kind": "multiwriter", "presize": None, "steps": [[0, 1], [1, 1], [1, 0], [0, 0]]}
    # free running
    if quick:
        confs = [(3, 2, 400, 0), (2, 1, 150, 1), (3, 2, 300, 2)]
    else:
        confs = [(3, 2, 400, 0), (2, 1, 150, 1), (3, 2, 300, 2), (4, 3, 1500, 3), (4, 2, 1000, 4), (1, 3, 800, 5),
                 (2, 2, 1200, 6), (3, 1, 900, 7), (4, 3, 600, 8), (2, 3, 1000, 9)]
    for nw, nr, per, sd in confs:
        yield {"kind": "concurrent", "writers": nw, "readers": nr, "per_writer": per, "seed": sd + seed,
               "presize": None if sd % 2 == 0 else nw * per}
    for n_ids in ((60, 200) if quick else (60, 200, 600)):
        yield {"kind": "concurrent_dup", "ids": n_ids, "readers": 1}
    rng = random.Random(seed)
    for _ in range(20 if quick else 300):
        yield {"kind": "seq", "presize": rng.choice([None, 2, 6]),
               "ids": [rng.randrange(7) for _ in range(rng.randint(5, 7))]}
    if not quick:
        for _ in range(200):
            ids = rng.sample(range(6), 4)
            yield {"kind": "multiwriter", "presize": rng.choice([None, 3]),
                   "steps": [[rng.randrange(2), g] for g in ids]}


def _fail(scenario, expected, observed):
    return {"ok": False, "trivial": False, "scenario": scenario, "expected": PU._short(expected),
            "observed": PU._short(observed)}


def _observe(s, upto=7):
    """everything the statement talks about, as a plain dict"""
    reads = {}
    for q in range(upto):
        v, e = U.call(lambda: s[q])
        reads[q] = v if e is None else e
    return {"len": len(s), "contiguous": s.is_contiguous(), "reads": reads, "iter": list(s)}


def _expected(ref, upto=7):
    return {"len": len(ref), "contiguous": sorted(ref) == list(range(len(ref))),
            "reads": {q: ref.get(q, "IndexError") for q in range(upto)}, "iter": [ref[g] for g in sorted(ref)]}


def _diff(exp, obs):
    for key in ("len", "contiguous", "reads", "iter"):
        if exp[key] != obs[key]:
            return key
    return None


# ---------------------------------------------------------------------------------------------------------------

def _body_seq(case):
    from windpyutils.parallel.storage import TextFileStorage
    with U.Scratch(kill_children=True) as sc:
        s = TextFileStorage(sc.d, number_of_data=case["presize"])
        ref = {}
        with s:
            for k, g in enumerate(case["ids"]):
                txt = text_for(k, g)
                _, e = U.call(lambda: s.__setitem__(g, txt))
                exp_e = "ValueError" if g in ref else None
                if e != exp_e:
                    return _fail("storage/double-store", {"step": k, "id": g, "exception": exp_e}, e)
                if exp_e is None:
                    ref[g] = txt
                exp, obs = _expected(ref), _observe(s)
                bad = _diff(exp, obs)
                if bad:
                    return _fail("storage/" + {"reads": "read", "iter": "iteration-with-gaps" if not exp[
                        "contiguous"] else "iteration"}.get(bad, bad), {"step": k, bad: exp[bad]}, {bad: obs[bad]})
        s.flush()
        left = os.listdir(sc.d)
        obs = _observe(s)
        if left or _diff(_expected({}), obs):
            return _fail("storage/flush", {"files": [], "state": _expected({})}, {"files": left, "state": obs})
    return {"ok": True, "trivial": not case["ids"], "scenario": "storage/sequential", "expected": None,
            "observed": None}


def _body_sessions(case):
    from windpyutils.parallel.storage import TextFileStorage
    with U.Scratch(kill_children=True) as sc:
        s = TextFileStorage(sc.d, number_of_data=case["presize"])
        ref, k = {}, 0
        for si, ids in enumerate(case["sessions"]):
            with s:
                for g in ids:
                    txt = text_for(k, g) + " session %d" % si
                    k += 1
                    s[g] = txt
                    ref[g] = txt
                    exp, obs = _expected(ref), _observe(s)
                    bad = _diff(exp, obs)
                    if bad:
                        return _fail("storage/reopened-writer", {"session": si, "after-store": g, bad: exp[bad]}, {bad: obs[bad]})
            exp, obs = _expected(ref), _observe(s)       # closed: still readable
            bad = _diff(exp, obs)
            if bad:
                return _fail("storage/reopened-writer", {"after-session": si, bad: exp[bad]}, {bad: obs[bad]})
            s.close()
        s.flush()
        if os.listdir(sc.d):
            return _fail("storage/flush", [], os.listdir(sc.d))
    return {"ok": True, "trivial": not ref, "scenario": "storage/reopened-writer", "expected": None, "observed": None}


def _body_flush_reuse(case):
    from windpyutils.parallel.storage import TextFileStorage
    with U.Scratch(kill_children=True) as sc:
        s = TextFileStorage(sc.d)
        with s:
            for k, g in enumerate(case["ids"]):
                s[g] = text_for(k, g)
        s.flush()
        ref = {}
        try:
            with s:
                for k, g in enumerate(reversed(case["ids"])):
                    s[g] = text_for(k + 10, g)
                    ref[g] = text_for(k + 10, g)
                obs = _observe(s)
        except Exception as ex:  # noqa
            return _fail("storage/flush-then-store", "a flushed storage is reset: it accepts stores again",
                         "%s: %s" % (type(ex).__name__, ex))
        if _diff(_expected(ref), obs):
            return _fail("storage/flush-then-store", _expected(ref), obs)
        s.flush()
        if os.listdir(sc.d):
            return _fail("storage/flush", [], os.listdir(sc.d))
    return {"ok": True, "trivial": False, "scenario": "storage/flush-then-store", "expected": None, "observed": None}


# ---------------------------------------------------------------------------------------------------------------

def _mw_writer(s, conn):
    try:
        with s:
            while True:
                msg = conn.recv()
                if msg is None:
                    break
                g, txt = msg
                _, e = U.call(lambda: s.__setitem__(g, txt))
                conn.send(e)
    except EOFError:
        pass


def _mw_reader(s, conn):
    try:
        while True:
            msg = conn.recv()
            if msg is None:
                break
            obs = _observe(s)
            conn.send(obs)
        s.close()
    except EOFError:
        pass


def _body_multiwriter(case):
    import multiprocessing
    from windpyutils.parallel.storage import TextFileStorage
    with U.Scratch(kill_children=True) as sc:
        s = TextFileStorage(sc.d, number_of_data=case["presize"])
        nw = 1 + max(w for w, _ in case["steps"])
        wpipes, procs = [], []
        for _ in range(nw):
            a, b = multiprocessing.Pipe()
            p = multiprocessing.Process(target=_mw_writer, args=(s, b))
            p.start()
            wpipes.append(a)
            procs.append(p)
        ra, rb = multiprocessing.Pipe()
        rp = multiprocessing.Process(target=_mw_reader, args=(s, rb))
        rp.start()
        ref = {}
        try:
            for k, (w, g) in enumerate(case["steps"]):
                txt = text_for(k, g)
                wpipes[w].send((g, txt))
                if not wpipes[w].poll(15):
                    return _fail("storage/multiwriter-store-hangs", "an answer", "none within 15 s")
                e = wpipes[w].recv()
                exp_e = "ValueError" if g in ref else None
                if e != exp_e:
                    return _fail("storage/double-store", {"step": k, "writer": w, "id": g, "exception": exp_e}, e)
                if exp_e is None:
                    ref[g] = txt
                exp = _expected(ref)
                for who in ("parent", "reader-process"):
                    if who == "parent":
                        obs = _observe(s)
                    else:
                        ra.send("observe")
                        if not ra.poll(15):
                            return _fail("storage/multiwriter-read-hangs", "an answer", "none within 15 s")
                        obs = ra.recv()
                    bad = _diff(exp, obs)
                    if bad:
                        return _fail("storage/multiwriter-" + {"reads": "read", "iter": "iteration"}.get(bad, bad),
                                     {"step": k, "observer": who, bad: exp[bad]}, {bad: obs[bad]})
        finally:
            for c in wpipes + [ra]:
                try:
                    c.send(None)
                except Exception:  # noqa
                    pass
            for p in procs + [rp]:
                p.join(10)
        s.close()
        s.flush()
        if os.listdir(sc.d):
            return _fail("storage/flush", [], os.listdir(sc.d))
    return {"ok": True, "trivial": False, "scenario": "storage/multiwriter-ordered", "expected": None,
            "observed": None}


# ---------------------------------------------------------------------------------------------------------------

def _c_writer(s, ids, tag, barrier, out):
    won = []
    with s:
        barrier.wait(30)
        for g in ids:
            _, e = U.call(lambda: s.__setitem__(g, conc_text(g, tag)))
            if e is None:
                won.append(g)
            elif e != "ValueError":
                out.put(("writer-error", g, e))
    out.put(("won", tag, won))


def _c_reader(s, n_ids, tags, barrier, stop, out):
    bad = []
    reads = 0
    barrier.wait(30)
    while True:
        last_round = stop.is_set()
        for g in range(n_ids):
            v, e = U.call(lambda: s[g])
            reads += 1
            if e == "IndexError" and not last_round:
                continue  # (after the writers have finished every id must be readable)
            if e is not None or v not in [conc_text(g, t) for t in tags]:
                bad.append((g, v, e))
        if last_round or len(bad) > 20:
            break
    s.close()
    out.put(("reader", reads, bad[:5]))


def _run_concurrent(s, assignments, tags, n_ids, n_readers):
    """assignments: list of id lists, one per writer; -> (winners per tag, reader reports, errors)"""
    import multiprocessing
    nw = len(assignments)
    barrier = multiprocessing.Barrier(nw + n_readers)
    stop = multiprocessing.Event()
    out = multiprocessing.Queue()
    ws = [multiprocessing.Process(target=_c_writer, args=(s, assignments[i], tags[i], barrier, out)) for i in range(nw)]
    rs = [multiprocessing.Process(target=_c_reader, args=(s, n_ids, sorted(set(tags)), barrier, stop, out))
          for _ in range(n_readers)]
    for p in ws + rs:
        p.start()
    msgs = []
    got_w = 0
    while got_w < nw:
        m = out.get(timeout=60)
        msgs.append(m)
        if m[0] == "won":
            got_w += 1
    stop.set()
    while sum(1 for m in msgs if m[0] == "reader") < n_readers:
        msgs.append(out.get(timeout=60))
    for p in ws + rs:
        p.join(20)
    return msgs


def _body_concurrent(case):
    from windpyutils.parallel.storage import TextFileStorage
    nw, nr, per = case["writers"], case["readers"], case["per_writer"]
    with U.Scratch(kill_children=True) as sc:
        s = TextFileStorage(sc.d, number_of_data=case["presize"])
        ids = list(range(nw * per))
        random.Random(case["seed"]).shuffle(ids)
        msgs = _run_concurrent(s, [ids[i::nw] for i in range(nw)], [""] * nw, nw * per, nr)
        errs = [m for m in msgs if m[0] == "writer-error"]
        if errs:
            return _fail("storage/concurrent-store", "no exception", errs[:3])
        bad = [m[2] for m in msgs if m[0] == "reader" and m[2]]
        if bad:
            return _fail("storage/concurrent-read", "IndexError or exactly the stored text", bad[0])
        exp = [conc_text(g) for g in range(nw * per)]
        obs = {"len": len(s), "contiguous": s.is_contiguous(), "iter": list(s)}
        if obs != {"len": nw * per, "contiguous": True, "iter": exp}:
            return _fail("storage/concurrent-final", {"len": nw * per, "contiguous": True, "iter": exp[:5]},
                         {"len": obs["len"], "contiguous": obs["contiguous"], "iter": obs["iter"][:5]})
        s.close()
        s.flush()
        if os.listdir(sc.d):
            return _fail("storage/flush", [], os.listdir(sc.d))
    return {"ok": True, "trivial": False, "scenario": "storage/concurrent", "expected": None,
            "observed": {"reads": sum(m[1] for m in msgs if m[0] == "reader")}}


def _body_concurrent_dup(case):
    from windpyutils.parallel.storage import TextFileStorage
    n = case["ids"]
    with U.Scratch(kill_children=True) as sc:
        s = TextFileStorage(sc.d)
        a = list(range(n))
        b = list(range(n - 1, -1, -1))
        mid = a[n // 2:] + a[:n // 2]
        msgs = _run_concurrent(s, [a, b, mid], ["A", "B", "C"], n, case["readers"])
        errs = [m for m in msgs if m[0] == "writer-error"]
        if errs:
            return _fail("storage/concurrent-store", "no exception other than ValueError", errs[:3])
        bad = [m[2] for m in msgs if m[0] == "reader" and m[2]]
        if bad:
            return _fail("storage/concurrent-read", "IndexError or exactly a stored text", bad[0])
        winner = {}
        for m in msgs:
            if m[0] == "won":
                for g in m[2]:
                    winner.setdefault(g, []).append(m[1])
        multi = {g: w for g, w in winner.items() if len(w) != 1}
        if multi or len(winner) != n:
            return _fail("storage/double-store-concurrent", "exactly one successful store per id",
                         {"ids_with_winners": len(winner), "several": dict(list(multi.items())[:5])})
        exp = [conc_text(g, winner[g][0]) for g in range(n)]
        obs = list(s)
        if obs != exp or len(s) != n or [s[g] for g in range(n)] != exp:
            wrong = [(g, exp[g], obs[g] if g < len(obs) else None) for g in range(n) if g >= len(obs) or obs[g] != exp[g]]
            return _fail("storage/double-store-changed-something", "the text of the successful store", wrong[:3])
        s.close()
        s.flush()
    return {"ok": True, "trivial": False, "scenario": "storage/concurrent-double-store", "expected": None,
            "observed": None}


# ---------------------------------------------------------------------------------------------------------------

class _Gate:
    """file wrapper: the first write() of an armed gate calls the hook before anything is written"""

    def __init__(self, real):
        self._real = real
        self.hook = None

    def write(self, data):
        h, self.hook = self.hook, None
        if h is not None:
            h()
        return self._real.write(data)

    def __getattr__(self, name):
        return getattr(self._real, name)


def _gap_reader_process(s, go, out, ids):
    for g in ids:
        go.acquire()  # one permit per id
        v, e = U.call(lambda: s[g])
        out.put((g, v if e is None else e))
    s.close()


def _body_forced_gap(case):
    import multiprocessing
    from windpyutils.parallel.storage import TextFileStorage
    with U.Scratch(kill_children=True) as sc:
        s = TextFileStorage(sc.d, number_of_data=case["presize"])
        s.open()
        gate = _Gate(s._file)
        s._file = gate
        seen = []          # (id, what the concurrent reader got)
        in_gap = []        # answers that arrived while the writer was still inside the gate
        stored = {}
        rp = None
        if case["reader"] == "process":
            go = multiprocessing.Semaphore(0)
            out = multiprocessing.Queue()
            todo = [g for k, g in enumerate(case["ids"]) if g not in case["ids"][:k]]
            rp = multiprocessing.Process(target=_gap_reader_process, args=(s, go, out, todo))
            rp.start()
        for k, g in enumerate(case["ids"]):
            txt = text_for(k, g)
            if g in stored:
                _, e = U.call(lambda: s.__setitem__(g, txt))
                if e != "ValueError":
                    return _fail("storage/double-store", "ValueError", e)
                continue
            box = []
            if case["reader"] == "thread":
                th = threading.Thread(target=lambda: box.append(U.call(lambda: s[g])), daemon=True)

                def hook():
                    th.start()
                    th.join(0.5)
                    if box:
                        in_gap.append((g, box[0]))
            else:
                def hook():
                    go.release()
                    try:
                        box.append(out.get(timeout=0.5))
                        in_gap.append((g, box[0]))
                    except Exception:  # noqa  (queue.Empty: the reader is blocked on the lock - fine)
                        pass
            gate.hook = hook
            s[g] = txt
            stored[g] = txt
            if gate.hook is not None:
                return _fail("storage/forced-gap-harness", "the store writes through the storage's file", "no write")
            if case["reader"] == "thread":
                th.join(10)
                if not box:
                    return _fail("storage/read-during-store-hangs", "the reader returns", "no answer within 10 s")
                v, e = box[0]
                got = v if e is None else e
            else:
                if not box:
                    try:
                        box.append(out.get(timeout=10))
                    except Exception:  # noqa
                        return _fail("storage/read-during-store-hangs", "the reader returns", "no answer within 10 s")
                got = box[0][1]
            seen.append((g, got))
            if got != txt and got != "IndexError":
                return _fail("storage/read-during-store",
                             {"id": g, "allowed": ["IndexError", txt]},
                             {"id": g, "reader_%s_got" % case["reader"]: got, "answered_inside_the_gap": bool(in_gap)})
        if rp is not None:
            rp.join(10)
        exp, obs = _expected(stored), _observe(s)
        bad = _diff(exp, obs)
        if bad:
            return _fail("storage/" + {"reads": "read", "iter": "iteration-with-gaps" if not exp[
                "contiguous"] else "iteration"}.get(bad, bad), {"after": "forced-gap stores", bad: exp[bad]},
                         {bad: obs[bad]})
        s.close()
        s.flush()
    return {"ok": True, "trivial": False, "scenario": "storage/read-during-store", "expected": None,
            "observed": {"reader_saw": seen, "answers_inside_gap": len(in_gap)}}


def run_case(case):
    bodies = {"seq": _body_seq, "sessions": _body_sessions, "flush_reuse": _body_flush_reuse, "multiwriter": _body_multiwriter,
              "concurrent": _body_concurrent, "concurrent_dup": _body_concurrent_dup, "forced_gap": _body_forced_gap}
    kind = case.get("kind")
    if kind not in bodies:
        raise ValueError("unknown kind %r" % (kind,))
    return PU.guarded(lambda: bodies[kind](case), BODY_TIMEOUT_S, "storage/" + kind)
