"""
C11 - line files: indexing, slicing and iteration return exactly the file's lines (bounded layer).

Reference model: ``content.split("\\n")`` with the empty tail after a final "\\n" dropped (statement of C11),
byte offsets of the line starts computed from the UTF-8 encoding. Never calls into the library.
"""
import itertools
import os
import random
import sys

sys.path.insert(0, os.path.dirname(os.path.abspath(__file__)))
import _files_util as U  # noqa: E402

ALPHABET = ["a", "é", "\n", "\r"]

BOUNDS = {
    "quick": {
        "contents": "all strings of length <= 5 over {a, é, \\n, \\r} (1365) for the 4 plain and the 4 record classes "
                    "(trivial Record subclass); + 6 long-line contents (lines of 70 000 / 40 000 chars, "
                    "beyond the 8 KiB io buffer); empty file for the buffered classes only",
        "index_sources": ["built", "list", "index_file", "reversed", "odd_subset", "last_first", "rotated"],
        "selectors": "every int in [-n-1, n], 12 slices, 6 index iterables",
        "schedules": "all interleavings of length <= 4 over {A: next(it1), B: next(it2), R0: f[0], R-1: f[-1]} "
                     "(341) followed by draining both iterators, x 6 contents x 4 plain classes x {built, "
                     "reversed} index",
        "random": "200 random contents of length 6..12, 200 random schedules of length 5..8 with reads at "
                  "random positions",
    },
    "thorough": {
        "contents": "length <= 6 (5461) for the plain and the record classes; long lines; "
                    "empty file",
        "index_sources": ["built", "list", "index_file", "reversed", "odd_subset", "last_first", "rotated"],
        "selectors": "as quick",
        "schedules": "length <= 5 over {A, B, R0, R-1, R1} (3906) x 8 contents x 4 plain + 2 record classes x "
                     "{built, reversed}",
        "random": "2000 random contents of length 7..14, 2000 random schedules",
    },
}

RULE = ("kind=content: one case per (file content, class); the case opens the file once per index source (built "
        "/ list of offsets / index file / caller-supplied subsets and permutations) and checks len, every int "
        "index incl. negative and out of range, slices, index iterables, iteration (twice). kind=schedule: one "
        "case per (content, class, index source, interleaving of next() on two iterators and random reads on "
        "ONE open object). Two cases are distinct when their JSON differs; a case is trivial when the file has "
        "no line. Empty files only for buffered variants (the OS cannot map an empty file).")

SCHEDULE_CONTENTS = ["a\nb\nc\n", "é\n\na\r\nlast", "a\r\rb\n\r\né\n", "\n\n\n", "x\n", "aé\nb\ra\n\nc\nd\n"]
SCHEDULE_CONTENTS_THOROUGH = SCHEDULE_CONTENTS + ["a", "é\r\né\r\né\r\né\r\n"]

LONG_SPECS = [
    # (list of [char, repeat]) lines, terminated?
    {"lines": [["x", 70000], ["y", 9000]], "terminated": False},
    {"lines": [["é", 40000], ["", 0], ["a", 3]], "terminated": True},
    {"lines": [["a", 3], ["x", 70000]], "terminated": True},
    {"lines": [["x", 8191], ["y", 8192], ["z", 8193]], "terminated": True},
    {"lines": [["\r", 70000], ["b", 1]], "terminated": False},
    {"lines": [["é", 4096], ["é", 4097], ["", 0], ["x", 70000], ["q", 1]], "terminated": False},
]

SLICES = [[None, None, None], [None, None, -1], [1, None, None], [None, -1, None], [None, None, 2], [1, None, 2],
          [-2, None, None], [5, 2, None], [0, 2, None], [2, 0, -1], [-100, 100, None], [None, None, -2]]


def long_content(spec):
    s = "\n".join(c * k for c, k in spec["lines"])
    return s + ("\n" if spec["terminated"] else "")


def case_content(case):
    if "long" in case:
        return long_content(LONG_SPECS[case["long"]])
    return case["content"]


def _schedules(alpha, max_len):
    for n in range(0, max_len + 1):
        for tup in itertools.product(alpha, repeat=n):
            yield list(tup)


def cases(tier, seed):
    quick = tier != "thorough"
    plain_len, rec_len = (5, 5) if quick else (6, 6)
    # exhaustive core ----------------------------------------------------------------------------------------
    for content in U.strings_upto(ALPHABET, plain_len):
        for cls in U.PLAIN_CLASSES:
            if content == "" and U.is_mmap(cls):
                continue
            yield {"kind": "content", "cls": cls, "content": content}
        if len(content) <= rec_len:
            for cls in U.RECORD_CLASSES:
                if content == "" and U.is_mmap(cls):
                    continue
                yield {"kind": "content", "cls": cls, "content": content}
    for i in range(len(LONG_SPECS)):
        for cls in U.PLAIN_CLASSES + U.RECORD_CLASSES:
            yield {"kind": "content", "cls": cls, "long": i}
    # the SAME path read again after it was rewritten (same byte size, other line boundaries; other size): each object describes the
    # file as it is when the object is created - nothing about an earlier file under that path may be remembered
    for cls in U.PLAIN_CLASSES:
        for hist in (["alpha\nbeta\n\n", "al\npha\nbeta\n", "alphabetagam"], ["a\nb\n", "ab\n\n", "\n\nab"], ["x\ny\nz\n", "x\ny\n", "x\ny\nz\n"],
                     ["one\ntwo\n", "on\ne\ntwo", "one\ntwo\n"]):
            yield {"kind": "rewrite", "cls": cls, "history": hist}
    # regression scenarios of DESIGN §7 F8 (explicit, also covered by the enumeration)
    for cls in U.PLAIN_CLASSES:
        yield {"kind": "content", "cls": cls, "content": "a\rb\nčř\n\nlast"}
        yield {"kind": "schedule", "cls": cls, "content": "l0\nl1\nl2\nl3\n", "source": "built",
               "schedule": ["A", "R-1", "A", "A", "A"]}
        yield {"kind": "schedule", "cls": cls, "content": "l0\nl1\nl2\nl3\n", "source": "built",
               "schedule": ["A", "B", "A", "B"]}
        yield {"kind": "schedule", "cls": cls, "content": "l0\nl1\nl2\nl3\n", "source": "last_first",
               "schedule": ["A", "A"]}
    # sessions: close + reopen the same object (X) between reads - a read after the reopen must not depend on where the previous
    # session's handle stood
    for cls in U.PLAIN_CLASSES + U.RECORD_CLASSES:
        for sch in (["R0", "X", "R1"], ["R1", "X", "R2"], ["R0", "R1", "X", "R2", "R3"], ["A", "X", "R1"], ["A", "A", "X", "R2", "A"],
                    ["R-1", "X", "R0"], ["R2", "X", "R3", "X", "R0", "R1"]):
            yield {"kind": "schedule", "cls": cls, "content": "l0\nl1\nl2\nl3\n", "source": "built", "schedule": sch}
    if quick:
        alpha, slen, contents, classes = ["A", "B", "R0", "R-1"], 4, SCHEDULE_CONTENTS, U.PLAIN_CLASSES
    else:
        alpha, slen, contents = ["A", "B", "R0", "R-1", "R1"], 5, SCHEDULE_CONTENTS_THOROUGH
        classes = U.PLAIN_CLASSES + ["RecordFile", "MutableMemoryMappedRecordFile"]
    for content in contents:
        for cls in classes:
            for source in ("built", "reversed"):
                for sch in _schedules(alpha, slen):
                    yield {"kind": "schedule", "cls": cls, "content": content, "source": source, "schedule": sch}
    # long lines under interleaving
    for cls in U.PLAIN_CLASSES:
        for sch in (["A", "R-1", "A", "B", "R0", "B"], ["R0", "A", "B", "A", "R1", "B"]):
            yield {"kind": "schedule", "cls": cls, "long": 5, "source": "built", "schedule": sch}
    # random sample -------------------------------------------------------------------------------------------
    rng = random.Random(seed)
    n_rand = 200 if quick else 2000
    all_classes = U.PLAIN_CLASSES + U.RECORD_CLASSES
    for _ in range(n_rand):
        lo, hi = (6, 12) if quick else (7, 14)
        content = "".join(rng.choice(ALPHABET + ["\n"]) for _ in range(rng.randint(lo, hi)))
        yield {"kind": "content", "cls": rng.choice(all_classes), "content": content}
    for _ in range(n_rand):
        content = "".join(rng.choice(ALPHABET + ["\n", "\n"]) for _ in range(rng.randint(4, 12)))
        if content == "":
            content = "a"
        n = len(U.ref_lines(content))
        sch = [rng.choice(["A", "A", "B", "R%d" % rng.randint(-n, max(n - 1, 0))]) for _ in range(rng.randint(5, 8))]
        yield {"kind": "schedule", "cls": rng.choice(all_classes), "content": content,
               "source": rng.choice(["built", "reversed", "list", "index_file", "rotated", "odd_subset"]),
               "schedule": sch}


# ---------------------------------------------------------------------------------------------------------------

def _selection(source, n):
    """line numbers selected by a caller-supplied index, None = the whole file in order"""
    if source in ("built", "list", "index_file"):
        return list(range(n))
    if source == "reversed":
        return list(range(n - 1, -1, -1))
    if source == "odd_subset":
        return list(range(1, n, 2))
    if source == "last_first":
        return [n - 1, 0] if n >= 2 else None
    if source == "rotated":
        return list(range(1, n)) + [0] if n >= 2 else None
    raise ValueError(source)


def _make(sc, cls, path, content, source):
    """-> (file object (not opened), expected lines) or None when the source is not applicable"""
    lines = U.ref_lines(content)
    offs = U.ref_offsets(content)
    sel = _selection(source, len(lines))
    if sel is None:
        return None
    if source == "built":
        index = None
    elif source == "index_file":
        index = sc.path("index_" + source)
        with open(index, "w") as f:
            f.write("".join("%d\n" % offs[j] for j in sel))
    else:
        index = [offs[j] for j in sel]
    return U.open_line_file(cls, path, index), [lines[j] for j in sel]


def _fail(scenario, case, expected, observed):
    return {"ok": False, "trivial": False, "scenario": scenario, "expected": U.short(expected),
            "observed": U.short(observed)}


def _check_open_object(cls, f, exp):
    """all single-object checks; returns (scenario, expected, observed) of the first difference or None"""
    n = len(exp)
    got = len(f)
    if got != n:
        return "lines/len", n, got
    for i in range(-n, n):
        v, e = U.call(lambda: U.unwrap(cls, f[i]))
        if e is not None or v != exp[i]:
            return "lines/index", (i, exp[i]), (i, v, e)
    for i in (n, -n - 1):
        v, e = U.call(lambda: f[i])
        if e != "IndexError":
            return "lines/index-out-of-range", (i, "IndexError"), (i, v, e)
    v, e = U.call(lambda: U.unwrap(cls, list(f)))
    if e is not None or v != exp:
        return "lines/iter", exp, (v, e)
    for a, b, c in SLICES:
        sl = slice(a, b, c)
        v, e = U.call(lambda: U.unwrap(cls, f[sl]))
        if e is not None or v != exp[sl]:
            return "lines/slice", ([a, b, c], exp[sl]), ([a, b, c], v, e)
    if n:
        iterables = [[n - 1, 0], (0, 0, n - 1), range(n), [-1, 0], [], (j for j in range(n - 1, -1, -1))]
        expected = [[exp[n - 1], exp[0]], [exp[0], exp[0], exp[n - 1]], list(exp), [exp[-1], exp[0]], [], exp[::-1]]
        for it, ex in zip(iterables, expected):
            v, e = U.call(lambda: U.unwrap(cls, f[it]))
            if e is not None or v != ex:
                return "lines/iterable-selector", ex, (v, e)
    # iteration after random access, second full iteration
    v, e = U.call(lambda: U.unwrap(cls, [x for x in f]))
    if e is not None or v != exp:
        return "lines/iter-again", exp, (v, e)
    return None


def _run_content(case):
    cls = case["cls"]
    content = case_content(case)
    lines = U.ref_lines(content)
    with U.Scratch() as sc:
        path = sc.write("src.txt", content.encode("utf-8"))
        for source in BOUNDS["quick"]["index_sources"]:
            made = _make(sc, cls, path, content, source)
            if made is None:
                continue
            f, exp = made
            if len(exp) == 0 and source != "built":
                continue
            try:
                with f:
                    bad = _check_open_object(cls, f, exp)
            except Exception as ex:  # noqa
                bad = ("lines/exception", "no exception", "%s: %s" % (type(ex).__name__, ex))
            if bad is not None:
                sc_name = bad[0] if source in ("built",) else bad[0] + "@" + (
                    "index-list" if source == "list" else "index-file" if source == "index_file" else "custom-index")
                return _fail(sc_name, case, {"source": source, "expected": bad[1]}, {"observed": bad[2]})
    return {"ok": True, "trivial": len(lines) == 0, "scenario": "lines/content", "expected": None, "observed": None}


def _run_schedule(case):
    cls = case["cls"]
    content = case_content(case)
    with U.Scratch() as sc:
        path = sc.write("src.txt", content.encode("utf-8"))
        made = _make(sc, cls, path, content, case["source"])
        if made is None:
            return {"ok": True, "trivial": True, "scenario": "lines/interleave", "expected": None, "observed": None}
        f, exp = made
        n = len(exp)
        its = {}
        outs = {"A": [], "B": []}
        trace = []
        try:
            with f:
                for step in case["schedule"]:
                    if step == "X":
                        # close and reopen the same object; iterators do not span a session, random reads do
                        f.close()
                        f.open()
                        its.clear()
                        outs = {"A": [], "B": []}
                        trace.append(("X",))
                        continue
                    if step in ("A", "B"):
                        if step not in its:
                            its[step] = iter(f)
                        try:
                            outs[step].append(U.unwrap(cls, next(its[step])))
                        except StopIteration:
                            pass
                        trace.append((step, outs[step][-1] if outs[step] else None))
                    else:
                        i = int(step[1:])
                        v, e = U.call(lambda: U.unwrap(cls, f[i]))
                        trace.append((step, v, e))
                        if -n <= i < n:
                            if e is not None or v != exp[i]:
                                return _fail("lines/interleave-read", case, (step, exp[i]), trace)
                        elif e != "IndexError":
                            return _fail("lines/interleave-read", case, (step, "IndexError"), trace)
                # drain the iterators (budgeted: at most n + 1 further steps each)
                for name in ("A", "B"):
                    if name in its:
                        for _ in range(n + 2):
                            try:
                                outs[name].append(U.unwrap(cls, next(its[name])))
                            except StopIteration:
                                break
                        else:
                            return _fail("lines/interleave-iter", case, exp, ("iterator does not end", outs[name]))
                for name in ("A", "B"):
                    if name in its and outs[name] != exp:
                        return _fail("lines/interleave-iter", case, {name: exp}, {name: outs[name], "trace": trace})
        except Exception as ex:  # noqa
            return _fail("lines/exception", case, "no exception", "%s: %s" % (type(ex).__name__, ex))
    return {"ok": True, "trivial": n == 0, "scenario": "lines/interleave", "expected": None, "observed": None}


def _run_rewrite(case):
    cls = case["cls"]
    with U.Scratch() as sc:
        for step, content in enumerate(case["history"]):
            if content == "" and U.is_mmap(cls):
                continue
            path = sc.write("same.txt", content.encode("utf-8"))
            exp = U.ref_lines(content)
            try:
                with U.open_line_file(cls, path, None) as f:
                    bad = _check_open_object(cls, f, exp)
            except Exception as ex:  # noqa
                bad = ("lines/exception", "no exception", "%s: %s" % (type(ex).__name__, ex))
            if bad is not None:
                return _fail("lines/same-path-rewritten", case, {"step": step, "content": content, "expected": bad[1]},
                             {"check": bad[0], "observed": bad[2]})
    return {"ok": True, "trivial": False, "scenario": "lines/same-path-rewritten", "expected": None, "observed": None}


def run_case(case):
    if case["kind"] == "rewrite":
        return _run_rewrite(case)
    if case["kind"] == "content":
        return _run_content(case)
    if case["kind"] == "schedule":
        return _run_schedule(case)
    raise ValueError("unknown kind %r" % (case.get("kind"),))
