"""C08 - DoublyLinkedList behaves as a sequence and keeps its links and length consistent.

Reference model: a plain Python list of the node objects (identity only, never `==` on nodes - they are
dataclasses compared by value). After every operation: forward walk, backward walk, len(), head/tail,
every prev/next link, list(l) payloads.
"""
import random
from _util import at, ok, Fail, check, call

from windpyutils.structures.lists import DoublyLinkedList

GROW = ("append", "prepend", "extend", "pre_extend")     # extend / pre_extend add two elements
OPS = list(GROW) + ["pop_back", "pop_front", "rotate(True)", "rotate(False)", "remove(i)", "move_to_front(i)",
                    "move_to_back(i)", "move_after(i,j)"]
PAYLOADS = ["equal (distinct objects comparing equal): all lengths", "distinct: all but the longest length"]
BOUNDS = {
    "quick": {
        "other_list": "extend() with / construction from ANOTHER DoublyLinkedList (0..2 own x 0..2 foreign nodes), then appends / removals on either list: both stay independent", "families": [{"initial_size": 0, "history_len": 5, "max_nodes": 4}, {"initial_size": 3, "history_len": 4, "max_nodes": 4}],
              "ops": OPS, "payloads": PAYLOADS, "long_runs": {"n": [3000], "payload": "all equal", "single_ops": 17, "combined": 1},
              "random": {"count": 2000, "len": "10..60", "max_nodes": 12, "payloads": "equal/distinct/two-valued"}},
    "thorough": {
        "other_list": "extend() with / construction from ANOTHER DoublyLinkedList (0..2 own x 0..2 foreign nodes), then appends / removals on either list: both stay independent", "families": [{"initial_size": 0, "history_len": 6, "max_nodes": 3}, {"initial_size": 0, "history_len": 5, "max_nodes": 5},
                              {"initial_size": 2, "history_len": 5, "max_nodes": 4}, {"initial_size": 3, "history_len": 4, "max_nodes": 5},
                              {"initial_size": 4, "history_len": 4, "max_nodes": 4}],
                 "ops": OPS, "payloads": PAYLOADS, "long_runs": {"n": [3000, 20000], "payload": "all equal", "single_ops": 17, "combined": 1},
                 "random": {"count": 40000, "len": "10..80", "max_nodes": 12, "payloads": "equal/distinct/two-valued"}},
}
RULE = ("All operation sequences up to the stated length, shortest first, starting from DoublyLinkedList(data) with "
        "the stated initial size (one family per (initial size, length, max_nodes)); node arguments range over ALL positions of the current list (move_after over all "
        "ordered pairs incl. node is after); growth beyond max_nodes is not enumerated; pops on the empty list must "
        "raise IndexError; every history is run with all-equal payloads (fresh objects comparing equal) and, except for the longest length, with all-distinct payloads. Long runs: one "
        "operation on a list of n equal payloads (structural equality / recursion depth). Then a seeded random "
        "sample of longer histories. Non-trivial = the list is non-empty at some point; distinct = canonical JSON.")


def _ops_for(n, max_nodes):
    if n + 1 <= max_nodes:
        yield ["append"]
        yield ["prepend"]
    if n + 2 <= max_nodes:
        yield ["extend"]
        yield ["pre_extend"]
    yield ["pop_back"]
    yield ["pop_front"]
    yield ["rotate", True]
    yield ["rotate", False]
    for i in range(n):
        yield ["remove", i]
        yield ["mtf", i]
        yield ["mtb", i]
        for j in range(n):
            yield ["mafter", i, j]


def _size_after(n, op):
    k = op[0]
    if k in ("append", "prepend"):
        return n + 1
    if k in ("extend", "pre_extend"):
        return n + 2
    if k in ("pop_back", "pop_front", "remove"):
        return max(n - 1, 0)
    return n


def _histories(n0, length, max_nodes):
    def rec(prefix, n, left):
        if not left:
            yield list(prefix)
            return
        for op in _ops_for(n, max_nodes):
            prefix.append(op)
            yield from rec(prefix, _size_after(n, op), left - 1)
            prefix.pop()
    for L in range(1, length + 1):
        yield from rec([], n0, L)


LONG_OPS = [["mafter", 2500, 2400], ["mafter", 2400, 2500], ["mafter", 0, -1], ["mafter", -1, 0], ["mafter", 1, 1],
            ["mafter", 1500, 1499], ["mtf", -1], ["mtf", 1500], ["mtb", 0], ["mtb", 1500], ["rotate", True],
            ["rotate", False], ["remove", 1500], ["pop_back"], ["pop_front"], ["append"], ["prepend"]]


def cases(tier, seed):
    b = BOUNDS[tier]
    for fam in b["families"]:
        n0, full = fam["initial_size"], fam["history_len"]
        for ops in _histories(n0, full, fam["max_nodes"]):
            yield {"kind": "history", "init": n0, "payloads": "equal", "ops": ops}
            if len(ops) < full:
                yield {"kind": "history", "init": n0, "payloads": "distinct", "ops": ops}
    for n in b["long_runs"]["n"]:
        for op in LONG_OPS:
            yield {"kind": "long-run", "init": n, "payloads": "equal", "ops": [op]}
        yield {"kind": "long-run", "init": n, "payloads": "equal", "ops": [list(o) for o in LONG_OPS]}
    for how in ("extend", "construct"):
        for na in ((0, 2) if how == "extend" else (0,)):
            for nb in (0, 1, 2):
                for then in (["b.append"], ["a.append", "b.append"], ["b.pop_front", "a.append"], ["a.pop_back", "b.append"]):
                    yield {"kind": "other-list", "how": how, "na": na, "nb": nb, "then": then}
    rng = random.Random(seed)
    for _ in range(b["random"]["count"]):
        n, ops = rng.randint(0, 6), []
        n0 = n
        for _ in range(rng.randint(10, 60 if tier == "quick" else 80)):
            op = rng.choice(list(_ops_for(n, 12)))
            ops.append(op)
            n = _size_after(n, op)
        yield {"kind": "history", "init": n0, "payloads": rng.choice(["equal", "distinct", "two-valued"]), "ops": ops}


# ---------------------------------------------------------------------------------------------------------------
def _payload(mode, c):
    if mode == "equal":
        return [0]                 # a fresh object each time, all comparing equal
    if mode == "two-valued":
        return [c % 2]
    return [c]


def _ids(nodes):
    return [id(x) for x in nodes]


def _verify(l, ref, names, after, tag="dll"):
    """Full structural comparison of the real list with the reference sequence of node objects."""
    def lab(nodes):
        out = [names.get(id(x), "?") for x in nodes]
        return out if len(out) <= 16 else out[:8] + ["..."] + out[-8:] + [f"({len(out)} nodes)"]
    at(f"{tag}/forward-walk")
    lim = len(ref) + 2
    fw, x = [], l.head
    while x is not None and len(fw) < lim:
        fw.append(x)
        x = x.next_node
    if _ids(fw) != _ids(ref):
        raise Fail(f"{tag}/forward-walk", lab(ref), {"after": after, "walk": lab(fw)})
    bw, x = [], l.tail
    while x is not None and len(bw) < lim:
        bw.append(x)
        x = x.prev_node
    if _ids(bw) != _ids(ref[::-1]):
        raise Fail(f"{tag}/backward-walk", lab(ref[::-1]), {"after": after, "walk": lab(bw)})
    n = call(f"{tag}/len", len, l)[1]
    if n != len(ref):
        raise Fail(f"{tag}/len", len(ref), {"after": after, "len": n})
    if l.head is not (ref[0] if ref else None) or l.tail is not (ref[-1] if ref else None):
        raise Fail(f"{tag}/head-tail", "head/tail = first/last node or None", {"after": after})
    prev = None
    for i, nd in enumerate(ref):
        if nd.prev_node is not prev or nd.next_node is not (ref[i + 1] if i + 1 < len(ref) else None):
            raise Fail(f"{tag}/links", "prev/next of every node match the sequence", {"after": after, "position": i})
        prev = nd
    # public iteration: iter_nodes() and payloads
    at(f"{tag}/iteration")
    got = []
    for x in l.iter_nodes():
        got.append(x)
        if len(got) > len(ref):
            break
    if _ids(got) != _ids(ref):
        raise Fail(f"{tag}/iteration", lab(ref), {"after": after, "iter_nodes": lab(got)})
    data = []
    for d in l:
        data.append(d)
        if len(data) > len(ref):
            break
    if len(data) != len(ref) or not all(a is b.data for a, b in zip(data, ref)):
        raise Fail(f"{tag}/iteration", "list(l) = payloads of the sequence", {"after": after, "n": len(data)})


def _walk(l, limit):
    fw, x = [], l.head
    while x is not None and len(fw) <= limit:
        fw.append(x.data)
        x = x.next_node
    bw, x = [], l.tail
    while x is not None and len(bw) <= limit:
        bw.append(x.data)
        x = x.prev_node
    return fw, bw[::-1]


def _run_other_list(case):
    """a list extended with / constructed from ANOTHER DoublyLinkedList must not share nodes with it: later changes of either list stay local"""
    try:
        a_items, b_items = list(range(case["na"])), list(range(100, 100 + case["nb"]))
        b = DoublyLinkedList(list(b_items)) if b_items else DoublyLinkedList()
        if case["how"] == "extend":
            a = DoublyLinkedList(list(a_items)) if a_items else DoublyLinkedList()
            call("dll/other-list/extend", a.extend, b)
        else:
            a = call("dll/other-list/construct", DoublyLinkedList, b)[1]
            a_items = []
        exp_a, exp_b = a_items + b_items, list(b_items)
        for step in case["then"]:
            if step == "b.append":
                b.append(555); exp_b.append(555)
            elif step == "a.append":
                a.append(777); exp_a.append(777)
            elif step == "b.pop_front" and exp_b:
                b.remove(b.head); exp_b.pop(0)
            elif step == "a.pop_back" and exp_a:
                a.remove(a.tail); exp_a.pop()
            for nm, l, exp in (("a", a, exp_a), ("b", b, exp_b)):
                fw, bw = _walk(l, len(exp) + 3)
                check(fw == exp and bw == exp and len(l) == len(exp), "dll/other-list/independent",
                      {"list": nm, "after": step, "items": exp}, {"forward": fw, "backward": bw, "len": len(l)})
        return ok("dll/other-list")
    except Fail as f:
        return f.result


def run_case(case):
    if case.get("kind") == "other-list":
        return _run_other_list(case)
    mode, ops, n0 = case["payloads"], case["ops"], case["init"]
    tag = "dll-long" if case["kind"] == "long-run" else "dll"
    cnt = [0]

    def fresh():
        cnt[0] += 1
        return _payload(mode, cnt[0])
    try:
        init = [fresh() for _ in range(n0)]
        l = call(f"{tag}/construct", DoublyLinkedList, init)[1] if n0 else call(f"{tag}/construct", DoublyLinkedList)[1]
        ref, x = [], l.head
        while x is not None and len(ref) <= n0:
            ref.append(x)
            x = x.next_node
        names = {id(x): f"n{i}" for i, x in enumerate(ref)}
        check(len(ref) == n0 and all(a.data is b for a, b in zip(ref, init)), f"{tag}/construct", n0, len(ref))
        _verify(l, ref, names, "construct", tag)
        nonempty = bool(ref)

        def name(nd):
            names[id(nd)] = f"n{len(names)}"
            return nd
        for o in ops:
            k = o[0]
            sc = f"{tag}/{k}"
            if k == "append":
                p = fresh()
                nd = call(sc, l.append, p)[1]
                check(nd is not None and nd.data is p, sc, "node wrapping the payload", type(nd).__name__)
                ref.append(name(nd))
            elif k == "prepend":
                p = fresh()
                nd = call(sc, l.prepend, p)[1]
                check(nd is not None and nd.data is p, sc, "node wrapping the payload", type(nd).__name__)
                ref.insert(0, name(nd))
            elif k in ("extend", "pre_extend"):
                ps = [fresh(), fresh()]
                call(sc, getattr(l, k), iter(ps))
                # the new nodes are only reachable through the list: find them by payload identity
                at(sc)
                new, x = {}, l.head
                for _ in range(len(ref) + 3):
                    if x is None:
                        break
                    for p in ps:
                        if x.data is p:
                            new[id(p)] = x
                    x = x.next_node
                check(len(new) == 2, sc, "two new nodes", {"found": len(new)})
                a, b2 = name(new[id(ps[0])]), name(new[id(ps[1])])
                ref = ref + [a, b2] if k == "extend" else [b2, a] + ref
            elif k in ("pop_back", "pop_front"):
                r = call(sc, getattr(l, k), allowed=(IndexError,))
                if not ref:
                    check(r == ("raised", "IndexError"), sc + "-empty", "IndexError", r)
                else:
                    nd = ref.pop() if k == "pop_back" else ref.pop(0)
                    check(r[0] == "value" and r[1] is nd.data, sc, "payload of the removed end", r[0])
            elif k == "rotate":
                call(sc, l.rotate, o[1])
                if len(ref) > 1:
                    if o[1]:
                        ref.append(ref.pop(0))
                    else:
                        ref.insert(0, ref.pop())
            else:
                if not ref:
                    continue        # node operations need a node of the list
                i = o[1] % len(ref)
                nd = ref[i]
                if k == "remove":
                    call(sc, l.remove, nd)
                    ref.pop(i)
                elif k == "mtf":
                    call(f"{tag}/move_to_front", l.move_to_front, nd)
                    ref.insert(0, ref.pop(i))
                elif k == "mtb":
                    call(f"{tag}/move_to_back", l.move_to_back, nd)
                    ref.append(ref.pop(i))
                elif k == "mafter":
                    af = ref[o[2] % len(ref)]
                    call(f"{tag}/move_after", l.move_after, nd, af)
                    if nd is not af:
                        ref.pop(i)
                        ref.insert(next(p for p, x in enumerate(ref) if x is af) + 1, nd)
                else:
                    raise ValueError(f"unknown op {k}")
            nonempty = nonempty or bool(ref)
            _verify(l, ref, names, o, tag)
        return ok(f"{tag}/history", trivial=not nonempty)
    except Fail as f:
        return f.result
