"""C10 - SpanSet operators follow their membership-based definitions for every relation.

Reference model: plain lists of (start, end) tuples and four relation predicates written from the class
documentation; membership = "some stored span is related to x"; the operators are filters over A ++ B with exact
de-duplication; comparisons are the quantified membership statements.
"""
import itertools, random
from _util import take, ok, Fail, check, call

from windpyutils.structures import span_set as M

RELS = ["Exact", "PartOf", "Includes", "Overlaps"]
U3 = [[a, b] for a in range(3) for b in range(a, 3)]          # the 6 spans over {0,1,2}

BOUNDS = {
    "quick": {"relations": "all 4x4 (A's relation x B's relation)", "universe": U3,
              "collections": "all lists (order, repeats) of <=2 spans for A and B; plus |A|=3 with |B|<=2 and vice versa",
              "constructors": ["iterable of pairs", "starts/ends sequences"],
              "random": {"per_relation_pair": 400, "spans": "ends in 0..5 (ints and halves)", "max_len": 5}},
    "thorough": {"relations": "all 4x4", "universe": U3, "collections": "all lists of <=3 spans for A and B",
                 "constructors": ["iterable of pairs", "starts/ends sequences"],
                 "random": {"per_relation_pair": 5000, "spans": "ends in 0..5 (ints and halves)", "max_len": 6}},
}
RULE = ("For every ordered pair of relations and every pair of span lists within the bound: construction (both "
        "constructor forms) keeps a span iff it is not already a member of the set built so far; `in` for every span "
        "of the universe; A&B, A|B, A-B, A^B contain exactly the spans of A ++ B satisfying the membership formula, "
        "each once; <=, <, ==, !=, >=, >, isdisjoint, issubset, issuperset equal their quantified definitions. Then "
        "a seeded random sample over a larger universe with float ends. Non-trivial = A or B non-empty; distinct = "
        "canonical JSON.")


def _lists(n):
    for L in range(n + 1):
        for t in itertools.product(U3, repeat=L):
            yield list(t)


def cases(tier, seed):
    small = list(_lists(2))
    three = [list(t) for t in itertools.product(U3, repeat=3)]
    for ra in RELS:
        for rb in RELS:
            if tier == "quick":
                pairs = itertools.chain(itertools.product(small, small), itertools.product(three, small),
                                        itertools.product(small, three))
            else:
                allthree = small + three
                pairs = itertools.product(allthree, allthree)
            for A, B in pairs:
                yield {"kind": "pair", "rel_a": ra, "rel_b": rb, "A": A, "B": B}
    rng = random.Random(seed)
    b = BOUNDS[tier]["random"]
    pts = [x / 2 for x in range(0, 11)] + list(range(6))

    def span():
        a, c = sorted((rng.choice(pts), rng.choice(pts)))
        return [a, c]
    for ra in RELS:
        for rb in RELS:
            for _ in range(b["per_relation_pair"]):
                yield {"kind": "pair", "rel_a": ra, "rel_b": rb, "A": [span() for _ in range(rng.randint(0, b["max_len"]))],
                       "B": [span() for _ in range(rng.randint(0, b["max_len"]))], "universe": "wide"}


# ---- reference -------------------------------------------------------------------------------------------------
REL = {
    "Exact": lambda x, y: x[0] == y[0] and x[1] == y[1],
    "PartOf": lambda x, y: y[0] <= x[0] and x[1] <= y[1],          # x lies inside y
    "Includes": lambda x, y: x[0] <= y[0] and y[1] <= x[1],        # x covers y
    "Overlaps": lambda x, y: max(x[0], y[0]) <= min(x[1], y[1]),   # share a point
}
CLS = {"Exact": "SpanSetExactEqRelation", "PartOf": "SpanSetPartOfEqRelation", "Includes": "SpanSetIncludesEqRelation",
       "Overlaps": "SpanSetOverlapsEqRelation"}


def _build(spans, rel):
    kept = []
    for x in spans:
        if not any(REL[rel](x, k) for k in kept):
            kept.append(x)
    return kept


def _mem(x, kept, rel):
    return any(REL[rel](x, k) for k in kept)


def _filtered(pool, pred):
    out = []
    for x in pool:
        if pred(x) and x not in out:
            out.append(x)
    return out


def run_case(case):
    ra, rb = case["rel_a"], case["rel_b"]
    A = [tuple(x) for x in case["A"]]
    B = [tuple(x) for x in case["B"]]
    try:
        ka, kb = _build(A, ra), _build(B, rb)
        sa = call("spanset/construct", lambda: M.SpanSet(list(A), eq_relation=getattr(M, CLS[ra])()))[1]
        sb = call("spanset/construct", lambda: M.SpanSet(iter(B), eq_relation=getattr(M, CLS[rb])()))[1]
        for name, s, kept, src, rel in (("A", sa, ka, A, ra), ("B", sb, kb, B, rb)):
            got = call("spanset/construct", lambda: take(iter(s), len(src) + 1))[1]
            check(got == kept and len(s) == len(kept), "spanset/construct", kept, {name: src, "relation": rel, "kept": got})
            # the iterable-of-spans form checks for duplicates whatever force_no_dup_check says (the flag is for the two-sequence form)
            for arg in (list(src), iter(src), tuple(src)):
                s3 = call("spanset/construct-flag", lambda: M.SpanSet(arg, force_no_dup_check=True, eq_relation=getattr(M, CLS[rel])()))[1]
                got = call("spanset/construct-flag", lambda: take(iter(s3), len(src) + 1))[1]
                check(got == kept and len(s3) == len(kept), "spanset/construct-flag", kept,
                      {name: src, "relation": rel, "force_no_dup_check": True, "kept": got})
            s2 = call("spanset/construct-seqs", lambda: M.SpanSet([x[0] for x in src], [x[1] for x in src],
                                                                  eq_relation=getattr(M, CLS[rel])()))[1]
            got = call("spanset/construct-seqs", lambda: take(iter(s2), len(src) + 1))[1]
            check(got == kept and len(s2) == len(kept), "spanset/construct-seqs", kept,
                  {name: src, "relation": rel, "kept": got})
        universe = [tuple(x) for x in U3] if case.get("universe") != "wide" else sorted(set(A + B))
        for x in universe:
            for name, s, kept, rel in (("A", sa, ka, ra), ("B", sb, kb, rb)):
                r = call("spanset/contains", s.__contains__, x)[1]
                check(r == _mem(x, kept, rel), "spanset/contains", _mem(x, kept, rel),
                      {"x": x, "set": name, "relation": rel, "in": r})
        pool = ka + kb
        ina, inb = (lambda x: _mem(x, ka, ra)), (lambda x: _mem(x, kb, rb))
        for opname, f, pred in (("and", lambda: sa & sb, lambda x: ina(x) and inb(x)),
                                ("or", lambda: sa | sb, lambda x: ina(x) or inb(x)),
                                ("sub", lambda: sa - sb, lambda x: ina(x) and not inb(x)),
                                ("xor", lambda: sa ^ sb, lambda x: ina(x) != inb(x))):
            res = call(f"spanset/{opname}", f)[1]
            got = call(f"spanset/{opname}", lambda: take(iter(res), len(pool) + 1))[1]
            exp = _filtered(pool, pred)
            check(sorted(got) == sorted(exp), f"spanset/{opname}", exp, {"result": got})
        le = all(inb(x) for x in ka)
        ge = all(ina(x) for x in kb)
        eq = le and ge
        for opname, f, e in (("le", lambda: sa <= sb, le), ("ge", lambda: sa >= sb, ge), ("eq", lambda: sa == sb, eq),
                             ("ne", lambda: sa != sb, not eq), ("lt", lambda: sa < sb, le and not eq),
                             ("gt", lambda: sa > sb, ge and not eq), ("issubset", lambda: sa.issubset(sb), le),
                             ("issuperset", lambda: sa.issuperset(sb), ge),
                             ("isdisjoint", lambda: sa.isdisjoint(sb), all(not ina(x) for x in kb)),
                             ("isdisjoint", lambda: sa.isdisjoint(list(B)), all(not ina(x) for x in B))):
            r = call(f"spanset/{opname}", f)[1]
            check(r is e or r == e, f"spanset/{opname}", e, r)
        mixed = "mixed" if ra != rb else "same"
        return ok(f"spanset/{mixed}-relations", trivial=not (A or B))
    except Fail as f:
        f.result["observed"] = {"relations": [ra, rb], "detail": f.result["observed"]}
        return f.result
