"""
C01 - ordered imap returns exactly map(f, data), once each, in input order; imap_unordered the same multiset with
the order kept inside each chunk (bounded layer, real processes).

Reference model: ``[f(x) for x in data]`` with f(x) = 3x + 1 over distinct ints (so a lost, duplicated, invented or
reordered result is visible); for imap_unordered the output must be a concatenation of the per-chunk result lists
over a permutation of the chunks. Every case runs in a fresh interpreter (own session) under a watchdog.
"""
import itertools
import os
import random
import sys
import time

sys.path.insert(0, os.path.dirname(os.path.abspath(__file__)))
import _pool_util as PU  # noqa: E402

RUN_IN_SUBPROCESS = True
CASE_TIMEOUT_S = 30
BODY_TIMEOUT_S = 20

WQ = [None, 1, 1.0]
RQ = [None, 1]

BOUNDS = {
    "quick": {
        "configs": "full product |data| 0..5 x chunk size 1..3 x workers 1..2 x {imap, imap_unordered} x work queue "
                   "bound {None, 1, 1.0 (float)} x results queue bound {None, 1} (432) with list / lazily generated "
                   "input and FunctorPool / FactoryFunctorPool (quota None, 1, 2) rotated through; + the full "
                   "product of {wq} x {rq} x {pool kind} x {ordered} x {lazy} (48) at |data| = 5, chunk 2, "
                   "2 workers; + repeated values",
        "forced_schedules": ["delayed feeder start (SendWorkThread subclass whose run() sleeps 0.3 s) x "
                             "{imap, imap_unordered} x {FunctorPool, FactoryFunctorPool}, followed by a normal "
                             "second call",
                             "slow exhaustion (input generator sleeps 0.5 s before StopIteration)",
                             "slow first item with results_queue_maxsize=1 (flow control)",
                             "slow factory with quota 1"],
        "container_valued_elements": "input elements that are themselves lists / tuples (one of them empty): |data| in {1, 2, 4} x chunk 1..2 x "
                                     "{imap, imap_unordered} x {FunctorPool, FactoryFunctorPool quota 2} (48)",
        "two_pools": "two pools alive at once: an ordered call suspended after its first value (out-of-order chunks buffered), a complete call "
                     "on the other pool, then the first call drained (FunctorPool, FactoryFunctorPool)",
        "random": "12 random configurations with |data| 6..12",
    },
    "thorough": {
        "configs": "full product |data| 0..5 x chunk 1..3 x workers 1..2 x wq {None,1,1.0} x rq {None,1} x "
                   "ordered x lazy x pool kind (1728)",
        "forced_schedules": "as quick, with delays 0.1 / 0.3 / 0.8 s",
        "container_valued_elements": "|data| 0..5 x chunk 1..3 x ordered x pool kind x {list, tuple} elements (144)",
        "random": "150 random configurations with |data| 6..40, workers 1..4, chunk 1..7",
    },
}

RULE = ("One case = one pool configuration and one (or, for the delayed-feeder schedule, two) fully consumed "
        "call(s), run in a fresh process. Checked: the yielded values against the reference, no result chunk "
        "left on the results queue after the call (tokens without payload ignored), nothing left on the work "
        "queue. A hang of a call is a failure with observed 'timeout'; whether the pool context can be left "
        "afterwards is judged by C02/C04, not here (a hang there is only noted in 'observed'). Trivial: empty "
        "input.")


def _cfg(pool, workers, wq, rq, quota=None):
    c = {"pool": pool, "workers": workers, "wq": wq, "rq": rq}
    if quota is not None:
        c["quota"] = quota
    return c


def cases(tier, seed):
    quick = tier != "thorough"
    if quick:
        k = 0
        for n, cs, w, ordered, wq, rq in itertools.product(range(0, 6), (1, 2, 3), (1, 2), (True, False), WQ, RQ):
            lazy = (k // 2) % 2 == 1
            pool = "factory" if (k // 5) % 2 else "functor"
            quota = [None, 1, 2][(k // 7) % 3] if pool == "factory" else None
            k += 1
            yield {"kind": "single-call", "cfg": _cfg(pool, w, wq, rq, quota),
                   "calls": [{"ordered": ordered, "n": n, "cs": cs, "lazy": lazy}]}
        for wq, rq, pool, ordered, lazy in itertools.product(WQ, RQ, ("functor", "factory"), (True, False),
                                                             (False, True)):
            yield {"kind": "single-call", "cfg": _cfg(pool, 2, wq, rq, 1 if (pool == "factory" and lazy) else None),
                   "calls": [{"ordered": ordered, "n": 5, "cs": 2, "lazy": lazy}]}
    else:
        for n, cs, w, wq, rq, ordered, lazy, pool in itertools.product(
                range(0, 6), (1, 2, 3), (1, 2), WQ, RQ, (True, False), (False, True), ("functor", "factory")):
            quota = [None, 1, 2][(n + cs + w) % 3] if pool == "factory" else None
            yield {"kind": "single-call", "cfg": _cfg(pool, w, wq, rq, quota),
                   "calls": [{"ordered": ordered, "n": n, "cs": cs, "lazy": lazy}]}
    # repeated values (multiset semantics)
    for ordered in (True, False):
        yield {"kind": "single-call", "cfg": _cfg("functor", 2, 1.0, None),
               "calls": [{"ordered": ordered, "n": 5, "cs": 2, "dups": True}]}
    # forced schedules -------------------------------------------------------------------------------------------
    delays = [0.3] if quick else [0.1, 0.3, 0.8]
    for d in delays:
        for pool, ordered in itertools.product(("functor", "factory"), (True, False)):
            yield {"kind": "delayed-feeder", "cfg": _cfg(pool, 2, 1.0, None),
                   "calls": [{"ordered": ordered, "n": 5, "cs": 2, "feeder_delay": d, "settle": 0.3},
                             {"ordered": True, "n": 3, "cs": 1, "base": 100}]}
        yield {"kind": "delayed-feeder", "cfg": _cfg("functor", 1, None, 1),
               "calls": [{"ordered": True, "n": 1, "cs": 1, "feeder_delay": d, "settle": 0.3},
                         {"ordered": False, "n": 2, "cs": 1, "base": 100}]}
        for ordered in (True, False):
            yield {"kind": "slow-exhaustion", "cfg": _cfg("functor", 2, 1.0, None),
                   "calls": [{"ordered": ordered, "n": 2, "cs": 1, "lazy": True, "end_delay": d + 0.2}]}
        yield {"kind": "slow-first-item-flow-control",
               "cfg": dict(_cfg("functor", 2, 1.0, 1), slow_value=10, slow_s=d + 0.2),
               "calls": [{"ordered": True, "n": 5, "cs": 1}]}
        yield {"kind": "slow-factory-quota-1",
               "cfg": dict(_cfg("factory", 1, 1.0, None, 1), factory_delay=d + 0.2, factory_slow_from=2),
               "calls": [{"ordered": True, "n": 3, "cs": 1}]}
    # container-valued input elements (an element may itself be a list / tuple, also an empty one): the chunk structure must not leak
    for elem, n, cs, ordered, pool in itertools.product(("list", "tuple"), (1, 2, 4) if quick else range(0, 6), (1, 2) if quick else (1, 2, 3),
                                                        (True, False), ("functor", "factory")):
        yield {"kind": "container-valued-elements", "cfg": _cfg(pool, 2, 1.0, None, 2 if pool == "factory" else None),
               "calls": [{"ordered": ordered, "n": n, "cs": cs, "elem": elem}]}
    # elements that compare equal without being interchangeable (1 / True / 1.0, 0 / False / -0.0, (1,) / (True,)) in one chunk
    for cs, ordered, pool in itertools.product((1, 3, 5, 12), (True, False), ("functor", "factory")):
        yield {"kind": "equal-but-distinct-elements", "cfg": _cfg(pool, 2, 1.0, None, 2 if pool == "factory" else None),
               "calls": [{"ordered": ordered, "n": 12, "cs": cs, "elem": "equal-but-distinct"}]}
    for kind, ordered, cs in itertools.product(("deque", "tuple", "range", "circular"), (True, False), (1, 2)):
        yield {"kind": "input-container", "cfg": _cfg("functor", 2, 1.0, None), "calls": [{"ordered": ordered, "n": 5, "cs": cs, "container": kind}]}
    for pool in ("functor", "factory"):
        yield {"kind": "two-pools-interleaved", "cfg": _cfg(pool, 2, 1.0, None), "n": 6}
    rng = random.Random(seed)
    for _ in range(12 if quick else 150):
        pool = rng.choice(["functor", "factory"])
        yield {"kind": "single-call",
               "cfg": _cfg(pool, rng.randint(1, 2 if quick else 4), rng.choice(WQ + [2, 0.5]), rng.choice(RQ + [2]),
                           rng.choice([None, 1, 2, 3]) if pool == "factory" else None),
               "calls": [{"ordered": rng.random() < 0.5, "n": rng.randint(6, 12 if quick else 40),
                          "cs": rng.randint(1, 3 if quick else 7), "lazy": rng.random() < 0.5}]}


def _two_pools(case):
    """two ordered calls on two different pools alive at the same time: the first call is suspended after its first value while out-of-order
    chunks sit in its reorder buffer, a complete call on the other pool runs, then the first call is drained. Both are fully consumed."""
    a_vals = list(range(10, 10 + case["n"]))
    b_vals = list(range(500, 500 + case["n"]))
    pool_a = PU.make_pool(dict(case["cfg"], slow_value=a_vals[0], slow_s=case.get("slow_s", 0.6)))
    pool_b = PU.make_pool(case["cfg"])
    with pool_a, pool_b:
        it = pool_a.imap(list(a_vals), 1)
        got_a = [next(it)]
        time.sleep(0.2)
        got_b = list(pool_b.imap(list(b_vals), 1))
        got_a += list(it)
    exp_a, exp_b = [PU.f_ref(x) for x in a_vals], [PU.f_ref(x) for x in b_vals]
    if got_b != exp_b:
        return {"ok": False, "trivial": False, "scenario": "imap/two-pools-interleaved/second-pool-results", "expected": exp_b, "observed": got_b}
    if got_a != exp_a:
        return {"ok": False, "trivial": False, "scenario": "imap/two-pools-interleaved/first-pool-results", "expected": exp_a, "observed": got_a}
    return {"ok": True, "trivial": False, "scenario": "imap/two-pools-interleaved", "expected": None, "observed": None}


def run_case(case):
    if case.get("kind") == "two-pools-interleaved":
        return PU.guarded(lambda: _two_pools(case), BODY_TIMEOUT_S, "imap/two-pools-interleaved")
    return PU.guarded(lambda: PU.pool_history_body(case, "imap", judge_exit=False), BODY_TIMEOUT_S, "imap/" + case.get("kind", "?"))
