"""C16 - ImmutIntervalMap returns the value of the one interval containing the key.

Reference model: the defining dict itself - validity by pairwise comparison, lookup by linear scan.
"""
import itertools, random
from _util import take, ok, Fail, check, call

from windpyutils.structures.maps import ImmutIntervalMap

BOUNDS = {
    "quick": {
        "falsy_values": "intervals mapped to None / 0 / empty string / False / [] and the empty map: membership and lookup", "endpoints": [0, 1, 2, 3, 4], "intervals": "all 25 (start,end) pairs incl. start>end and single points",
              "maps": "all ordered selections (dict insertion order) of <=4 distinct intervals",
              "probes": "-1, -0.5, 0, 0.5, ... 5.5, 6 (every end, every gap midpoint, outside)",
              "random": {"count": 3000, "intervals": "<=7, float/int ends in 0..20, 15% invalid", "probes": "ends, ends+-0.25, midpoints"}},
    "thorough": {
        "falsy_values": "intervals mapped to None / 0 / empty string / False / [] and the empty map: membership and lookup", "endpoints": [0, 1, 2, 3, 4, 5], "intervals": "all 36", "maps": "all ordered selections of <=4 distinct intervals",
                 "probes": "as quick", "random": {"count": 60000, "intervals": "<=9", "probes": "as quick"}},
}
RULE = ("Every ordered selection of distinct intervals over the endpoint alphabet is given to the constructor as a dict: "
        "it must succeed iff all start<=end and no two intervals share a point, and raise KeyError otherwise (nothing "
        "else). For every constructed map and every probe key: lookup == value of the unique containing interval or "
        "KeyError, `in` agrees, len, iteration == sorted (interval, value). Then a seeded random sample with float ends. "
        "Non-trivial = at least one interval; distinct = canonical JSON.")
PROBES = [x / 2 for x in range(-2, 13)]


def cases(tier, seed):
    pts = range(5) if tier == "quick" else range(6)
    ivs = [[a, b] for a in pts for b in pts]
    for k in range(0, 5):
        for combo in itertools.permutations(ivs, k):
            yield {"kind": "map", "intervals": [list(x) for x in combo]}
    yield {"kind": "falsy"}
    # bounds that no double represents exactly (integers beyond 2**53, fractions): the map works on the numbers it was given
    B = 2 ** 53
    for ivs in ([[B, B], [B + 1, B + 1], [B + 2, B + 3]], [[B + 1, B + 1]], [[10 ** 30, 10 ** 30 + 1], [10 ** 30 + 2, 10 ** 30 + 2]],
                [[-B - 1, -B - 1], [-B, -B]]):
        yield {"kind": "map", "intervals": ivs, "probes": "exact-int"}
    yield {"kind": "fractions"}
    rng = random.Random(seed)
    b = BOUNDS[tier]["random"]
    for _ in range(b["count"]):
        n = rng.randint(1, 7 if tier == "quick" else 9)
        cuts = sorted(rng.sample([x / 4 for x in range(0, 81)], 2 * n))
        ivs = []
        for i in range(n):
            a, c = cuts[2 * i], cuts[2 * i + 1]
            if rng.random() < 0.3:
                c = a                                      # single point
            if rng.random() < 0.3 and i + 1 < n:
                c = cuts[2 * i + 2] - rng.choice([0, 0.25])   # touching / adjacent
            a, c = (int(a) if a == int(a) and rng.random() < 0.5 else a), (int(c) if c == int(c) and rng.random() < 0.5 else c)
            ivs.append([a, c])
        if rng.random() < 0.15:
            i = rng.randrange(n)
            ivs[i] = [ivs[i][1] + 1, ivs[i][0]] if rng.random() < 0.5 else [ivs[i - 1][0], ivs[i - 1][1] + 0.5]
        rng.shuffle(ivs)
        if len({tuple(x) for x in ivs}) == len(ivs):
            yield {"kind": "map", "intervals": ivs, "probes": "derived"}


def _run_falsy(case):
    """membership and lookup must not depend on the stored VALUE: None / 0 / '' / False / [] are ordinary values"""
    try:
        vals = [None, 0, "", False, [], "x"]
        mapping = {(10 * i, 10 * i + 5): v for i, v in enumerate(vals)}
        m = call("intervalmap/falsy/construct", ImmutIntervalMap, mapping)[1]
        for i, v in enumerate(vals):
            for k in (10 * i, 10 * i + 3, 10 * i + 5):
                r = call("intervalmap/falsy/contains", lambda: k in m)[1]
                check(r is True, "intervalmap/falsy-values/contains", {"key": k, "in": True, "value": repr(v)}, r)
                g = call("intervalmap/falsy/getitem", lambda: m[k])[1]
                check(g is v or g == v, "intervalmap/falsy-values/getitem", repr(v), repr(g))
            r = call("intervalmap/falsy/contains-gap", lambda: (10 * i + 7) in m)[1]
            check(r is False, "intervalmap/falsy-values/gap", False, r)
        e = ImmutIntervalMap({})
        r = call("intervalmap/empty/contains", lambda: 3 in e)[1]
        check(r is False, "intervalmap/empty/contains", False, r)
        r = call("intervalmap/empty/getitem", lambda: e[3], allowed=(KeyError,))
        check(r == ("raised", "KeyError"), "intervalmap/empty/getitem", "KeyError", r)
        return ok("intervalmap/falsy-values")
    except Fail as f:
        return f.result


def _run_fractions(case):
    from fractions import Fraction as Fr
    try:
        ivs = [(Fr(1, 10), Fr(2, 10)), (Fr(3, 10), Fr(3, 10)), (Fr(1, 3), Fr(2, 3))]
        mapping = {iv: i for i, iv in enumerate(ivs)}
        m = call("intervalmap/exact-bounds/construct", ImmutIntervalMap, mapping)[1]
        for i, (a, b) in enumerate(ivs):
            for k in (a, b, (a + b) / 2):
                r = call("intervalmap/exact-bounds/lookup", m.__getitem__, k, allowed=(KeyError,))
                check(r == ("value", i), "intervalmap/exact-bounds/lookup", ("value", i), {"key": str(k), "result": r})
        for k in (Fr(1, 10) - Fr(1, 10 ** 20), Fr(2, 10) + Fr(1, 10 ** 20), Fr(3, 10) + Fr(1, 10 ** 20), 0.30000000000000004):
            r = call("intervalmap/exact-bounds/gap", m.__contains__, k)[1]
            check(r is False, "intervalmap/exact-bounds/gap", False, {"key": str(k), "in": r})
        got = call("intervalmap/iteration", lambda: take(iter(m), 4))[1]
        check(got == [(iv, mapping[iv]) for iv in sorted(ivs)], "intervalmap/exact-bounds/iteration", "the given bounds", str(got))
        return ok("intervalmap/exact-bounds")
    except Fail as f:
        return f.result


def run_case(case):
    if case.get("kind") == "falsy":
        return _run_falsy(case)
    if case.get("kind") == "fractions":
        return _run_fractions(case)
    ivs = [tuple(x) for x in case["intervals"]]
    try:
        mapping = {iv: ["val", list(iv)] for iv in ivs}
        assert len(mapping) == len(ivs), "case must list distinct intervals"
        valid = all(a <= b for a, b in ivs) and all(not (x[0] <= y[1] and y[0] <= x[1]) for x, y in itertools.combinations(ivs, 2))
        kind = "valid" if valid else ("inverted" if any(a > b for a, b in ivs) else "sharing-a-point")
        r = call(f"intervalmap/construct-{kind}", ImmutIntervalMap, mapping, allowed=(KeyError,))
        if not valid:
            check(r == ("raised", "KeyError"), f"intervalmap/construct-{kind}", "KeyError", {"result": r[0]})
            return ok(f"intervalmap/construct-{kind}")
        check(r[0] == "value", "intervalmap/construct-valid", "constructed", r)
        m = r[1]
        n = call("intervalmap/len", len, m)[1]
        check(n == len(ivs), "intervalmap/len", len(ivs), n)
        got = call("intervalmap/iteration", lambda: take(iter(m), len(ivs) + 1))[1]
        exp = [(iv, mapping[iv]) for iv in sorted(ivs)]
        check(got == exp, "intervalmap/iteration", exp, got)
        # a map can be iterated any number of times, also with two iterators alive at once
        it1, it2 = iter(m), iter(m)
        inter = [x for pair in zip(it1, it2) for x in pair]
        check(inter == [x for e_ in exp for x in (e_, e_)], "intervalmap/iteration-repeated", "two interleaved iterations list every item", inter)
        got = call("intervalmap/iteration", lambda: take(iter(m), len(ivs) + 1))[1]
        check(got == exp, "intervalmap/iteration-repeated", exp, {"second full iteration": got})
        if case.get("probes") == "exact-int":
            ends = sorted({e for iv in ivs for e in iv})
            probes = sorted(set(ends + [e - 1 for e in ends] + [e + 1 for e in ends]))
        elif case.get("probes") == "derived":
            ends = sorted({e for iv in ivs for e in iv})
            probes = sorted(set(ends + [e - 0.25 for e in ends] + [e + 0.25 for e in ends]
                                + [(a + b) / 2 for a, b in zip(ends, ends[1:])] + [ends[0] - 1, ends[-1] + 1]))
        else:
            probes = PROBES
        for key in probes:
            hits = [mapping[iv] for iv in ivs if iv[0] <= key <= iv[1]]
            where = "at-end" if any(key in iv for iv in ivs) else ("inside" if hits else "gap")
            r = call(f"intervalmap/lookup-{where}", m.__getitem__, key, allowed=(KeyError,))
            e = ("value", hits[0]) if hits else ("raised", "KeyError")
            check(r == e, f"intervalmap/lookup-{where}", e, {"key": key, "result": r})
            r = call("intervalmap/contains", m.__contains__, key)[1]
            check(r is bool(hits), "intervalmap/contains", bool(hits), {"key": key, "in": r})
        return ok("intervalmap/lookup", trivial=not ivs)
    except Fail as f:
        return f.result
