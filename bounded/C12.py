"""
C12 - mutable line files act as a list of lines; save writes it; the source is untouched (bounded layer).

Reference model: a Python ``list`` of ``str`` that starts as ``content.split("\\n")`` (minus the empty tail) and
receives the same operations; expected bytes of a saved file are ``"".join(x + line_ending for x in model)``.
"""
import io
import itertools
import os
import random
import sys

sys.path.insert(0, os.path.dirname(os.path.abspath(__file__)))
import _files_util as U  # noqa: E402

# op instances; arguments refer to the initial content l0 l1 l2
FULL_ALPHABET = [["set", 0], ["set", -1], ["set", 5], ["del", 0], ["del", 1], ["del", 9], ["ins", 0], ["ins", 1],
                 ["ins", 99], ["ins", -1], ["app"], ["ext"], ["pop"], ["pop", 0], ["pop", 7], ["rem", "l1"],
                 ["rem", "zz"], ["rev"], ["iadd"], ["read"]]
# one or two instances per operation kind of the statement (setitem/delitem/insert/append/extend/pop/remove/
# reverse/+=)
CORE_ALPHABET = [["set", -1], ["del", 0], ["del", 1], ["ins", 1], ["app"], ["ext"], ["pop"], ["pop", 0],
                 ["rem", "l1"], ["rev"], ["iadd"]]
# exactly one instance per operation kind (thorough tier, length 5)
KIND_ALPHABET = [["set", -1], ["del", 0], ["ins", 1], ["app"], ["ext"], ["pop", 0], ["rem", "l1"], ["rev"], ["iadd"]]
VARIANTS = U.MUTABLE_PLAIN + U.MUTABLE_RECORD
LINE_ENDINGS = ["\n", "\r\n", "\t", ""]
INITIALS = [["l0", "l1", "l2"], ["only"], ["é", "", "žluť", ""], ["", ""], ["x y", " lead", "trail ", "l1", "l1"], []]

BOUNDS = {
    "quick": {
        "duplicates": "6 histories with equal contents in file-backed and in-memory lines (index = first occurrence, remove, count) x 4 variants", 
        "variants": VARIANTS,
        "initial": "l0 l1 l2 (LF-terminated) for the exhaustive part; 6 other initial contents (1 line, empty "
                   "lines, multi-byte, duplicates, unterminated last line, empty file for buffered variants) "
                   "in the random part",
        "histories": "all histories of length <= 3 over the full alphabet of 20 op instances (8421) and all of "
                     "length 4 over the core alphabet of 11 instances covering the 9 operation kinds (14641), "
                     "x 4 variants; 400 random histories of length 4..6 over the full alphabet and random "
                     "initial contents",
        "line_endings": LINE_ENDINGS,
    },
    "thorough": {
        "duplicates": "6 histories with equal contents in file-backed and in-memory lines (index = first occurrence, remove, count) x 4 variants", 
        "variants": VARIANTS,
        "initial": "as quick",
        "histories": "length <= 3 over the full alphabet x 4 variants, length 4 over the full alphabet (160000) x 2 "
                     "variants each (rotating: buffered plain + mmap record / mmap plain + buffered record), "
                     "length 5 over the 9-instance alphabet with one instance per operation kind (59049) x 4 "
                     "variants; 4000 random histories of length 5..8",
        "line_endings": LINE_ENDINGS,
    },
}

RULE = ("One case = (variant, initial lines, history of op instances). After EVERY operation the harness "
        "compares exception type / return value with the list model and the whole observable state (len, every "
        "index incl. negative and out of range, a reversed slice, iteration) - so each case also checks all its "
        "prefixes; dirty must be False before the first mutator call (plain variants) and True after every "
        "successful change of content (after a mutator call that raised, dirty is not constrained). At the end: "
        "save() to a path and to a StringIO with every line ending, bytes compared exactly; for '\\n' the saved "
        "file is reopened with the same class (and its buffered/mmap sibling); the source bytes must be "
        "unchanged. A case is trivial when its history is empty.")


def cases(tier, seed):
    quick = tier != "thorough"
    init = INITIALS[0]
    full_len, core_len, core = (3, 4, CORE_ALPHABET) if quick else (4, 5, KIND_ALPHABET)
    k = 0
    for n in range(0, full_len + 1):
        for ops in itertools.product(FULL_ALPHABET, repeat=n):
            k += 1
            if not quick and n == full_len:
                # thorough, longest full-alphabet histories: two of the four variants each, rotating
                vs = (VARIANTS[0], VARIANTS[3]) if k % 2 else (VARIANTS[1], VARIANTS[2])
            else:
                vs = VARIANTS
            for v in vs:
                yield {"kind": "history", "cls": v, "init": init, "terminated": True, "ops": [list(o) for o in ops]}
    for ops in itertools.product(core, repeat=core_len):
        for v in VARIANTS:
            yield {"kind": "history", "cls": v, "init": init, "terminated": True, "ops": [list(o) for o in ops]}
    # equal contents in several places, some read from the file and some held in memory: index / remove / count must treat them as a list does
    dup_hists = [[["setv", 2, "l1"], ["idx", "l1"], ["rem", "l1"], ["idx", "l1"]], [["appv", "l0"], ["idx", "l0"], ["rem", "l0"], ["cnt", "l0"]],
                 [["insv", 0, "l2"], ["idx", "l2"], ["rem", "l2"]], [["appv", "l1"], ["setv", 0, "l1"], ["cnt", "l1"], ["rem", "l1"], ["idx", "l1"]],
                 [["setv", -1, "l0"], ["rev"], ["idx", "l0"], ["rem", "l0"], ["rem", "l0"]], [["appv", "l2"], ["del", 0], ["idx", "l2"], ["rem", "l2"]]]
    for ops in dup_hists:
        for v in VARIANTS:
            yield {"kind": "history", "cls": v, "init": init, "terminated": True, "ops": ops}
    rng = random.Random(seed)
    lo, hi, cnt = (4, 6, 400) if quick else (5, 8, 4000)
    for _ in range(cnt):
        v = rng.choice(VARIANTS)
        ini = rng.choice(INITIALS)
        if not ini and U.is_mmap(v):
            ini = INITIALS[1]
        ops = []
        for _ in range(rng.randint(lo, hi)):
            op = list(rng.choice(FULL_ALPHABET))
            if len(op) == 2 and isinstance(op[1], int) and rng.random() < 0.5:
                op[1] = rng.randint(-4, 4)
            ops.append(op)
        yield {"kind": "history", "cls": v, "init": ini, "terminated": rng.random() < 0.7 or ini[-1:] == [""],
               "ops": ops}


def _fail(scenario, expected, observed):
    return {"ok": False, "trivial": False, "scenario": scenario, "expected": U.short(expected),
            "observed": U.short(observed)}


def _apply(cls, f, ref, op, new):
    """applies op to the file and to the model; -> (file result, file exc, model result, model exc, mutator?)"""
    k = op[0]
    w = lambda s: U.wrap(cls, s)  # noqa: E731
    if k == "set":
        fa, fr = (lambda: f.__setitem__(op[1], w(new))), (lambda: ref.__setitem__(op[1], new))
    elif k == "del":
        fa, fr = (lambda: f.__delitem__(op[1])), (lambda: ref.__delitem__(op[1]))
    elif k == "ins":
        fa, fr = (lambda: f.insert(op[1], w(new))), (lambda: ref.insert(op[1], new))
    elif k == "app":
        fa, fr = (lambda: f.append(w(new))), (lambda: ref.append(new))
    elif k == "ext":
        # the argument is any iterable, one-shot ones included (a list, a tuple, a generator, an iterator, a map object)
        form = [list, tuple, lambda v: (x for x in v), iter, lambda v: map(lambda x: x, v)][(len(ref) + len(new)) % 5]
        fa, fr = (lambda: f.extend(form([w(new), w(new + "b")]))), (lambda: ref.extend([new, new + "b"]))
    elif k == "pop":
        fa, fr = (lambda: U.unwrap(cls, f.pop(*op[1:]))), (lambda: ref.pop(*op[1:]))
    elif k == "rem":
        fa, fr = (lambda: f.remove(w(op[1]))), (lambda: ref.remove(op[1]))
    elif k == "rev":
        fa, fr = (lambda: f.reverse()), (lambda: ref.reverse())
    elif k == "iadd":
        def fa():
            g = f
            g += [list, iter, lambda v: (x for x in v)][len(ref) % 3]([w(new)])
            if g is not f:
                raise AssertionError("+= returned another object")
        fr = lambda: ref.extend([new])  # noqa: E731
    elif k == "read":
        fa, fr = (lambda: U.unwrap(cls, f[0:2])), (lambda: ref[0:2])
    elif k == "setv":          # store a GIVEN content (may equal the content of another line)
        fa, fr = (lambda: f.__setitem__(op[1], w(op[2]))), (lambda: ref.__setitem__(op[1], op[2]))
    elif k == "appv":
        fa, fr = (lambda: f.append(w(op[1]))), (lambda: ref.append(op[1]))
    elif k == "insv":
        fa, fr = (lambda: f.insert(op[1], w(op[2]))), (lambda: ref.insert(op[1], op[2]))
    elif k == "idx":           # index of the FIRST occurrence
        fa, fr = (lambda: f.index(w(op[1]))), (lambda: ref.index(op[1]))
    elif k == "cnt":
        fa, fr = (lambda: f.count(w(op[1]))), (lambda: ref.count(op[1]))
    else:
        raise ValueError(op)
    ra, ea = U.call(fa)
    rr, er = U.call(fr)
    return ra, ea, rr, er, k not in ("read", "idx", "cnt")


def _state_diff(cls, f, ref):
    n = len(ref)
    v, e = U.call(lambda: len(f))
    if e is not None or v != n:
        return "len", n, (v, e)
    v, e = U.call(lambda: U.unwrap(cls, list(f)))
    if e is not None or v != ref:
        return "iter", ref, (v, e)
    for i in range(-n, n):
        v, e = U.call(lambda: U.unwrap(cls, f[i]))
        if e is not None or v != ref[i]:
            return "index", (i, ref[i]), (i, v, e)
    for i in (n, -n - 1):
        v, e = U.call(lambda: f[i])
        if e != "IndexError":
            return "index-out-of-range", (i, "IndexError"), (i, v, e)
    v, e = U.call(lambda: U.unwrap(cls, f[::-1]))
    if e is not None or v != ref[::-1]:
        return "slice", ref[::-1], (v, e)
    return None


def run_case(case):
    if case["kind"] != "history":
        raise ValueError("unknown kind %r" % (case.get("kind"),))
    cls = case["cls"]
    plain = not U.is_record(cls)
    init = list(case["init"])
    # an empty last line only exists when it is terminated
    terminated = bool(init) and (case.get("terminated", True) or init[-1] == "")
    text = "\n".join(init) + ("\n" if terminated else "")
    src_bytes = text.encode("utf-8")
    ref = list(init)
    assert U.ref_lines(text) == ref, (text, ref)
    ops = case["ops"]
    with U.Scratch() as sc:
        src = sc.write("src.txt", src_bytes)
        f = U.open_line_file(cls, src)
        changed = False
        attempted = False
        try:
            with f:
                if plain and f.dirty:
                    return _fail("mutable/dirty-initially", False, True)
                bad = _state_diff(cls, f, ref)
                if bad:
                    return _fail("mutable/initial-" + bad[0], bad[1], bad[2])
                for c, op in enumerate(ops, 1):
                    before = list(ref)
                    ra, ea, rr, er, mut = _apply(cls, f, ref, op, "n%d" % c)
                    if ea != er or ra != rr:
                        return _fail("mutable/op-" + op[0], {"step": c, "result": rr, "exception": er},
                                     {"step": c, "result": ra, "exception": ea})
                    attempted = attempted or mut
                    if mut and er is None and ref != before:
                        changed = True
                    bad = _state_diff(cls, f, ref)
                    if bad:
                        return _fail("mutable/state-after-%s/%s" % (op[0], bad[0]), {"step": c, "exp": bad[1]},
                                     {"step": c, "obs": bad[2]})
                    if plain:
                        if changed and not f.dirty:
                            return _fail("mutable/dirty-after-change", True, False)
                        if not attempted and f.dirty:
                            return _fail("mutable/dirty-without-modification", False, True)
                # save -------------------------------------------------------------------------------------
                for le in LINE_ENDINGS:
                    exp = "".join(x + le for x in ref)
                    outp = sc.path("out.txt")
                    v, e = U.call(lambda: f.save(outp, le))
                    if e is not None:
                        return _fail("mutable/save-exception", "no exception", e)
                    with open(outp, "rb") as g:
                        got = g.read()
                    if got != exp.encode("utf-8"):
                        return _fail("mutable/save-bytes", {"line_ending": le, "bytes": exp.encode("utf-8")},
                                     {"bytes": got})
                    sio = io.StringIO()
                    f.save(sio, le)
                    if sio.getvalue() != exp:
                        return _fail("mutable/save-stream", {"line_ending": le, "text": exp}, sio.getvalue())
                    if le == "\n":
                        sibling = cls.replace("MemoryMapped", "") if U.is_mmap(cls) else cls.replace(
                            "Mutable", "MutableMemoryMapped")
                        for rc in (cls, sibling):
                            if not ref and U.is_mmap(rc):
                                continue  # the OS cannot map an empty file
                            g = U.open_line_file(rc, outp)
                            with g:
                                v, e = U.call(lambda: U.unwrap(rc, list(g)))
                            if e is not None or v != ref:
                                return _fail("mutable/reopen", {"class": rc, "lines": ref}, (v, e))
                    # the view must not change by saving
                    bad = _state_diff(cls, f, ref)
                    if bad:
                        return _fail("mutable/state-after-save/" + bad[0], bad[1], bad[2])
                with open(src, "rb") as g:
                    now = g.read()
                if now != src_bytes:
                    return _fail("mutable/source-changed", src_bytes, now)
        except Exception as ex:  # noqa
            import traceback
            return _fail("mutable/exception", "no exception", "%s: %s %s" % (type(ex).__name__, ex,
                                                                            traceback.format_exc(limit=3)[-600:]))
    return {"ok": True, "trivial": len(ops) == 0, "scenario": "mutable/history", "expected": None, "observed": None}
