"""C07 - LFUCache evicts a least frequently used key and keeps the latest stored value.

Reference model: two plain dicts, key -> value and key -> use count (1 at insertion, +1 for every later store or
successful lookup), written from the property statement. Membership tests and the bulk views (values/items/==,
which look every key up through the Mapping mixin) may or may not count as a use of the keys they touch: after
such an operation every touched key's count must lie in [count, count+1] (read from Item.meta, the anchored
counter) and the reference adopts it. After every other operation the counters must agree exactly.
"""
import random
from _util import at, take, ok, Fail, check, call, histories

from windpyutils.structures.caches import LFUCache

KEYS = "abcd"
CORE = ("set", "get", "del", "in")
CORE0 = ("views",)
MIX = ("set", "get", "mget", "pop", "setdefault", "update", "del")
MIX0 = ("keys", "values", "items", "eq", "popitem", "clear")

BOUNDS = {
    "quick": {"capacities": [1, 2, 3], "keys": "capacity+1 (a..d)", "values": "unique per store",
              "core_history_len": {"1": 6, "2": 6, "3": 5}, "core_ops": list(CORE) + list(CORE0),
              "mixin_history_len": {"1": 4, "2": 4, "3": 4}, "mixin_ops": list(MIX) + list(MIX0),
              "random": {"count": 3000, "len": "6..40", "capacities": "1..8", "keys": "ints/strs/tuples/None, <=10",
                         "values": "small alphabet with repeats"}},
    "thorough": {"capacities": [1, 2, 3], "keys": "capacity+1 (a..d)", "values": "unique per store",
                 "core_history_len": {"1": 7, "2": 6, "3": 6}, "core_ops": list(CORE) + list(CORE0),
                 "mixin_history_len": {"1": 5, "2": 5, "3": 4}, "mixin_ops": list(MIX) + list(MIX0),
                 "random": {"count": 60000, "len": "6..60", "capacities": "1..8", "keys": "<=10", "values": "repeats"}},
}
RULE = ("All operation sequences up to the stated length for every capacity, over capacity+1 keys, shortest first, up "
        "to renaming of keys; the value of a store is unique to its position. Two families: core ops "
        "(store/lookup/delete/membership/all-views) and Mapping-mixin ops (keys/values/items/==/get/pop/popitem/"
        "clear/update/setdefault). After EVERY operation: len<=capacity, key set == reference, iteration in "
        "non-decreasing reference use count, every value == latest stored, use counters == reference, dict/list "
        "internal agreement incl. backward links; at every eviction exactly one key leaves and its count is minimal. "
        "Then a seeded random sample of longer histories over heterogeneous keys, repeated values, capacities up to "
        "8. Non-trivial = stores at least once; distinct = distinct canonical JSON.")

_POOL = [0, 1, 2, 3, "a", "b", "", None, (1, 2), ("a",), -1, 10 ** 20, 2.5, "True", frozenset()]
_MISSING = "<missing>"


def cases(tier, seed):
    b = BOUNDS[tier]
    for cap in b["capacities"]:
        for ops in histories(b["core_history_len"][str(cap)], CORE, CORE0, KEYS[:cap + 1]):
            yield {"kind": "history", "cap": cap, "ops": ops}
        for ops in histories(b["mixin_history_len"][str(cap)], MIX, MIX0, KEYS[:cap + 1]):
            if any(o[0] not in ("set", "get", "del") for o in ops):
                yield {"kind": "history", "cap": cap, "ops": ops}
    rng = random.Random(seed)
    allops = sorted(set(CORE + MIX)) * 2 + list(CORE0 + MIX0)
    for _ in range(b["random"]["count"]):
        cap = rng.randint(1, 8)
        keys = rng.sample(range(len(_POOL)), rng.randint(1, 10))
        ops = []
        for _ in range(rng.randint(6, 40 if tier == "quick" else 60)):
            op = rng.choice(allops)
            o = [op] if op in CORE0 + MIX0 else [op, rng.choice(keys)]
            if op in ("set", "setdefault", "update"):
                o.append(rng.choice(["x", "y", 0, None]))
            ops.append(o)
        yield {"kind": "history", "cap": cap, "ops": ops, "keypool": True}


class Model:
    def __init__(self, cap):
        self.cap, self.val, self.cnt = cap, {}, {}

    def hit(self, k):
        self.cnt[k] += 1
        return self.val[k]

    def drop(self, k):
        del self.val[k], self.cnt[k]


def _keys(c, m):
    return take(iter(c), len(m.val) + 1)


def _apply_store(m, k, v, after):
    """Reference effect of one store, given the keys observed right after it; victim check."""
    if k in m.val:
        m.val[k] = v
        m.cnt[k] += 1
        return
    if len(m.val) >= m.cap:
        gone = [x for x in m.cnt if x not in after]
        lo = min(m.cnt.values())
        check(len(gone) == 1 and m.cnt[gone[0]] == lo, "lfu/evict-victim",
              {"removed": "exactly one key with use count %d" % lo, "counts": _j(m.cnt)},
              {"removed": gone, "keys": after})
        m.drop(gone[0])
    m.val[k], m.cnt[k] = v, 1


def _store(c, m, k, v, scenario, do=None):
    r = call(scenario, do or c.__setitem__, k, v)[1]
    _apply_store(m, k, v, take(iter(c), m.cap + 2))
    return r


def _j(d):
    return [[k, v] for k, v in d.items()]


def _observe(c, m, o, touched=None):
    """State comparison after an operation; `touched` = keys whose counter may have grown by one."""
    n = call("lfu/len", len, c)[1]
    check(n == len(m.val) and n <= m.cap, "lfu/capacity", {"len": len(m.val), "max": m.cap}, {"len": n})
    order = call("lfu/iteration-terminate", lambda: _keys(c, m))[1]
    check(len(order) == len(m.val) and all(k in m.val for k in order) and len(set(map(repr, order))) == len(order),
          "lfu/content", {"keys (any order)": list(m.val)}, {"after": o, "keys": order})
    # internal agreement: list nodes, dict, links, Item fields
    at("lfu/internal-agreement")
    lim = len(m.val) + 2
    nodes, x = [], c.list.head
    while x is not None and len(nodes) < lim:
        nodes.append(x)
        x = x.next_node
    back, x = [], c.list.tail
    while x is not None and len(back) < lim:
        back.append(x)
        x = x.prev_node
    items = [[x.data.key, x.data.value, x.data.meta] for x in nodes]
    check([i[0] for i in items] == order, "lfu/internal-agreement", {"list keys": order}, {"list": items})
    check([id(x) for x in reversed(back)] == [id(x) for x in nodes], "lfu/internal-agreement",
          "backward walk = reversed forward walk", {"forward": items, "backward": [x.data.key for x in back]})
    check(len(c.cache) == len(nodes) and all(c.cache.get(x.data.key) is x for x in nodes),
          "lfu/internal-agreement", {"dict keys": order}, {"dict keys": list(c.cache)})
    check(all(m.val[k] == v for k, v, _ in items), "lfu/stored-value", _j(m.val), items)
    # use counters
    if touched is not None:
        for k, _, meta in items:
            lo = m.cnt[k]
            check(lo <= meta <= lo + (1 if k in touched else 0), "lfu/use-count", {"counts": _j(m.cnt), "may +1": list(touched)},
                  {"after": o, "counts": [[i[0], i[2]] for i in items]})
            m.cnt[k] = meta
    check(all(m.cnt[k] == meta for k, _, meta in items), "lfu/use-count", _j(m.cnt),
          {"after": o, "counts": [[i[0], i[2]] for i in items]})
    counts = [m.cnt[k] for k in order]
    check(counts == sorted(counts), "lfu/iteration-order", "non-decreasing use count",
          {"after": o, "keys": order, "counts": counts})


def run_case(case):
    cap, ops = case["cap"], case["ops"]
    key = (lambda x: _POOL[x]) if case.get("keypool") else (lambda x: x)
    stored = False
    try:
        c = call("lfu/construct", LFUCache, cap)[1]
        m = Model(cap)
        for i, o in enumerate(ops):
            op = o[0]
            k = key(o[1]) if len(o) > 1 else None
            v = o[2] if len(o) > 2 else f"v{i}"
            touched = None
            if op == "set":
                stored = True
                _store(c, m, k, v, "lfu/store")
            elif op == "get":
                r = call("lfu/lookup", c.__getitem__, k, allowed=(KeyError,))
                e = ("value", m.hit(k)) if k in m.val else ("raised", "KeyError")
                check(r == e, "lfu/lookup-value" if k in m.val else "lfu/lookup-miss", e, r)
            elif op == "del":
                r = call("lfu/delete", c.__delitem__, k, allowed=(KeyError,))
                e = ("value", None) if k in m.val else ("raised", "KeyError")
                check(r == e, "lfu/delete", e, r)
                if k in m.val:
                    m.drop(k)
            elif op == "in":
                r = call("lfu/membership", c.__contains__, k)[1]
                check(r == (k in m.val), "lfu/membership", k in m.val, r)
                touched = {k}
            elif op in ("views", "keys", "values", "items", "eq"):
                lim = len(m.val) + 1
                touched = set()
                if op in ("views", "keys"):
                    r = call("lfu/keys-terminate", lambda: take(c.keys(), lim))[1]
                    check(sorted(map(repr, r)) == sorted(map(repr, m.val)), "lfu/keys-agree", list(m.val), r)
                    _observe(c, m, o)
                if op in ("views", "values"):
                    r = call("lfu/values-terminate", lambda: take(c.values(), lim))[1]
                    check(sorted(map(repr, r)) == sorted(map(repr, m.val.values())), "lfu/values-agree",
                          list(m.val.values()), r)
                    _observe(c, m, o, set(m.val))
                if op in ("views", "items"):
                    r = call("lfu/items-terminate", lambda: take(c.items(), lim))[1]
                    check(sorted(map(repr, r)) == sorted(map(repr, m.val.items())), "lfu/items-agree", _j(m.val), r)
                    _observe(c, m, o, set(m.val))
                if op in ("views", "eq"):
                    r = call("lfu/eq-terminate", lambda: c == dict(m.val))[1]
                    check(r is True, "lfu/eq-agree", True, r)
                    _observe(c, m, o, set(m.val))
                    other = dict(m.val)
                    other["<other>"] = 0
                    r = call("lfu/eq-terminate", lambda: c == other)[1]
                    check(r is False, "lfu/eq-agree", False, r)
                    _observe(c, m, o, set(m.val))
                    if m.val:
                        other = dict(m.val)
                        other[next(iter(other))] = "<different>"
                        r = call("lfu/eq-terminate", lambda: c != other)[1]
                        check(r is True, "lfu/eq-agree", True, r)
                        _observe(c, m, o, set(m.val))
                continue
            elif op == "mget":
                r = call("lfu/get", c.get, k, _MISSING)[1]
                e = m.hit(k) if k in m.val else _MISSING
                check(r == e, "lfu/get", e, r)
            elif op == "pop":
                r = call("lfu/pop", c.pop, k, _MISSING)[1]
                e = m.val.get(k, _MISSING)
                check(r == e, "lfu/pop", e, r)
                if k in m.val:
                    m.drop(k)
                else:
                    r = call("lfu/pop", c.pop, k, allowed=(KeyError,))
                    check(r == ("raised", "KeyError"), "lfu/pop", "KeyError", r)
            elif op == "popitem":
                r = call("lfu/popitem-terminate", c.popitem, allowed=(KeyError,))
                if not m.val:
                    check(r == ("raised", "KeyError"), "lfu/popitem", "KeyError", r)
                else:
                    pk, pv = r[1] if r[0] == "value" else (_MISSING, None)
                    check(r[0] == "value" and pk in m.val and m.val[pk] == pv, "lfu/popitem",
                          {"one of": _j(m.val)}, r)
                    m.drop(pk)
            elif op == "clear":
                call("lfu/clear-terminate", c.clear)
                m.val.clear()
                m.cnt.clear()
            elif op == "setdefault":
                if k in m.val:
                    r = call("lfu/setdefault", c.setdefault, k, v)[1]
                    check(r == m.hit(k), "lfu/setdefault", m.val[k], r)
                else:      # miss: a store of the default
                    stored = True
                    r = _store(c, m, k, v, "lfu/setdefault", c.setdefault)
                    check(r == v, "lfu/setdefault", v, r)
            elif op == "update":
                stored = True
                if i % 2 == 0:
                    _store(c, m, k, v, "lfu/update-terminate", lambda kk, vv: c.update({kk: vv}))
                else:       # two pairs from a generator that looks at the cache between the stores
                    pairs = [(k, v), (key(0) if case.get("keypool") else "a", f"{v}'")]
                    seen = []

                    def feed():
                        for p in pairs:
                            yield p
                            seen.append(take(iter(c), cap + 2))
                    call("lfu/update-terminate", c.update, feed())
                    check(len(seen) == 2, "lfu/update", "both pairs stored", {"stores seen": len(seen)})
                    for (pk, pv), after in zip(pairs, seen):
                        _apply_store(m, pk, pv, after)
            else:
                raise ValueError(f"unknown op {op}")
            _observe(c, m, o, touched)
        return ok("lfu/history", trivial=not stored)
    except Fail as f:
        return f.result
