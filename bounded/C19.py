"""C19 - Generic sequence helpers equal their brute-force definitions.

Reference models: digit-table roman numerals; explicit (value, index) keys for the stable sorting permutation;
window comparison at every offset; collections.Counter; plain slicing for the batchers.
"""
import collections, itertools, random
from _util import take, ok, Fail, check, call

from windpyutils.generic import (int_2_roman, roman_2_int, arg_sort, sub_seq, search_sub_seq, compare_pos_in_iterables,
                                 Batcher, BatcherIter)

INCLUDE_HUGE = True   # range() inputs longer than 2**53: len(Batcher) goes through float division
BOUNDS = {
    "quick": {"roman": "every n in 1..3999 (exhaustive)",
              "arg_sort": {"alphabets": {"ab": "len 0..8", "[0,1,2]": "len 0..6", "[1,1.0,0.5]": "len 0..6"}, "reverse": [False, True],
                           "containers": ["list", "tuple"]},
              "sub_seq": {"ab": {"haystack_len": "0..8", "needle_len": "0..5"}, "abc": {"haystack_len": "0..5", "needle_len": "0..3"},
                          "types": ["list", "str", "tuple"]},
              "compare_pos": {"alphabet": "abc", "len": "0..5 each side (length difference <=1), lists and one-shot iterators"},
              "batcher": {"n": "0..40", "batch_size": "1..42", "inputs": ["list", "str", "range", "tuple of 2", "tuple of 3 (with a str)"],
                          "iter_inputs": ["list", "iterator", "generator", "tuple of 2 iterators", "tuple of 3 mixed"]},
              "batcher_huge": "len() and last batch for range inputs around 2**53 (float rounding of n / batch_size), 6 pairs",
              "random": {"count": 2000, "arg_sort_len": "7..30", "haystack_len": "7..40", "batcher_n": "15..300"}},
    "thorough": {"roman": "every n in 1..3999 (exhaustive)",
                 "arg_sort": {"alphabets": {"ab": "len 0..11", "[0,1,2]": "len 0..7", "[1,1.0,0.5]": "len 0..7"}, "reverse": [False, True],
                              "containers": ["list", "tuple"]},
                 "sub_seq": {"ab": {"haystack_len": "0..10", "needle_len": "0..5"}, "abc": {"haystack_len": "0..6", "needle_len": "0..3"},
                             "types": ["list", "str", "tuple"]},
                 "compare_pos": {"alphabet": "abc", "len": "0..6 each side (length difference <=1)"},
                 "batcher": {"n": "0..100", "batch_size": "1..102", "inputs": "as quick", "iter_inputs": "as quick"},
                 "batcher_huge": "as quick", "random": {"count": 40000}},
}
RULE = ("roman: one case per integer. arg_sort: every sequence over each alphabet up to max_len, both directions; the "
        "result must be THE stable permutation. sub_seq / search_sub_seq: every (needle, haystack) pair, three sequence "
        "types. compare_pos_in_iterables: every pair of sequences. Batcher / BatcherIter: every (n, batch_size) pair "
        "for every input form; concatenation, sizes, non-empty last batch, len == ceil(n/bs), IndexError past the end, "
        "tuple inputs in lock-step. Then a seeded random sample of longer inputs. Non-trivial = non-empty input (roman: "
        "always); distinct = canonical JSON.")


def _seqs(alpha, lo, hi):
    for n in range(lo, hi + 1):
        for t in itertools.product(alpha, repeat=n):
            yield list(t)


def cases(tier, seed):
    q = tier == "quick"
    for n in range(1, 4000):
        yield {"kind": "roman", "n": n}
    for alpha in ("ab", [0, 1, 2], [1, 1.0, 0.5]):
        for s in _seqs(alpha, 0, (8 if q else 11) if len(alpha) == 2 else (6 if q else 7)):
            for rev in (False, True):
                yield {"kind": "arg_sort", "seq": s, "reverse": rev}
    for hay in _seqs("ab", 0, 8 if q else 10):
        for needle in _seqs("ab", 0, 5):
            yield {"kind": "sub_seq", "needle": needle, "hay": hay, "type": ("list", "str", "tuple")[(len(hay) + len(needle)) % 3]}
    for hay in _seqs("abc", 0, 5 if q else 6):
        for needle in _seqs("abc", 0, 3):
            yield {"kind": "sub_seq", "needle": needle, "hay": hay, "type": "list"}
    for a in _seqs("abc", 0, 5 if q else 6):
        for b in _seqs("abc", 0, 5 if q else 6):
            if abs(len(a) - len(b)) <= 1:
                yield {"kind": "compare_pos", "a": a, "b": b, "iterators": (len(a) + len(b)) % 2 == 1}
    for n in range(0, 41 if q else 101):
        for bs in range(1, 43 if q else 103):
            for form in ("list", "str", "range", "tuple2", "tuple3"):
                yield {"kind": "batcher", "n": n, "batch_size": bs, "input": form}
            for form in ("list", "iterator", "generator", "tuple2", "tuple3"):
                yield {"kind": "batcher_iter", "n": n, "batch_size": bs, "input": form}
    for n, bs in () if not INCLUDE_HUGE else ((2 ** 53 + 1, 1), (10 ** 17 + 1, 10 ** 17), (2 ** 53 + 1, 2), (3 * 2 ** 53 + 3, 3), (2 ** 53 - 1, 1), (2 ** 60, 2 ** 30)):
        yield {"kind": "batcher_huge", "n": n, "batch_size": bs}
    rng = random.Random(seed)
    for _ in range(BOUNDS[tier]["random"]["count"]):
        r = rng.random()
        if r < 0.25:
            alpha = rng.choice(["ab", "abc", [0, 1, 2, 3], [1, 1.0, 2, 2.0, 0.5]])
            yield {"kind": "arg_sort", "seq": [rng.choice(alpha) for _ in range(rng.randint(7, 30))], "reverse": rng.random() < 0.5}
        elif r < 0.5:
            hay = [rng.choice("ab") for _ in range(rng.randint(7, 40))]
            i = rng.randint(0, len(hay) - 1)
            needle = hay[i:i + rng.randint(1, 6)] if rng.random() < 0.7 else [rng.choice("ab") for _ in range(rng.randint(1, 6))]
            yield {"kind": "sub_seq", "needle": needle, "hay": hay, "type": rng.choice(["list", "str", "tuple"])}
        elif r < 0.65:
            a = [rng.choice("abcd") for _ in range(rng.randint(5, 12))]
            b = list(a)
            rng.shuffle(b)
            if rng.random() < 0.5:
                b[rng.randrange(len(b))] = rng.choice("abcd")
            yield {"kind": "compare_pos", "a": a, "b": b, "iterators": rng.random() < 0.5}
        else:
            yield {"kind": rng.choice(["batcher", "batcher_iter"]), "n": rng.randint(15, 300), "batch_size": rng.randint(1, 320),
                   "input": rng.choice(["list", "tuple2", "tuple3"])}


# ---------------------------------------------------------------------------------------------------------------
_D = ["", "I", "II", "III", "IV", "V", "VI", "VII", "VIII", "IX"]


def _canon(n):
    tr = lambda d, one, five, ten: _D[d].replace("X", "t").replace("V", "f").replace("I", one).replace("f", five).replace("t", ten)
    return "M" * (n // 1000) + tr(n // 100 % 10, "C", "D", "M") + tr(n // 10 % 10, "X", "L", "C") + tr(n % 10, "I", "V", "X")


def _run_roman(case):
    n = case["n"]
    r = call("roman/int_2_roman", int_2_roman, n)[1]
    check(r == _canon(n), "roman/canonical", _canon(n), r)
    back = call("roman/roman_2_int", roman_2_int, _canon(n))[1]
    check(back == n, "roman/inverse", n, back)
    back = call("roman/roman_2_int", roman_2_int, r)[1]
    check(back == n, "roman/inverse", n, back)
    return ok("roman/subtractive" if any(p in r for p in ("IV", "IX", "XL", "XC", "CD", "CM")) else "roman/additive")


def _run_arg_sort(case):
    s, rev = case["seq"], case["reverse"]
    distinct = sorted(set(s))
    rank = {v: i for i, v in enumerate(distinct)}
    exp = sorted(range(len(s)), key=lambda i: ((-rank[s[i]] if rev else rank[s[i]]), i))
    for form in (list(s), tuple(s)):
        r = call("arg_sort/call", arg_sort, form, rev)[1] if rev else call("arg_sort/call", arg_sort, form)[1]
        ties = len(distinct) < len(s)
        check(r == exp, "arg_sort/" + ("reverse-" if rev else "") + ("stable-ties" if ties else "permutation"), exp, r)
    return ok("arg_sort/" + ("reverse" if rev else "forward"), trivial=not s)


def _run_sub_seq(case):
    conv = {"list": list, "tuple": tuple, "str": "".join}[case["type"]]
    q, s = conv(case["needle"]), conv(case["hay"])
    m, n = len(q), len(s)
    occ = [(o, o + m) for o in range(0, n - m + 1) if list(s[o:o + m]) == list(q)]
    r = call("sub_seq/call", sub_seq, q, s)[1]
    check(r is bool(occ), "sub_seq/contiguous-occurrence", bool(occ), r)
    r = call("search_sub_seq/call", search_sub_seq, q, s, allowed=(ValueError,))
    if m == 0 or n == 0:       # documented: ValueError for an empty sequence; the occurrences would also be acceptable
        check(r == ("raised", "ValueError") or r == ("value", occ), "search_sub_seq/empty-input", "ValueError", r)
    else:
        overl = any(a[1] > b[0] for a, b in zip(occ, occ[1:]))
        check(r == ("value", occ), "search_sub_seq/" + ("overlapping-occurrences" if overl else "occurrences"), occ, r)
    return ok("sub_seq/" + ("found" if occ else "absent"), trivial=n == 0)


def _run_compare_pos(case):
    a, b = case["a"], case["b"]
    exp = collections.Counter(a) == collections.Counter(b)
    r = call("compare_pos/call", compare_pos_in_iterables, iter(a) if case["iterators"] else list(a),
             iter(b) if case["iterators"] else list(b))[1]
    check(r is exp, "compare_pos/multiset-equality", exp, r)
    return ok("compare_pos/" + ("equal" if exp else "different"), trivial=not (a or b))


def _data(n, j):
    return [f"{'xyz'[j]}{i}" for i in range(n)]


def _expected_batches(d, bs):
    return [d[o:o + bs] for o in range(0, len(d), bs)]


def _check_batches(tag, got, d, bs):
    """The statement's clauses, independent of the slicing reference."""
    flat = [x for b in got for x in b]
    check(flat == list(d), f"{tag}/concatenation", list(d), flat)
    check(all(len(b) == bs for b in got[:-1]) and all(0 < len(b) <= bs for b in got[-1:]), f"{tag}/batch-sizes",
          {"all": bs, "last": "1..%d" % bs}, [len(b) for b in got])
    check(len(got) == -(-len(d) // bs), f"{tag}/batch-count", -(-len(d) // bs), len(got))


def _run_batcher(case):
    n, bs, form = case["n"], case["batch_size"], case["input"]
    if form in ("tuple2", "tuple3"):
        k = int(form[-1])
        cols = [_data(n, j) for j in range(k)]
        if k == 3:
            cols[2] = "".join(chr(97 + i % 26) for i in range(n))     # a str column among lists
        b = call("batcher/construct", Batcher, tuple(cols), bs)[1]
        ln = call("batcher/len", len, b)[1]
        check(ln == -(-n // bs), "batcher/len-ceil", -(-n // bs), ln)
        got = [call("batcher/getitem", b.__getitem__, i)[1] for i in range(ln)]
        check(all(isinstance(x, tuple) and len(x) == k for x in got), "batcher/tuple-lock-step", f"{k}-tuples", got[:2])
        for j in range(k):
            _check_batches("batcher", [list(x[j]) for x in got], list(cols[j]), bs)
        check(all(len({len(c) for c in x}) == 1 for x in got), "batcher/tuple-lock-step", "equal sizes per batch", got[:2])
    else:
        d = _data(n, 0)
        data = {"list": d, "str": "".join(chr(97 + i % 26) for i in range(n)), "range": range(n)}[form]
        b = call("batcher/construct", Batcher, data, bs)[1]
        ln = call("batcher/len", len, b)[1]
        check(ln == -(-n // bs), "batcher/len-ceil", -(-n // bs), ln)
        got = [call("batcher/getitem", b.__getitem__, i)[1] for i in range(ln)]
        _check_batches("batcher", [list(x) for x in got], list(data), bs)
        check([list(x) for x in got] == [list(x) for x in _expected_batches(data, bs)], "batcher/batch-i", "data[i*bs:(i+1)*bs]", got[:3])
    for i in (ln, ln + 1):
        r = call("batcher/index-past-end", b.__getitem__, i, allowed=(IndexError,))
        check(r == ("raised", "IndexError"), "batcher/index-past-end", "IndexError", {"index": i, "result": r})
    return ok("batcher/" + ("tuple-lock-step" if form.startswith("tuple") else "partial-last" if n % bs else "even"), trivial=n == 0)


def _run_batcher_iter(case):
    n, bs, form = case["n"], case["batch_size"], case["input"]
    budget = n + 2
    if form in ("tuple2", "tuple3"):
        k = int(form[-1])
        cols = [_data(n, j) for j in range(k)]
        feeds = [iter(cols[0]), (x for x in cols[1])] + ([list(cols[2])] if k == 3 else [])
        got = call("batcheriter/iterate", lambda: take(BatcherIter(tuple(feeds), bs), budget))[1]
        check(all(isinstance(x, tuple) and len(x) == k for x in got), "batcheriter/tuple-lock-step", f"{k}-tuples", got[:2])
        for j in range(k):
            _check_batches("batcheriter", [list(x[j]) for x in got], cols[j], bs)
        # batches must not alias each other (lists are filled in place inside the tuple)
        ids = [id(c) for x in got for c in x]
        check(len(set(ids)) == len(ids), "batcheriter/tuple-lock-step", "fresh lists per batch", "aliased batch lists")
    else:
        d = _data(n, 0)
        feed = {"list": list(d), "iterator": iter(d), "generator": (x for x in d)}[form]
        got = call("batcheriter/iterate", lambda: take(BatcherIter(feed, bs), budget))[1]
        _check_batches("batcheriter", [list(x) for x in got], d, bs)
        check(got == _expected_batches(d, bs), "batcheriter/batch-i", _expected_batches(d, bs)[:3], got[:3])
    return ok("batcheriter/" + ("tuple-lock-step" if form.startswith("tuple") else "partial-last" if n % bs else "even"), trivial=n == 0)


def _run_batcher_huge(case):
    n, bs = case["n"], case["batch_size"]
    b = call("batcher/construct", Batcher, range(n), bs)[1]
    exp = -(-n // bs)
    ln = call("batcher/len-huge", len, b)[1]
    check(ln == exp, "batcher/len-huge", exp, ln)
    last = call("batcher/len-huge", b.__getitem__, exp - 1)[1]
    check(len(last) > 0 and last[-1] == n - 1, "batcher/len-huge", {"last element": n - 1}, {"last batch": repr(last)})
    return ok("batcher/len-huge")


_RUN = {"roman": _run_roman, "arg_sort": _run_arg_sort, "sub_seq": _run_sub_seq, "compare_pos": _run_compare_pos,
        "batcher": _run_batcher, "batcher_iter": _run_batcher_iter, "batcher_huge": _run_batcher_huge}


def run_case(case):
    try:
        return _RUN[case["kind"]](case)
    except Fail as f:
        return f.result
