"""
C05 - FunctorMap and mul_p_map return map(f, data) in input order (bounded layer, real processes).

Reference model: ``[f(x) for x in data]`` with f(x) = 3x + 1 over distinct ints. Arrival orders are varied by making
f sleep on one chosen value (so later chunks overtake earlier ones) - a sidecar function, not an edit. Every case runs
in a fresh interpreter (mul_p_map uses class-level queues) under a watchdog; a hang is observed "timeout".
"""
import itertools
import os
import random
import sys
import time

sys.path.insert(0, os.path.dirname(os.path.abspath(__file__)))
import _pool_util as PU  # noqa: E402

RUN_IN_SUBPROCESS = True
CASE_TIMEOUT_S = 30
BODY_TIMEOUT_S = 20

BOUNDS = {
    "quick": {
        "functor_map": "|data| 0..5 x chunk 1..3 x workers 1..3 x {list, generator} single calls (108); histories of "
                       "3 calls on one map (incl. an empty call, data shorter than the worker count) x workers 1..3; "
                       "f sleeping 0.2 s on the first / middle / last value (out-of-order arrival) x chunk 1..2 x "
                       "workers 2..3; workers=-1 (cpu count)",
        "mul_p_map": "|data| 0..5 x workers 1..3 x {list, generator} (36); two consecutive calls in one process; "
                     "slow value; workers=-1",
        "big_results": "results of 400 000 characters each (far beyond the capacity of an OS pipe), f taking 0.3 s per item so that every "
                       "result is produced after the whole input was distributed: mul_p_map (6 items / 2 workers, 2 items / 3 workers) "
                       "and FunctorMap (6 / 2, 3 / 3)",
        "random": "10 random configurations with |data| up to 20",
    },
    "thorough": {
        "functor_map": "|data| 0..8 x chunk 1..4 x workers 1..4 x {list, generator}; all 2-call histories over 5 "
                       "call shapes x workers 1..3; slow value at every position",
        "mul_p_map": "|data| 0..8 x workers 1..4; |data| 40 (more than the size of the shared work queue)",
        "big_results": "as quick",
        "random": "150 random configurations with |data| up to 60",
    },
}

RULE = ("One case = one FunctorMap (with a history of calls on it) or a history of mul_p_map calls, in a fresh "
        "process. Checked: every returned sequence equals the reference, the result queue is empty after each "
        "call, the worker processes are gone after the context / the call. Trivial: all inputs empty.")


def _ref(x, big=0):
    """reference result; big > 0: a payload of `big` characters derived from f_ref(x) (far beyond the capacity of an OS pipe, so a worker
    cannot finish before its result was taken from the queue)"""
    return PU.f_ref(x) if not big else (str(PU.f_ref(x) % 10) * big)


def _f(slow_value, slow_s, big=0, every_s=0.0):
    def f(x):
        if every_s:
            time.sleep(every_s)
        if slow_value is not None and x == slow_value:
            time.sleep(slow_s)
        return _ref(x, big)
    return f


def cases(tier, seed):
    quick = tier != "thorough"
    ns, css, wss = (range(0, 6), (1, 2, 3), (1, 2, 3)) if quick else (range(0, 9), (1, 2, 3, 4), (1, 2, 3, 4))
    for n, cs, w, lazy in itertools.product(ns, css, wss, (False, True)):
        yield {"kind": "functor_map", "workers": w, "calls": [{"n": n, "cs": cs, "lazy": lazy}]}
    shapes = [{"n": 5, "cs": 1}, {"n": 0, "cs": 1}, {"n": 3, "cs": 2}, {"n": 1, "cs": 3, "lazy": True}, {"n": 2, "cs": 1}]
    if quick:
        hists = [[shapes[0], shapes[1], shapes[2]], [shapes[3], shapes[3], shapes[0]], [shapes[1], shapes[1], shapes[4]],
                 [shapes[4], shapes[0], shapes[1]]]
    else:
        hists = [list(h) for h in itertools.product(shapes, repeat=2)] + [[shapes[0], shapes[1], shapes[2]]]
    for w in (1, 2, 3):
        for h in hists:
            yield {"kind": "functor_map", "workers": w, "calls": h}
    for n, cs, w in itertools.product((4, 5), (1, 2), (2, 3)):
        for pos in ((0, n // 2, n - 1) if quick else range(n)):
            yield {"kind": "functor_map", "workers": w, "slow_value": 10 + pos, "slow_s": 0.2,
                   "calls": [{"n": n, "cs": cs}]}
    yield {"kind": "functor_map", "workers": -1, "calls": [{"n": 5, "cs": 1}, {"n": 40, "cs": 3}]}
    # the FIRST item is the slowest of a long input: everything else is held back in the reorder buffer and released in one run
    yield {"kind": "functor_map", "workers": 2, "slow_value": 10, "slow_s": 1.5, "calls": [{"n": 3000, "cs": 1}]}
    # the input is any iterable: sized ones that are not sequences (dict = its keys, set-like views, deque), tuples, iterators
    for shape in ("dict", "dict-keys", "deque", "tuple", "iter", "defaultdict"):
        for n, cs in ((5, 2), (1, 1), (0, 3)):
            yield {"kind": "functor_map", "workers": 2, "calls": [{"n": n, "cs": cs, "as": shape}]}
            yield {"kind": "mul_p_map", "workers": 2, "calls": [{"n": n, "as": shape}]}
    # mul_p_map ---------------------------------------------------------------------------------------------------
    for n, w, lazy in itertools.product(ns, wss, (False, True)):
        yield {"kind": "mul_p_map", "workers": w, "calls": [{"n": n, "lazy": lazy}]}
    for w in (1, 2, 3):
        yield {"kind": "mul_p_map", "workers": w, "calls": [{"n": 4}, {"n": 0}, {"n": 3, "lazy": True}]}
        for pos in (0, 2, 4):
            yield {"kind": "mul_p_map", "workers": w, "slow_value": 10 + pos, "slow_s": 0.2, "calls": [{"n": 5}]}
    yield {"kind": "mul_p_map", "workers": -1, "calls": [{"n": 5}]}
    # results far bigger than an OS pipe, all produced only after the whole input was distributed (a worker cannot exit before its
    # result was taken from the queue: joining before draining would block)
    for kind, n, w in (("mul_p_map", 6, 2), ("mul_p_map", 2, 3), ("functor_map", 6, 2), ("functor_map", 3, 3)):
        yield {"kind": kind, "workers": w, "big": 400000, "every_s": 0.3, "calls": [{"n": n, "cs": 1}]}
    if not quick:
        yield {"kind": "mul_p_map", "workers": 2, "calls": [{"n": 40}]}
        yield {"kind": "mul_p_map", "workers": 3, "calls": [{"n": 100, "lazy": True}]}
    rng = random.Random(seed)
    for _ in range(10 if quick else 150):
        n = rng.randint(0, 20 if quick else 60)
        kind = rng.choice(["functor_map", "mul_p_map"])
        c = {"kind": kind, "workers": rng.randint(1, 4),
             "calls": [{"n": rng.randint(0, n), "cs": rng.randint(1, 4), "lazy": rng.random() < 0.5}
                       for _ in range(rng.randint(1, 3))]}
        if n and rng.random() < 0.5:
            c["slow_value"] = 10 + rng.randrange(n)
            c["slow_s"] = 0.1
        yield c


def _fail(scenario, expected, observed):
    return {"ok": False, "trivial": False, "scenario": scenario, "expected": PU._short(expected),
            "observed": PU._short(observed)}


def _shaped(data, call):
    how = call.get("as")
    if not how:
        return data
    import collections
    vals = list(data)
    return {"dict": lambda: {v: None for v in vals}, "dict-keys": lambda: {v: None for v in vals}.keys(), "deque": lambda: collections.deque(vals),
            "tuple": lambda: tuple(vals), "iter": lambda: iter(vals),
            "defaultdict": lambda: collections.defaultdict(list, {v: [] for v in vals})}[how]()


def _values(k, call):
    base = 1000 * k + 10 if k else 10
    return list(range(base, base + call["n"]))


def _body_functor_map(case):
    import multiprocessing
    from windpyutils.parallel.pools import FunctorMap
    f = _f(case.get("slow_value"), case.get("slow_s", 0.0), case.get("big", 0), case.get("every_s", 0.0))
    m = FunctorMap(f, case["workers"])
    with m:
        for k, call in enumerate(case["calls"]):
            values = _values(k, call)
            data = _shaped(PU.make_input(values, call.get("lazy", False)), call)
            got = list(m(data, call["cs"]))
            exp = [_ref(x, case.get("big", 0)) for x in values]
            if got != exp:
                return _fail("functormap/results" if len(case["calls"]) == 1 else "functormap/call%d-results" % k,
                             {"call": k, "results": exp}, {"call": k, "results": got})
            time.sleep(0.02)
            if not m._results_queue.empty():
                return _fail("functormap/results-queue-leftover", "empty", m._results_queue.get(timeout=1))
        procs = list(m.procs)
    alive = [p.pid for p in procs if p.is_alive()] + [p.pid for p in multiprocessing.active_children()]
    if alive:
        return _fail("functormap/worker-left-running", [], alive)
    return {"ok": True, "trivial": all(c["n"] == 0 for c in case["calls"]), "scenario": "functormap/calls",
            "expected": None, "observed": None}


def _body_mul_p_map(case):
    import multiprocessing
    from windpyutils.parallel.maps import mul_p_map
    f = _f(case.get("slow_value"), case.get("slow_s", 0.0), case.get("big", 0), case.get("every_s", 0.0))
    for k, call in enumerate(case["calls"]):
        values = _values(k, call)
        data = _shaped(PU.make_input(values, call.get("lazy", False)), call)
        got = mul_p_map(f, data, case["workers"])
        exp = [_ref(x, case.get("big", 0)) for x in values]
        if got != exp:
            return _fail("mul_p_map/results" if len(case["calls"]) == 1 else "mul_p_map/call%d-results" % k,
                         {"call": k, "results": exp}, {"call": k, "results": got})
        alive = [p.pid for p in multiprocessing.active_children()]
        if alive:
            return _fail("mul_p_map/worker-left-running", [], alive)
    return {"ok": True, "trivial": all(c["n"] == 0 for c in case["calls"]), "scenario": "mul_p_map/calls",
            "expected": None, "observed": None}


def run_case(case):
    kind = case.get("kind")
    if kind == "functor_map":
        return PU.guarded(lambda: _body_functor_map(case), BODY_TIMEOUT_S, "functormap")
    if kind == "mul_p_map":
        return PU.guarded(lambda: _body_mul_p_map(case), BODY_TIMEOUT_S, "mul_p_map")
    raise ValueError("unknown kind %r" % (kind,))
