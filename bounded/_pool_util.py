"""
Shared helpers of the bounded modules that start processes / threads (C01-C05, C14, C18, C20 multi_proc).

* ``guarded(body, timeout)``      - run a scenario body under an in-process watchdog thread; a hang is
                                    reported as observed "timeout" and every descendant process is killed.
* ``kill_descendants()``          - SIGKILL every (transitive) child of this process (stray managers/workers).
* ``run_isolated(mod, case, repo, timeout)`` - execute ONE case of a module in a fresh interpreter in its own
                                    session; the whole process group is killed afterwards (or at the timeout).
* ``python _pool_util.py <ID> --tier quick --repo /repo --jobs 16``  - small local driver (used while the common
                                    driver run.py did not exist yet; same counting rules).
* pool sidecars (functors, factories, delayed feeder ...) are built lazily by ``pool_lib()`` because they
  subclass library classes and the library must be imported from the tree under test.
"""
import json
import os
import signal
import subprocess
import sys
import threading
import time

HERE = os.path.dirname(os.path.abspath(__file__))
PYTHON = "/venv/bin/python" if os.path.exists("/venv/bin/python") else sys.executable


# ---------------------------------------------------------------------------------------------------------------
# process hygiene

def _children_map():
    m = {}
    for name in os.listdir("/proc"):
        if not name.isdigit():
            continue
        try:
            with open("/proc/%s/stat" % name, "rb") as f:
                data = f.read().decode("utf-8", "replace")
            rest = data[data.rindex(")") + 2:].split()
            m.setdefault(int(rest[1]), []).append((int(name), rest[0]))
        except (OSError, ValueError):
            continue
    return m


def descendants(pid=None, include_zombies=False):
    """pids of all transitive children of ``pid`` (default: this process)"""
    pid = os.getpid() if pid is None else pid
    m = _children_map()
    out, todo = [], [pid]
    while todo:
        p = todo.pop()
        for c, state in m.get(p, []):
            todo.append(c)
            if state != "Z" or include_zombies:
                out.append(c)
    return out


def kill_descendants():
    """SIGKILL all transitive children (two passes: children of killed managers may be re-parented)."""
    killed = []
    for _ in range(3):
        ds = descendants()
        if not ds:
            break
        for p in ds:
            try:
                os.kill(p, signal.SIGKILL)
                killed.append(p)
            except OSError:
                pass
        time.sleep(0.02)
    # reap what is ours
    try:
        while True:
            pid, _ = os.waitpid(-1, os.WNOHANG)
            if pid == 0:
                break
    except ChildProcessError:
        pass
    return killed


def pid_running(pid):
    """True when the process exists and is not a zombie"""
    try:
        with open("/proc/%d/stat" % pid, "rb") as f:
            data = f.read().decode("utf-8", "replace")
        return data[data.rindex(")") + 2:].split()[0] != "Z"
    except (OSError, ValueError):
        return False


PROGRESS = {"stage": None}  # where a scenario body currently is (appended to the scenario name of a timeout)


def guarded(body, timeout, scenario="?"):
    """
    Runs ``body()`` (-> result dict) in a daemon thread. A body that does not come back within ``timeout``
    seconds is a failure with observed "timeout". Afterwards no descendant process is left.
    """
    box = {}

    def target():
        try:
            box["r"] = body()
        except BaseException as e:  # noqa
            import traceback
            box["r"] = {"ok": False, "trivial": False, "scenario": scenario + "/exception",
                        "expected": "no exception",
                        "observed": "%s: %s | %s" % (type(e).__name__, e, traceback.format_exc(limit=6)[-1500:])}

    PROGRESS["stage"] = None
    PROGRESS.pop("verdict", None)
    # private temp root of the case: scratch directories AND the socket directories (pymp-*) that multiprocessing
    # managers create end up in it, so that killing the managers leaves nothing under /tmp
    import shutil
    import tempfile
    old_tmp, old_env = tempfile.tempdir, os.environ.get("TMPDIR")
    root = tempfile.mkdtemp(prefix="l2b_root_")
    tempfile.tempdir = root
    os.environ["TMPDIR"] = root
    try:
        return _guarded(target, box, timeout, scenario)
    finally:
        tempfile.tempdir = old_tmp
        if old_env is None:
            os.environ.pop("TMPDIR", None)
        else:
            os.environ["TMPDIR"] = old_env
        kill_descendants()
        shutil.rmtree(root, ignore_errors=True)
        if os.path.exists(root):
            time.sleep(0.05)
            shutil.rmtree(root, ignore_errors=True)


def _guarded(target, box, timeout, scenario):
    th = threading.Thread(target=target, daemon=True, name="l2-case-body")
    th.start()
    deadline = time.time() + timeout
    while th.is_alive() and time.time() < deadline:
        th.join(0.2)
        # a verdict that was fixed before the context exit is not kept waiting for more than 3 s of exit
        if PROGRESS.get("stage") == "context-exit" and "verdict" in PROGRESS and \
                time.time() - PROGRESS.get("exit_t", time.time()) > 3.0:
            break
    if "r" in box:
        res = box["r"]
    else:
        stage = PROGRESS.get("stage")
        res = PROGRESS.pop("verdict", None) if stage == "context-exit" else None
    if "r" not in box and res is None:
        res = {"ok": False, "trivial": False, "scenario": scenario + "/timeout" + ("@" + stage if stage else ""),
               "expected": "terminates within %.0f s" % timeout, "observed": "timeout"}
        # let stuck library threads go so that the interpreter can exit
        for t in threading.enumerate():
            for ev in ("stop_event", "run_event"):
                e = getattr(t, ev, None)
                if isinstance(e, threading.Event):
                    e.set()
    stray = kill_descendants()
    if "r" not in box:
        try:
            import _files_util
            _files_util.remove_live_scratch()
        except Exception:  # noqa
            pass
    if stray and res.get("ok") and res.get("check_stray", False):
        res = dict(res, ok=False, scenario=scenario + "/stray-process", expected="no process left",
                   observed="%d descendant processes still alive" % len(stray))
    res.pop("check_stray", None)
    return res


# ---------------------------------------------------------------------------------------------------------------
# isolation: one case in a fresh interpreter, own session, killed as a group

def repo_of_loaded_library():
    import windpyutils
    return os.path.dirname(os.path.dirname(os.path.abspath(windpyutils.__file__)))


def run_isolated(mod_name, case, repo=None, timeout=30.0):
    """Runs ``<mod_name>.run_case(case)`` in a fresh child (own session) and returns its result dict."""
    if repo is None:
        repo = repo_of_loaded_library()
    env = dict(os.environ, L2_CHILD="1", PYTHONDONTWRITEBYTECODE="1")
    p = subprocess.Popen([PYTHON, os.path.join(HERE, "_pool_util.py"), "--child", mod_name, repo],
                         stdin=subprocess.PIPE, stdout=subprocess.PIPE, stderr=subprocess.PIPE,
                         start_new_session=True, env=env, cwd="/")
    try:
        out, err = p.communicate(json.dumps(case).encode(), timeout=timeout)
        timed_out = False
    except subprocess.TimeoutExpired:
        timed_out = True
        out, err = b"", b""
    finally:
        try:
            os.killpg(p.pid, signal.SIGKILL)
        except OSError:
            pass
        try:
            p.wait(timeout=5)
        except Exception:  # noqa
            pass
        for s in (p.stdout, p.stderr, p.stdin):
            try:
                s.close()
            except Exception:  # noqa
                pass
    if timed_out:
        return {"ok": False, "trivial": False, "scenario": "%s/timeout" % case.get("kind", "?"),
                "expected": "terminates within %.0f s" % timeout, "observed": "timeout"}
    marker = b"\n@@L2RESULT@@"
    if marker in out:
        try:
            return json.loads(out[out.rindex(marker) + len(marker):].decode())
        except ValueError:
            pass
    return {"ok": False, "trivial": False, "scenario": "%s/harness-crash" % case.get("kind", "?"),
            "expected": "a result", "observed": "child exit %s, stderr: %s" % (p.returncode, err.decode("utf-8", "replace")[-1500:])}


def _child_main(mod_name, repo):
    sys.path.insert(0, HERE)
    sys.path.insert(0, repo)
    import importlib
    import windpyutils
    assert os.path.abspath(windpyutils.__file__).startswith(os.path.abspath(repo)), windpyutils.__file__
    case = json.loads(sys.stdin.read())
    mod = importlib.import_module(mod_name)
    res = mod.run_case(case)
    sys.stdout.write("\n@@L2RESULT@@" + json.dumps(res, default=repr))
    sys.stdout.flush()
    os._exit(0)


# ---------------------------------------------------------------------------------------------------------------
# sidecars for the process pools (C01-C05)

_POOL_LIB = {}


def f_ref(x):
    """reference functor: injective on the ints used, so lost / duplicated / reordered results show; container-valued elements
    (an input element may itself be a list or a tuple) are mapped elementwise and keep their type"""
    if isinstance(x, list):
        return [f_ref(e) for e in x]
    if isinstance(x, tuple):
        return tuple(f_ref(e) for e in x)
    return 3 * x + 1


def _freeze(x):
    return tuple(_freeze(e) for e in x) if isinstance(x, (list, tuple)) else x


def pool_lib():
    if _POOL_LIB:
        return _POOL_LIB["ns"]
    import math
    import windpyutils.parallel.own_proc_pools as P

    class Fn(P.FunctorWorker):
        """computes f_ref; optional sleep before the item with value ``slow_value``"""

        def __init__(self, quota=math.inf, slow_value=None, slow_s=0.0, item_s=0.0, wid_delay=0.0):
            super().__init__(quota)
            self.slow_value = slow_value
            self.slow_s = slow_s
            self.item_s = item_s
            self.wid_delay = wid_delay

        def begin(self):
            if self.wid_delay and self.replace_queue is not None:
                # forced schedule: the retiring worker is descheduled between delivering its last result and
                # posting its wid on the replace queue (wrapper installed in the worker process, no library edit)
                self.replace_queue = _SlowPut(self.replace_queue, self.wid_delay)

        def __call__(self, x):
            if self.item_s:
                time.sleep(self.item_s)
            if self.slow_value is not None and x == self.slow_value:
                time.sleep(self.slow_s)
            return f_ref(x)

    class _SlowPut:
        def __init__(self, q, delay):
            self._q = q
            self._delay = delay

        def put(self, *a, **k):
            time.sleep(self._delay)
            return self._q.put(*a, **k)

        def __getattr__(self, name):
            return getattr(self._q, name)

    class Fac(P.FunctorWorkerFactory):
        """factory; from the ``slow_from``-th creation on, create() sleeps ``delay`` seconds first"""

        def __init__(self, quota=math.inf, delay=0.0, slow_from=None, slow_value=None, slow_s=0.0, quotas=None,
                     item_s=0.0, wid_delay=0.0):
            self.wid_delay = wid_delay
            self.quota = quota
            self.quotas = quotas  # quota of the k-th created worker (the last entry repeats), overrides quota
            self.delay = delay
            self.slow_from = slow_from
            self.n = 0
            self.slow_value = slow_value
            self.slow_s = slow_s
            self.item_s = item_s

        def create(self):
            self.n += 1
            if self.slow_from is not None and self.n >= self.slow_from:
                time.sleep(self.delay)
            q = self.quota
            if self.quotas:
                q = self.quotas[min(self.n, len(self.quotas)) - 1]
                q = math.inf if q is None else q
            return Fn(q, self.slow_value, self.slow_s, self.item_s, self.wid_delay)

    def delayed_feeder(delay):
        class Slow(P.FunctorPool.SendWorkThread):
            def run(self):
                time.sleep(delay)
                super().run()
        return Slow

    class NS:
        pass

    ns = NS()
    ns.P, ns.Fn, ns.Fac, ns.delayed_feeder = P, Fn, Fac, delayed_feeder
    _POOL_LIB["ns"] = ns
    return ns


def make_input(values, lazy=False, delays=None, end_delay=0.0):
    """
    The input iterable of a call: a list, or (lazy) a generator that sleeps ``delays[k]`` before item k and
    ``end_delay`` before signalling exhaustion.
    """
    if not lazy and not delays and not end_delay:
        return list(values)

    def gen():
        for k, v in enumerate(values):
            if delays and k < len(delays) and delays[k]:
                time.sleep(delays[k])
            yield v
        if end_delay:
            time.sleep(end_delay)
    return gen()


def chunks_of(values, cs):
    return [values[i:i + cs] for i in range(0, len(values), cs)]


def unordered_ok(values, cs, got):
    """got must be the concatenation of [f(x) for x in chunk] over a permutation of the chunks"""
    pending = {}
    for ch in chunks_of(values, cs):
        pending.setdefault(tuple(_freeze(f_ref(x)) for x in ch), 0)
        pending[tuple(_freeze(f_ref(x)) for x in ch)] += 1
    i = 0
    got = [_freeze(g) for g in got]
    while i < len(got):
        for ch in list(pending):
            if tuple(got[i:i + len(ch)]) == ch:
                pending[ch] -= 1
                if pending[ch] == 0:
                    del pending[ch]
                i += len(ch)
                break
        else:
            return False
    return not pending


def drain_payload(q, settle=0.1):
    """items with payload left on a (manager) queue after a short settle time"""
    import queue as _q
    time.sleep(settle)
    left = []
    for _ in range(1000):
        try:
            left.append(q.get(block=False))
        except _q.Empty:
            break
        except Exception as e:  # noqa
            left.append("error: %r" % (e,))
            break
    return [x for x in left if x is not None]


def make_pool(cfg):
    """
    cfg: {"pool": "functor"|"factory", "workers": w, "wq": None|int|float, "rq": None|int, "quota": None|k,
          "slow_value": v, "slow_s": s, "item_s": s (every item), "factory_delay": d, "factory_slow_from": n,
          "quotas": [quota of the k-th created worker, last repeats], "wait_ready": bool,
          "wid_delay": s (a retiring worker posts its wid s seconds late)}
    """
    import math
    L = pool_lib()
    quota = math.inf if cfg.get("quota") is None else cfg["quota"]
    kw = {}
    if "wq" in cfg:
        kw["work_queue_maxsize"] = cfg["wq"]
    if "rq" in cfg:
        kw["results_queue_maxsize"] = cfg["rq"]
    if cfg.get("pool", "functor") == "functor":
        ws = [L.Fn(quota, cfg.get("slow_value"), cfg.get("slow_s", 0.0), cfg.get("item_s", 0.0))
              for _ in range(cfg["workers"])]
        return L.P.FunctorPool(ws, **kw)
    fac = L.Fac(quota, cfg.get("factory_delay", 0.0), cfg.get("factory_slow_from"), cfg.get("slow_value"),
                cfg.get("slow_s", 0.0), cfg.get("quotas"), cfg.get("item_s", 0.0), cfg.get("wid_delay", 0.0))
    return L.P.FactoryFunctorPool(cfg["workers"], fac, **kw)


def do_call(pool, call):
    """
    call: {"ordered": bool, "n": len, "cs": chunk size, "base": first value, "lazy": bool, "delays": [...],
           "end_delay": s}
    -> (values, results)
    """
    values = list(range(call.get("base", 10), call.get("base", 10) + call["n"]))
    if call.get("dups"):
        values = [v // 2 for v in values]
    if call.get("elem") == "list":          # list-valued elements, one of them empty
        values = [[] if k == 1 else ([v] if v % 2 else [v, v + 100]) for k, v in enumerate(values)]
    elif call.get("elem") == "tuple":
        values = [(v,) if v % 2 else (v, v + 100) for v in values]
    elif call.get("elem") == "equal-but-distinct":      # elements that compare equal without being interchangeable: 1 / True / 1.0 ...
        values = ([1, True, 1.0, 0, False, -0.0, (1,), (True,), 2, 2.0] * 2)[:call["n"]]
    data = make_input(values, call.get("lazy", False), call.get("delays"), call.get("end_delay", 0.0))
    kind = call.get("container")
    if kind == "deque":                 # a Sequence that supports integer indexing only (no slices)
        import collections
        data = collections.deque(values)
    elif kind == "tuple":
        data = tuple(values)
    elif kind == "range":
        data = range(values[0], values[0] + len(values)) if values else range(0)
    elif kind == "circular":            # the library's own ring buffer: a Sequence without slice support
        from windpyutils.structures.circular_buffer import CircularBuffer
        cb = CircularBuffer(max(1, len(values)))
        for v in values:
            cb.put(v)
        data = cb
    fn = pool.imap if call.get("ordered", True) else pool.imap_unordered
    return values, list(fn(data, call["cs"]))


def check_call(values, call, got):
    """-> None or (expected, observed)"""
    exp = [f_ref(x) for x in values]
    if call.get("elem") == "equal-but-distinct":
        # f(x) of equal-but-distinct elements are equal-but-distinct too (4 / 4 / 4.0): compare with the types
        tr = lambda r: [(type(x).__name__, repr(x)) for x in r]  # noqa: E731
        if call.get("ordered", True):
            return None if tr(got) == tr(exp) else (tr(exp), tr(got))
        return None if sorted(tr(got)) == sorted(tr(exp)) else ({"multiset": sorted(tr(exp))}, sorted(tr(got)))
    if call.get("ordered", True):
        if got != exp:
            return exp, got
    elif not unordered_ok(values, call["cs"], got):
        return {"multiset": sorted(exp, key=repr), "chunks": [[f_ref(x) for x in c] for c in chunks_of(values, call["cs"])]}, got
    return None


def pool_history_body(case, prefix, trivial_if_empty=True, judge_exit=True):
    """
    Generic scenario of C01/C02/C03: one pool, a history of fully consumed calls.

    case: {"kind": str, "cfg": pool cfg (make_pool), "calls": [call (do_call) + optional "feeder_delay",
           "pause_after"], ...}
    Checks per call: results (ordered: equality, unordered: permutation of chunks), no payload left on the results
    queue, nothing left on the work queue; at the end: the context is left and no worker is running.
    judge_exit=False (C01): the verdict is fixed before the context is left; if leaving the context then hangs, the
    watchdog returns that verdict with a note (termination of the exit is the business of C02).
    """
    import multiprocessing
    L = pool_lib()
    name = "%s/%s" % (prefix, case["kind"])

    def fail(what, expected, observed):
        return {"ok": False, "trivial": False, "scenario": name + "/" + what, "expected": _short(expected),
                "observed": _short(observed)}

    PROGRESS["stage"] = "pool-construction"
    pool = make_pool(case["cfg"])
    t0 = time.time()
    timing = []
    PROGRESS["stage"] = "context-enter"
    with pool:
        if case["cfg"].get("wait_ready"):
            pool.until_all_ready()
        for k, call in enumerate(case["calls"]):
            PROGRESS["stage"] = "call%d" % k
            if call.get("feeder_delay"):
                pool.SendWorkThread = L.delayed_feeder(call["feeder_delay"])
            elif "SendWorkThread" in pool.__dict__:
                del pool.SendWorkThread
            tc = time.time()
            values, got = do_call(pool, call)
            timing.append(round(time.time() - tc, 2))
            bad = check_call(values, call, got)
            if bad:
                return fail("call%d-results" % k if len(case["calls"]) > 1 else "results",
                            {"call": k, "results": bad[0]}, {"call": k, "results": bad[1]})
            left = drain_payload(pool._results_queue, call.get("settle", 0.05))
            if left:
                return fail("results-queue-leftover", {"call": k, "left": []}, {"call": k, "left": left})
            wleft = drain_payload(pool._work_queue, 0.0)
            if wleft:
                return fail("work-queue-leftover", {"call": k, "left": []}, {"call": k, "left": wleft})
            if call.get("pause_after"):
                time.sleep(call["pause_after"])
        procs = list(pool.procs)
        n_items = sum(c["n"] for c in case["calls"])
        if not judge_exit:
            PROGRESS["verdict"] = {"ok": True, "trivial": trivial_if_empty and n_items == 0, "scenario": name,
                                   "expected": None,
                                   "observed": {"call_s": timing, "note": "leaving the pool context did not terminate "
                                                                          "(not judged here, see C02)"}}
        PROGRESS["exit_t"] = time.time()
        PROGRESS["stage"] = "context-exit"
    PROGRESS["stage"] = "after-exit"
    PROGRESS.pop("verdict", None)
    alive = [p.pid for p in procs if p.is_alive()]
    workers_left = [p for p in multiprocessing.active_children() if isinstance(p, L.P.BaseFunctorWorker)]
    if alive or workers_left:
        return fail("worker-left-running", [], alive + [p.pid for p in workers_left])
    n_items = sum(c["n"] for c in case["calls"])
    return {"ok": True, "trivial": trivial_if_empty and n_items == 0, "scenario": name, "expected": None,
            "observed": {"call_s": timing, "total_s": round(time.time() - t0, 2)}}


def _short(x, n=600):
    s = x if isinstance(x, (dict, list, int, float, type(None))) else repr(x)
    if len(repr(s)) > n:
        return repr(s)[:n] + "..."
    return s


# ---------------------------------------------------------------------------------------------------------------
# local driver

def _local_worker(args):
    mod_name, case, repo, isolate, timeout = args
    if isolate:
        t0 = time.time()
        r = run_isolated(mod_name, case, repo, timeout)
        r["_t"] = time.time() - t0
        return r
    import importlib
    mod = importlib.import_module(mod_name)
    t0 = time.time()
    try:
        r = mod.run_case(case)
    except Exception as e:  # noqa
        import traceback
        r = {"ok": False, "trivial": False, "scenario": "harness-crash", "expected": None,
             "observed": traceback.format_exc()[-2000:]}
    r["_t"] = time.time() - t0
    return r


def _local_init(repo):
    sys.path.insert(0, HERE)
    sys.path.insert(0, repo)


def local_main(argv):
    import argparse
    import importlib
    import collections
    ap = argparse.ArgumentParser()
    ap.add_argument("mod")
    ap.add_argument("--tier", default="quick")
    ap.add_argument("--seed", type=int, default=0)
    ap.add_argument("--repo", default="/repo")
    ap.add_argument("--jobs", type=int, default=8)
    ap.add_argument("--replay")
    ap.add_argument("--limit", type=int)
    ap.add_argument("--out")
    a = ap.parse_args(argv)
    _local_init(a.repo)
    mod = importlib.import_module(a.mod)
    isolate = bool(getattr(mod, "RUN_IN_SUBPROCESS", False))
    timeout = float(getattr(mod, "CASE_TIMEOUT_S", 30))
    if a.replay:
        case = json.load(open(a.replay))
        case = case.get("case", case)
        r = _local_worker((a.mod, case, a.repo, isolate, timeout))
        print(json.dumps(r, indent=1, default=repr, ensure_ascii=False))
        return 0
    t0 = time.time()
    n = 0
    distinct = set()
    fails = []
    scen = collections.Counter()
    slow = []

    def gen():
        for k, c in enumerate(mod.cases(a.tier, a.seed)):
            if a.limit and k >= a.limit:
                break
            yield (a.mod, c, a.repo, isolate, timeout)

    if isolate:
        from concurrent.futures import ThreadPoolExecutor
        ex = ThreadPoolExecutor(a.jobs)
        it = ex.map(_local_worker, gen())
        todo = gen()
    else:
        import multiprocessing
        ctx = multiprocessing.get_context("fork")
        ex = ctx.Pool(a.jobs, initializer=_local_init, initargs=(a.repo,))
        it = ex.imap(_local_worker, gen(), chunksize=16)
        todo = gen()
    for args, r in zip(todo, it):
        n += 1
        case = args[1]
        scen[r.get("scenario")] += 1
        if not r.get("trivial"):
            distinct.add(json.dumps(case, sort_keys=True))
        if not r.get("ok"):
            fails.append({"scenario": r.get("scenario"), "case": case, "expected": r.get("expected"),
                          "observed": r.get("observed")})
        slow.append((r.get("_t", 0), json.dumps(case)[:150]))
    wall = time.time() - t0
    if isolate:
        ex.shutdown()
    else:
        ex.close()
        ex.join()
    slow.sort(reverse=True)
    print("module %s tier %s repo %s: evaluations %d distinct_nontrivial %d failures %d wall %.1f s" % (
        a.mod, a.tier, a.repo, n, len(distinct), len(fails), wall))
    print("scenarios:", dict(scen))
    print("slowest:", slow[:3])
    by = collections.Counter(f["scenario"] for f in fails)
    print("failures by scenario:", dict(by))
    seen = set()
    for f in fails:
        if f["scenario"] in seen:
            continue
        seen.add(f["scenario"])
        print("FAIL", json.dumps(f, default=repr, ensure_ascii=False)[:1200])
    if a.out:
        json.dump({"property": a.mod, "evaluations": n, "distinct_nontrivial": len(distinct), "failures": fails[:20],
                   "wall_s": wall}, open(a.out, "w"), default=repr, ensure_ascii=False, indent=1)
    return 0


if __name__ == "__main__":
    if len(sys.argv) >= 4 and sys.argv[1] == "--child":
        _child_main(sys.argv[2], sys.argv[3])
    else:
        sys.exit(local_main(sys.argv[1:]))
