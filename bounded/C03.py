"""
C03 - a pool stays correct across consecutive calls and across worker replacement (bounded layer, real processes).

One pool instance, a history of fully consumed imap / imap_unordered calls; every call is compared with its own
reference ``[f(x) for x in data_k]`` (distinct value ranges per call, so a result leaking from an earlier call is
visible), the results queue must carry no payload between calls, every call must terminate (watchdog), and no worker
may be left when the context is left. With FactoryFunctorPool and quota k the calls are sized so that workers retire
in the middle of a call, exactly at the end of a call, and never.
"""
import itertools
import os
import random
import sys

sys.path.insert(0, os.path.dirname(os.path.abspath(__file__)))
import _pool_util as PU  # noqa: E402

RUN_IN_SUBPROCESS = True
CASE_TIMEOUT_S = 30
BODY_TIMEOUT_S = 20

# call alphabet: (ordered, n, chunk size, lazy); n = "q" means quota * workers chunks of size 1 (all workers retire
# exactly at the end of the call)
CALLS = {
    "O5": {"ordered": True, "n": 5, "cs": 1},
    "U4": {"ordered": False, "n": 4, "cs": 2},
    "E": {"ordered": True, "n": 0, "cs": 1},
    "EU": {"ordered": False, "n": 0, "cs": 2},
    "O1": {"ordered": True, "n": 1, "cs": 3},
    "L3": {"ordered": True, "n": 3, "cs": 1, "lazy": True},
    "Q": {"ordered": True, "n": "q", "cs": 1},
    "QU": {"ordered": False, "n": "q", "cs": 1},
}
POOLS = [
    {"pool": "functor", "workers": 2, "wq": 1.0, "rq": None},
    {"pool": "factory", "workers": 1, "wq": 1.0, "rq": None, "quota": 1},
    {"pool": "factory", "workers": 2, "wq": 1.0, "rq": None, "quota": 1},
    {"pool": "factory", "workers": 2, "wq": 1.0, "rq": 1, "quota": 2},
    {"pool": "factory", "workers": 1, "wq": None, "rq": None, "quota": 2},
]

BOUNDS = {
    "quick": {
        "pools": POOLS,
        "call_alphabet": CALLS,
        "histories": "all histories of 2 calls over {O5, U4, E, O1, Q} (25) x 5 pools; 3-call histories: the 25 "
                     "2-call histories each extended by the call that differs most (rotating), x 3 quota pools; "
                     "+ 30 random histories of 3..4 calls over the full alphabet",
        "forced_schedules": ["slow factory (create() sleeps 0.5 s from the 2nd worker on), 1 worker, quota 1, two "
                             "consecutive calls with a pause in between (DESIGN §7 F3)",
                             "the same with 2 workers / unordered second call / quota 2 with exact retirement",
                             "stop during replacement: 2 workers with quotas 1 and 2, items of 0.15 s, 3 chunks -> "
                             "worker 0 retires mid-call, create() of its successor sleeps 1.0 s and is still running "
                             "when the call ends; second call of 3..4 chunks needs further replacements "
                             "(deterministic form of F3)",
                             "exact retirement of all workers at the end of call 0 with their wids posted 0.5 s "
                             "late (after the replace thread was stopped), then a call that needs them replaced",
                             "delayed feeder in the first call, normal second call (F1 leak into the next call)",
                             "slow exhaustion in the first call, then a second call"],
    },
    "thorough": {
        "pools": POOLS,
        "call_alphabet": CALLS,
        "histories": "all histories of <= 3 calls over {O5, U4, E, O1, Q, L3} x 5 pools (5 x 258) + 300 random "
                     "histories of 3..5 calls",
        "forced_schedules": "as quick with factory delays 0.2 / 0.5 / 1.0 s and pauses 0 / 0.5 / 1.5 s",
    },
}

RULE = ("One case = (pool configuration, history of calls), run on ONE pool in a fresh process. Call k uses the "
        "values 100k+10 .. so results of different calls cannot be confused. Checked after every call: results, "
        "no payload on the results queue, nothing on the work queue; at the end: context left, no worker alive. "
        "A hang is a failure with observed 'timeout'. Trivial: all calls empty.")


def _materialise(cfg, names, extra=None):
    calls = []
    for k, nm in enumerate(names):
        c = dict(CALLS[nm])
        if c["n"] == "q":
            c["n"] = (cfg.get("quota") or 2) * cfg["workers"]
        c["base"] = 100 * k + 10
        if extra and k in extra:
            c.update(extra[k])
        calls.append(c)
    return calls


def cases(tier, seed):
    quick = tier != "thorough"
    core = ["O5", "U4", "E", "O1", "Q"] if quick else ["O5", "U4", "E", "O1", "Q", "L3"]
    # forced schedules first (regressions of DESIGN §7 F3 / F1 / F2 across calls) ----------------------------------
    fdelays, pauses = ([0.5], [1.5]) if quick else ([0.2, 0.5, 1.0], [0.0, 0.5, 1.5])
    # deterministic version of F3: worker 0 (quota 1) retires in the MIDDLE of call 0, its replacement is still being
    # created (slow factory) when the call ends, so the replace thread is stopped while busy; worker 1 (quota 2)
    # retires at the end. Call 1 needs three more replacements.
    for d, ordered, n2 in itertools.product(fdelays[-1:] if quick else fdelays, (True, False), (3, 4)):
        yield {"kind": "stop-during-replacement",
               "cfg": {"pool": "factory", "workers": 2, "wq": 1.0, "rq": None, "quotas": [1, 2, 1], "item_s": 0.15,
                       "factory_delay": d + 0.5, "factory_slow_from": 3, "wait_ready": True},
               "calls": [{"ordered": True, "n": 3, "cs": 1, "base": 10},
                         {"ordered": ordered, "n": n2, "cs": 1, "base": 110}]}
    for d, pause in itertools.product(fdelays, pauses):
        base = {"pool": "factory", "wq": 1.0, "rq": None, "factory_delay": d, "factory_slow_from": 2}
        # the native reproducer: imap([3,4],1) then imap([4,5,6],1), 1 worker, quota 1
        yield {"kind": "slow-factory", "cfg": dict(base, workers=1, quota=1, factory_slow_from=2),
               "calls": [{"ordered": True, "n": 2, "cs": 1, "base": 10, "pause_after": pause},
                         {"ordered": True, "n": 3, "cs": 1, "base": 110}]}
        yield {"kind": "slow-factory", "cfg": dict(base, workers=1, quota=1, factory_slow_from=2),
               "calls": [{"ordered": True, "n": 1, "cs": 1, "base": 10, "pause_after": pause},
                         {"ordered": False, "n": 2, "cs": 1, "base": 110, "pause_after": pause},
                         {"ordered": True, "n": 2, "cs": 2, "base": 210}]}
        yield {"kind": "slow-factory", "cfg": dict(base, workers=2, quota=1, factory_slow_from=3),
               "calls": [{"ordered": True, "n": 2, "cs": 1, "base": 10, "pause_after": pause},
                         {"ordered": False, "n": 4, "cs": 1, "base": 110}]}
        yield {"kind": "slow-factory", "cfg": dict(base, workers=2, quota=2, factory_slow_from=3),
               "calls": [{"ordered": True, "n": 4, "cs": 1, "base": 10, "pause_after": pause},
                         {"ordered": True, "n": 0, "cs": 1, "base": 110},
                         {"ordered": True, "n": 5, "cs": 1, "base": 210}]}
    # exact retirement with the wids arriving after the call has ended: the next call must replace the workers
    for wq, pause in itertools.product((1.0, None), (0.0, 0.8)):
        yield {"kind": "retire-at-end-late-wid",
               "cfg": {"pool": "factory", "workers": 2, "wq": wq, "rq": None, "quota": 1, "wid_delay": 0.5,
                       "wait_ready": True, "item_s": 0.05},
               "calls": [{"ordered": True, "n": 2, "cs": 1, "base": 10, "pause_after": pause},
                         {"ordered": False, "n": 3, "cs": 1, "base": 110}]}
    for ordered in (True, False):
        yield {"kind": "delayed-feeder-then-call", "cfg": POOLS[0],
               "calls": [{"ordered": ordered, "n": 5, "cs": 2, "base": 10, "feeder_delay": 0.3, "settle": 0.3},
                         {"ordered": True, "n": 3, "cs": 1, "base": 110}]}
        yield {"kind": "slow-exhaustion-then-call", "cfg": POOLS[2],
               "calls": [{"ordered": ordered, "n": 2, "cs": 1, "base": 10, "lazy": True, "end_delay": 0.5},
                         {"ordered": not ordered, "n": 3, "cs": 1, "base": 110}]}
    # histories ---------------------------------------------------------------------------------------------------
    if quick:
        for cfg in POOLS:
            for names in itertools.product(core, repeat=2):
                yield {"kind": "history", "cfg": cfg, "names": list(names), "calls": _materialise(cfg, names)}
        k = 0
        for cfg in POOLS[1:4]:
            for names in itertools.product(core, repeat=2):
                third = core[(k + 2) % len(core)]
                k += 1
                yield {"kind": "history", "cfg": cfg, "names": list(names) + [third],
                       "calls": _materialise(cfg, list(names) + [third])}
    else:
        for cfg in POOLS:
            for n in (1, 2, 3):
                for names in itertools.product(core, repeat=n):
                    yield {"kind": "history", "cfg": cfg, "names": list(names), "calls": _materialise(cfg, names)}
    rng = random.Random(seed)
    allc = list(CALLS)
    for _ in range(30 if quick else 300):
        cfg = dict(rng.choice(POOLS))
        if cfg["pool"] == "factory":
            cfg["quota"] = rng.choice([1, 2, 3])
        names = [rng.choice(allc) for _ in range(rng.randint(3, 4 if quick else 5))]
        extra = {k: {"pause_after": rng.choice([0.0, 0.0, 0.3])} for k in range(len(names))}
        yield {"kind": "history", "cfg": cfg, "names": names, "calls": _materialise(cfg, names, extra)}


def run_case(case):
    return PU.guarded(lambda: PU.pool_history_body(case, "calls"), BODY_TIMEOUT_S, "calls/" + case.get("kind", "?"))
