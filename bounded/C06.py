"""C06 - LRUCache is a bounded mapping that evicts exactly the least recently used key.

Reference model: collections.OrderedDict, most recently used key first, written from the property
statement (a use is a store or a successful lookup; a membership test may or may not count; what the
bulk views do to the recency order is not specified, only that they terminate and agree with the content).
"""
import collections, random
from _util import at, take, ok, Fail, check, call, histories

from windpyutils.structures.caches import LRUCache

KEYS = "abcd"
CORE = ("set", "get", "del", "in")                       # per key
CORE0 = ("views",)                                       # keys()+values()+items()+== in one step
MIX = ("set", "get", "mget", "pop", "setdefault", "update", "del")   # per key
MIX0 = ("keys", "values", "items", "eq", "popitem", "clear")

BOUNDS = {
    "quick": {"capacities": [1, 2, 3], "keys": "capacity+1 (a..d)", "values": "unique per store",
              "core_history_len": {"1": 6, "2": 6, "3": 5}, "core_ops": list(CORE) + list(CORE0),
              "mixin_history_len": {"1": 4, "2": 4, "3": 4}, "mixin_ops": list(MIX) + list(MIX0),
              "random": {"count": 3000, "len": "6..40", "capacities": "1..8", "keys": "ints/strs/tuples/None, <=10",
                         "values": "small alphabet with repeats"}},
    "thorough": {"capacities": [1, 2, 3], "keys": "capacity+1 (a..d)", "values": "unique per store",
                 "core_history_len": {"1": 7, "2": 6, "3": 6}, "core_ops": list(CORE) + list(CORE0),
                 "mixin_history_len": {"1": 5, "2": 5, "3": 4}, "mixin_ops": list(MIX) + list(MIX0),
                 "random": {"count": 60000, "len": "6..60", "capacities": "1..8", "keys": "<=10", "values": "repeats"}},
}
RULE = ("All operation sequences up to the stated length for every capacity, over capacity+1 keys, up to renaming of "
        "keys (a key may be touched only when all alphabetically earlier keys were touched before); the value of a "
        "store is unique to its position. Two families: core ops (store/lookup/delete/membership/all-views) and "
        "Mapping-mixin ops (keys/values/items/==/get/pop/popitem/clear/update/setdefault). After EVERY operation: "
        "len<=capacity, list(cache) == reference order, dict/list internal agreement incl. backward links. Then a "
        "seeded random sample of longer histories over heterogeneous keys, repeated values and capacities up to 8. "
        "A case is non-trivial when it stores at least once; distinct = distinct canonical JSON.")


def cases(tier, seed):
    b = BOUNDS[tier]
    for cap in b["capacities"]:
        n = b["core_history_len"]
        n = n[str(cap)] if isinstance(n, dict) else n
        for ops in histories(n, CORE, CORE0, KEYS[:cap + 1]):
            yield {"kind": "history", "cap": cap, "ops": ops}
        for ops in histories(b["mixin_history_len"][str(cap)], MIX, MIX0, KEYS[:cap + 1]):
            if any(o[0] not in ("set", "get", "del") for o in ops):   # the rest is in the core family
                yield {"kind": "history", "cap": cap, "ops": ops}
    # == between two caches (same content / same or different access history / different content) and update() with every short
    # sequence of pairs incl. REPEATED keys, as pairs, as a dict and as keyword arguments (reference: the stores in order)
    import itertools
    for cap in (1, 2, 3):
        for n in range(0, 4):
            for keys in itertools.product("pq" if n == 3 else "pqr", repeat=n):
                yield {"kind": "update-seq", "cap": cap, "pre": ["o", "p"][:cap], "keys": list(keys)}
        for fill in ([], ["a"], ["a", "b"], ["a", "b", "c"]):
            yield {"kind": "eq2", "cap": cap, "fill": fill}
    rng = random.Random(seed)
    pool = [0, 1, 2, 3, "a", "b", "", None, (1, 2), ("a",), -1, 10 ** 20, 2.5, "True", frozenset()]
    allops = sorted(set(CORE + MIX)) * 2 + list(CORE0 + MIX0)
    for _ in range(b["random"]["count"]):
        cap = rng.randint(1, 8)
        keys = rng.sample(range(len(pool)), rng.randint(1, 10))
        hi = 40 if tier == "quick" else 60
        ops = []
        for _ in range(rng.randint(6, hi)):
            op = rng.choice(allops)
            o = [op] if op in CORE0 + MIX0 else [op, rng.choice(keys)]
            if op in ("set", "setdefault", "update"):
                o.append(rng.choice(["x", "y", 0, None]))
            ops.append(o)
        yield {"kind": "history", "cap": cap, "ops": ops, "keypool": True}


# ---------------------------------------------------------------------------------------------------------------
_POOL = [0, 1, 2, 3, "a", "b", "", None, (1, 2), ("a",), -1, 10 ** 20, 2.5, "True", frozenset()]
_MISSING = "<missing>"


def _internal(c, ref):
    """dict and recency list describe the same entries; links consistent in both directions."""
    at("lru/internal-agreement")
    lim = len(ref) + 2
    nodes, n = [], c.list.head
    while n is not None and len(nodes) < lim:
        nodes.append(n)
        n = n.next_node
    back, n = [], c.list.tail
    while n is not None and len(back) < lim:
        back.append(n)
        n = n.prev_node
    exp = [[k, v] for k, v in ref.items()]
    obs = [list(n.data) for n in nodes]
    check(obs == exp, "lru/internal-agreement", {"list": exp}, {"list": obs})
    check([id(x) for x in reversed(back)] == [id(x) for x in nodes], "lru/internal-agreement",
          "backward walk = reversed forward walk", {"forward": obs, "backward": [list(n.data) for n in back]})
    check(len(c.cache) == len(ref) and all(k in c.cache and c.cache[k] is nd for (k, _), nd in zip(ref.items(), nodes)),
          "lru/internal-agreement", {"dict-keys": list(ref)}, {"dict-keys": list(c.cache)})


def _resync(c, ref, scenario):
    """After an operation whose effect on recency is unspecified: same content, adopt the observed order."""
    order = take(iter(c), len(ref) + 1)
    check(sorted(map(repr, order)) == sorted(map(repr, ref)) and len(set(map(repr, order))) == len(order),
          scenario, {"keys (any order)": list(ref)}, {"keys": order})
    vals = dict(ref)
    ref.clear()
    for k in order:
        ref[k] = vals[k]


def _store(c, ref, cap, k, v, scenario):
    """Reference effect of one store + victim check."""
    before = list(ref)
    new_full = k not in ref and len(ref) >= cap
    call(scenario, c.__setitem__, k, v)
    if k in ref:
        ref[k] = v
    else:
        if new_full:
            victim = before[-1]
            after = take(iter(c), cap + 2)
            gone = [x for x in before if x not in after]
            check(gone == [victim], "lru/evict-victim", {"removed": [victim]}, {"removed": gone, "keys": after})
            del ref[victim]
        ref[k] = v
    ref.move_to_end(k, last=False)


def _hit(ref, k):
    ref.move_to_end(k, last=False)
    return ref[k]


def _ref_store(ref, cap, k, v):
    if k not in ref and len(ref) >= cap:
        ref.popitem(last=True)
    ref[k] = v
    ref.move_to_end(k, last=False)


def _run_special(case):
    cap = case["cap"]
    try:
        if case["kind"] == "update-seq":
            pairs = [(k, "u%d" % i) for i, k in enumerate(case["keys"])]
            forms = [("pairs", lambda c: c.update(list(pairs))), ("iterator", lambda c: c.update(iter(pairs)))]
            if len(set(case["keys"])) == len(case["keys"]):
                forms += [("dict", lambda c: c.update(dict(pairs))), ("kwargs", lambda c: c.update(**dict(pairs)))]
            for form, do in forms:
                c = call("lru/construct", LRUCache, cap)[1]
                ref = collections.OrderedDict()
                for j, k in enumerate(case["pre"]):
                    c[k] = "s%d" % j
                    _ref_store(ref, cap, k, "s%d" % j)
                call("lru/update-terminate", do, c)
                for k, v in pairs:
                    _ref_store(ref, cap, k, v)
                order = call("lru/iteration-terminate", lambda: take(iter(c), len(ref) + 1))[1]
                check(order == list(ref), "lru/update", {"keys": list(ref)}, {"form": form, "pairs": pairs, "order": order})
                vals = [c.cache[k].data[1] for k in order if k in c.cache]
                check(vals == list(ref.values()), "lru/update", {"values": list(ref.values())}, {"form": form, "pairs": pairs, "values": vals})
                _internal(c, ref)
                # a following store evicts the reference victim
                _store(c, ref, cap, "z", "last", "lru/store")
                order = take(iter(c), len(ref) + 1)
                check(order == list(ref), "lru/update", {"keys after one more store": list(ref)}, {"form": form, "pairs": pairs, "order": order})
            return ok("lru/update-seq", trivial=False)
        if case["kind"] == "eq2":
            fill = case["fill"][:cap]
            def mk(order, vals=None):
                c = LRUCache(cap)
                for k in order:
                    c[k] = (vals or {}).get(k, "v" + k)
                return c
            a, b = mk(fill), mk(fill)
            r = call("lru/eq-terminate", lambda: a == b)[1]
            check(r is True, "lru/eq-agree", True, {"two caches, same stores": fill, "==": r})
            a, b = mk(fill), mk(list(reversed(fill)))
            r = call("lru/eq-terminate", lambda: a == b)[1]
            check(r is True, "lru/eq-agree", True, {"two caches, same content, different recency": fill, "==": r})
            r = call("lru/eq-terminate", lambda: a != b)[1]
            check(r is False, "lru/eq-agree", False, {"two caches, same content, different recency": fill, "!=": r})
            if fill:
                a, b = mk(fill), mk(fill, {fill[-1]: "<different>"})
                r = call("lru/eq-terminate", lambda: a == b)[1]
                check(r is False, "lru/eq-agree", False, {"two caches, one value differs": fill, "==": r})
                a, b = mk(fill), mk(fill[:-1])
                r = call("lru/eq-terminate", lambda: a == b)[1]
                check(r is (len(fill[:-1]) == len(fill)), "lru/eq-agree", False, {"two caches, one key missing": fill, "==": r})
                r = call("lru/eq-terminate", lambda: a == dict((k, "v" + k) for k in fill))[1]
                check(r is True, "lru/eq-agree", True, {"cache == dict": fill, "==": r})
            return ok("lru/eq2", trivial=not fill)
    except Fail as f:
        return f.result


def run_case(case):
    if case.get("kind") in ("update-seq", "eq2"):
        return _run_special(case)
    cap, ops = case["cap"], case["ops"]
    key = (lambda x: _POOL[x]) if case.get("keypool") else (lambda x: x)
    stored = False
    try:
        c = call("lru/construct", LRUCache, cap)[1]
        ref = collections.OrderedDict()
        for i, o in enumerate(ops):
            op = o[0]
            k = key(o[1]) if len(o) > 1 else None
            v = o[2] if len(o) > 2 else f"v{i}"
            if op == "set":
                stored = True
                _store(c, ref, cap, k, v, "lru/store")
            elif op == "get":
                r = call("lru/lookup", c.__getitem__, k, allowed=(KeyError,))
                e = ("value", _hit(ref, k)) if k in ref else ("raised", "KeyError")
                check(r == e, "lru/lookup-value" if k in ref else "lru/lookup-miss", e, r)
            elif op == "del":
                r = call("lru/delete", c.__delitem__, k, allowed=(KeyError,))
                e = ("value", None) if k in ref else ("raised", "KeyError")
                ref.pop(k, None)
                check(r == e, "lru/delete", e, r)
            elif op == "in":
                r = call("lru/membership", c.__contains__, k)
                check(r == ("value", k in ref), "lru/membership", k in ref, r)
                if k in ref:      # may or may not count as a use
                    order = take(iter(c), len(ref) + 1)
                    moved = [k] + [x for x in ref if x != k]
                    check(order in (list(ref), moved), "lru/membership-order", [list(ref), moved], order)
                    if order == moved:
                        ref.move_to_end(k, last=False)
            elif op in ("views", "keys", "values", "items", "eq"):
                lim = len(ref) + 1
                if op in ("views", "keys"):
                    r = call("lru/keys-terminate", lambda: take(c.keys(), lim))[1]
                    check(r == list(ref), "lru/keys-agree", list(ref), r)
                    check(len(c.keys()) == len(ref), "lru/keys-agree", len(ref), len(c.keys()))
                if op in ("views", "values"):
                    r = call("lru/values-terminate", lambda: take(c.values(), lim))[1]
                    check(sorted(map(repr, r)) == sorted(map(repr, ref.values())), "lru/values-agree",
                          list(ref.values()), r)
                    _resync(c, ref, "lru/values-agree")
                if op in ("views", "items"):
                    r = call("lru/items-terminate", lambda: take(c.items(), lim))[1]
                    check(sorted(map(repr, r)) == sorted(map(repr, ref.items())), "lru/items-agree",
                          list(ref.items()), r)
                    _resync(c, ref, "lru/items-agree")
                if op in ("views", "eq"):
                    r = call("lru/eq-terminate", lambda: c == dict(ref))[1]
                    check(r is True, "lru/eq-agree", True, r)
                    _resync(c, ref, "lru/eq-agree")
                    other = dict(ref)
                    other["<other>"] = 0
                    r = call("lru/eq-terminate", lambda: c == other)[1]
                    check(r is False, "lru/eq-agree", False, r)
                    _resync(c, ref, "lru/eq-agree")
                    if ref:
                        other = dict(ref)
                        other[next(iter(other))] = "<different>"
                        r = call("lru/eq-terminate", lambda: c != other)[1]
                        check(r is True, "lru/eq-agree", True, r)
                        _resync(c, ref, "lru/eq-agree")
            elif op == "mget":
                r = call("lru/get", c.get, k, _MISSING)[1]
                e = _hit(ref, k) if k in ref else _MISSING
                check(r == e, "lru/get", e, r)
            elif op == "pop":
                r = call("lru/pop", c.pop, k, _MISSING)[1]
                e = ref.pop(k, _MISSING)
                check(r == e, "lru/pop", e, r)
                if e is _MISSING:
                    r = call("lru/pop", c.pop, k, allowed=(KeyError,))
                    check(r == ("raised", "KeyError"), "lru/pop", "KeyError", r)
            elif op == "popitem":
                r = call("lru/popitem-terminate", c.popitem, allowed=(KeyError,))
                if not ref:
                    check(r == ("raised", "KeyError"), "lru/popitem", "KeyError", r)
                else:
                    pk, pv = r[1] if r[0] == "value" else (_MISSING, None)
                    check(r[0] == "value" and pk in ref and ref[pk] == pv, "lru/popitem",
                          {"one of": list(ref.items())}, r)
                    del ref[pk]
            elif op == "clear":
                call("lru/clear-terminate", c.clear)
                ref.clear()
            elif op == "setdefault":
                r = call("lru/setdefault", c.setdefault, k, v)[1]
                if k in ref:
                    e = _hit(ref, k)
                else:
                    stored = True
                    e = v
                    if len(ref) >= cap:
                        ref.popitem(last=True)
                    ref[k] = v
                    ref.move_to_end(k, last=False)
                check(r == e, "lru/setdefault", e, r)
            elif op == "update":
                stored = True
                first = key(0) if case.get("keypool") else "a"
                pairs = [(k, v), (first, f"{v}'")]
                # reference: update == the stores in order
                ref2 = collections.OrderedDict(ref)
                for pk, pv in pairs:
                    if pk not in ref2 and len(ref2) >= cap:
                        ref2.popitem(last=True)
                    ref2[pk] = pv
                    ref2.move_to_end(pk, last=False)
                call("lru/update-terminate", c.update, pairs if i % 2 else dict(pairs))
                ref.clear()
                ref.update(ref2)
            else:
                raise ValueError(f"unknown op {op}")
            # ---- observation after every operation
            n = call("lru/len", len, c)[1]
            check(n == len(ref) and n <= cap, "lru/capacity", {"len": len(ref), "max": cap}, {"len": n})
            order = call("lru/iteration-terminate", lambda: take(iter(c), len(ref) + 1))[1]
            check(order == list(ref), "lru/iteration-order" if op != "update" else "lru/update",
                  list(ref), {"after": o, "order": order})
            _internal(c, ref)
        return ok("lru/history", trivial=not stored)
    except Fail as f:
        return f.result
