"""
C04 - worker lifecycle: begin first once, end last once, quota kept, none left running (bounded layer, real
processes).

An instrumented functor subclass appends one line per event (begin / begin_done / item x / end, with a
CLOCK_MONOTONIC time stamp) to a private log file per worker process (O_APPEND, file name = wid and pid). The reference
is the regular expression of the statement: ``begin (item)* end`` per worker, with the items of all workers forming
exactly the multiset of the inputs, at most ``quota`` distinct chunks per worker, ``begin_done`` of every worker
logged before until_all_ready() returns, and no pid of any log alive after the context is left.
"""
import itertools
import json
import math
import os
import random
import sys
import time

sys.path.insert(0, os.path.dirname(os.path.abspath(__file__)))
import _pool_util as PU  # noqa: E402
import _files_util as U  # noqa: E402

RUN_IN_SUBPROCESS = True
CASE_TIMEOUT_S = 30
BODY_TIMEOUT_S = 20

BOUNDS = {
    "quick": {
        "lifecycle": "FunctorPool with 1..3 workers and FactoryFunctorPool with 1..2 workers x quota 1..3, call "
                     "histories of 1..2 fully consumed calls (|data| 0..7, chunk 1..2, ordered/unordered)",
        "begin_raises": "FunctorPool with 2..3 workers, begin() of worker j raises, for every j; the call is "
                        "served by the others",
        "functor_raises": "1..2 workers, chunk of 1..4 items fed directly, the functor raises at item j for every "
                          "j; a second healthy chunk for the other worker",
        "until_all_ready": "2..3 workers whose begin() sleeps 0 / 0.4 / 0.2 s, FunctorPool and "
                           "FactoryFunctorPool, with and without a call afterwards",
        "quota_no_factory": "FunctorPool whose workers carry quota 1..2, number of chunks <= total quota",
        "random": "8 random lifecycle configurations (1..3 workers, quota 1..3, 1..3 calls, |data| 0..12)",
    },
    "thorough": {
        "lifecycle": "as quick with 3-call histories, |data| up to 12, + 100 random configurations",
        "begin_raises": "as quick + 4 workers",
        "functor_raises": "as quick, chunks up to 6 items",
        "until_all_ready": "all delay assignments over {0, 0.2, 0.4} for 2..3 workers",
        "quota_no_factory": "as quick",
    },
}

RULE = ("One case = one pool scenario in a fresh process; the verdict is computed from the per-process event logs "
        "after the pool context has been left. Distinct = different JSON; trivial: never.")


def _worker_classes(logdir):
    L = PU.pool_lib()
    P = L.P

    class W(P.FunctorWorker):
        def __init__(self, quota=math.inf, begin_delay=0.0, bad_begin=False, bad_item=None, end_delay=0.0):
            super().__init__(quota)
            self.end_delay = end_delay
            self.begin_delay = begin_delay
            self.bad_begin = bad_begin
            self.bad_item = bad_item

        def _log(self, *ev):
            fd = os.open(os.path.join(logdir, "w%s_%d.log" % (self.wid, os.getpid())),
                         os.O_WRONLY | os.O_CREAT | os.O_APPEND, 0o600)
            try:
                os.write(fd, (json.dumps([time.monotonic()] + list(ev)) + "\n").encode())
            finally:
                os.close(fd)

        def begin(self):
            self._log("begin")
            if self.begin_delay:
                time.sleep(self.begin_delay)
            if self.bad_begin:
                raise RuntimeError("begin fails (forced)")
            self._log("begin_done")

        def end(self):
            if self.end_delay:
                time.sleep(self.end_delay)      # a slow end(): the worker is still running for a while after its last chunk
            self._log("end")

        def __call__(self, x):
            self._log("item", x)
            if self.bad_item is not None and x == self.bad_item:
                raise ValueError("functor fails (forced)")
            return PU.f_ref(x)

    class Fac(P.FunctorWorkerFactory):
        def __init__(self, quota, begin_delays=None, end_delay=0.0, slow_end_first=10 ** 9):
            self.quota = quota
            self.begin_delays = begin_delays or []
            self.end_delay = end_delay
            self.slow_end_first = slow_end_first      # only the first k created workers have the slow end()
            self.n = 0

        def create(self):
            d = self.begin_delays[self.n] if self.n < len(self.begin_delays) else 0.0
            self.n += 1
            return W(self.quota, d, end_delay=self.end_delay if self.n <= self.slow_end_first else 0.0)

    return P, W, Fac


def _read_logs(logdir):
    """{(wid, pid): [event, ...]} with event = [t, name, *args]"""
    logs = {}
    for fn in sorted(os.listdir(logdir)):
        if not fn.endswith(".log"):
            continue
        wid, pid = fn[1:-4].split("_")
        with open(os.path.join(logdir, fn)) as f:
            logs[(wid, int(pid))] = [json.loads(line) for line in f if line.strip()]
    return logs


def _fail(scenario, expected, observed):
    return {"ok": False, "trivial": False, "scenario": scenario, "expected": PU._short(expected),
            "observed": PU._short(observed)}


def _shape_problem(key, ev, crashed_in=None):
    """the log of one worker must be begin [begin_done item*] end, every stage at most once"""
    names = [e[1] for e in ev]
    if not names or names[0] != "begin":
        return "begin-not-first", "begin first", names
    if names.count("begin") != 1:
        return "begin-not-once", "exactly one begin", names
    if names.count("end") != 1:
        return "end-not-once", "exactly one end", names
    if names[-1] != "end":
        return "end-not-last", "end last", names
    middle = names[1:-1]
    if crashed_in == "begin":
        if middle:
            return "events-after-failed-begin", ["begin", "end"], names
        return None
    if not middle or middle[0] != "begin_done" or any(m != "item" for m in middle[1:]):
        return "shape", "begin begin_done item* end", names
    return None


def _alive_pids(logs):
    return [pid for (_, pid) in logs if PU.pid_running(pid)]


def cases(tier, seed):
    quick = tier != "thorough"
    # lifecycle + quota -------------------------------------------------------------------------------------------
    hist1 = [[{"ordered": True, "n": 5, "cs": 1}], [{"ordered": False, "n": 4, "cs": 2}], [{"ordered": True, "n": 0, "cs": 1}],
             [{"ordered": True, "n": 7, "cs": 2}, {"ordered": False, "n": 3, "cs": 1}],
             [{"ordered": True, "n": 2, "cs": 1}, {"ordered": True, "n": 0, "cs": 1}, {"ordered": True, "n": 4, "cs": 1}]]
    if quick:
        hist1 = hist1[:4]
    for w in (1, 2, 3):
        for calls in hist1:
            yield {"kind": "lifecycle", "pool": "functor", "workers": w, "quota": None, "calls": calls}
    for w, q in itertools.product((1, 2), (1, 2, 3)):
        for calls in hist1:
            yield {"kind": "lifecycle", "pool": "factory", "workers": w, "quota": q, "calls": calls}
        # exact retirement at the end of the first call, then another call
        yield {"kind": "lifecycle", "pool": "factory", "workers": w, "quota": q,
               "calls": [{"ordered": True, "n": w * q, "cs": 1}, {"ordered": True, "n": 3, "cs": 1}]}
    for w, q in itertools.product((1, 2), (1, 2)):
        for n in range(0, w * q + 1):
            yield {"kind": "lifecycle", "pool": "functor", "workers": w, "quota": q,
                   "calls": [{"ordered": True, "n": n, "cs": 1}]}
    # slow end(): a retired (replaced) worker is still busy in end() while its successor finishes the work; nobody may be left
    # running - and no end() may happen - after the context was left
    for w, q, n in ((1, 2, 3), (2, 1, 3), (1, 1, 2)):
        yield {"kind": "lifecycle", "pool": "factory", "workers": w, "quota": q, "end_delay": 1.2,
               "calls": [{"ordered": True, "n": n, "cs": 1}]}
    yield {"kind": "lifecycle", "pool": "functor", "workers": 2, "quota": None, "end_delay": 0.8, "calls": [{"ordered": True, "n": 3, "cs": 1}]}
    # many idle workers and an immediate exit: the stop tokens are anonymous (any worker may take any token), every worker must still
    # get one - leaving the context must terminate however the workers race for the tokens (repeated: the race is timing dependent)
    for rep in range(8 if quick else 40):
        yield {"kind": "lifecycle", "pool": "functor", "workers": 12, "quota": None, "rep": rep, "calls": [{"ordered": True, "n": 3, "cs": 1}]}
    # leaving the context while workers are still in begin(), with fewer work-queue slots than workers
    for wq, delays in ((1, [0.8, 0.8, 0.8]), (1, [0.0, 1.0]), (2, [1.0, 1.0, 1.0, 0.0])):
        yield {"kind": "exit-during-begin", "wq": wq, "begin_delays": delays}
    # begin raises ------------------------------------------------------------------------------------------------
    for w in ((2, 3) if quick else (2, 3, 4)):
        for j in range(w):
            yield {"kind": "begin-raises", "workers": w, "bad_worker": j, "calls": [{"ordered": True, "n": 5, "cs": 2}]}
    # functor raises at item j ------------------------------------------------------------------------------------
    for n in ((1, 2, 4) if quick else (1, 2, 3, 4, 6)):
        for j in range(n):
            for w in (1, 2):
                yield {"kind": "functor-raises", "workers": w, "n": n, "bad_index": j}
    # until_all_ready ---------------------------------------------------------------------------------------------
    if quick:
        delay_sets = [[0.0, 0.4], [0.4, 0.0], [0.0, 0.4, 0.2], [0.2, 0.2]]
    else:
        delay_sets = [list(t) for w in (2, 3) for t in itertools.product((0.0, 0.2, 0.4), repeat=w)]
    for ds in delay_sets:
        for pool in ("functor", "factory"):
            for call in (True, False):
                yield {"kind": "until-all-ready", "pool": pool, "begin_delays": ds, "call_after": call}
    # a pool with join_timeout set: until_all_ready must still wait for every begin() (the timeout is for joining only)
    for pool in ("functor", "factory"):
        yield {"kind": "until-all-ready", "pool": pool, "begin_delays": [0.0, 1.0], "call_after": False, "join_timeout": 0.3}
    rng = random.Random(seed)
    for _ in range(8 if quick else 100):
        pool = rng.choice(["functor", "factory"])
        yield {"kind": "lifecycle", "pool": pool, "workers": rng.randint(1, 3),
               "quota": rng.choice([1, 2, 3]) if pool == "factory" else None,
               "calls": [{"ordered": rng.random() < 0.5, "n": rng.randint(0, 12), "cs": rng.randint(1, 3)}
                         for _ in range(rng.randint(1, 3))]}


# ---------------------------------------------------------------------------------------------------------------

def _body_lifecycle(case, logdir):
    P, W, Fac = _worker_classes(logdir)
    quota = math.inf if case["quota"] is None else case["quota"]
    fac = None
    if case["pool"] == "functor":
        pool = P.FunctorPool([W(quota, end_delay=case.get("end_delay", 0.0)) for _ in range(case["workers"])])
        created = case["workers"]
    else:
        fac = Fac(quota, end_delay=case.get("end_delay", 0.0), slow_end_first=case["workers"])
        pool = P.FactoryFunctorPool(case["workers"], fac)
    all_values = []
    chunk_of = {}
    with pool:
        for k, call in enumerate(case["calls"]):
            call = dict(call, base=1000 * k + 10)
            values, got = PU.do_call(pool, call)
            bad = PU.check_call(values, call, got)
            if bad:
                return _fail("lifecycle/results", bad[0], bad[1])
            all_values += values
            for i, v in enumerate(values):
                chunk_of[v] = (k, i // call["cs"])
    if fac is not None:
        created = fac.n
    logs = _read_logs(logdir)
    for key, ev in logs.items():
        bad = _shape_problem(key, ev)
        if bad:
            return _fail("lifecycle/" + bad[0], {"worker": key, "log": bad[1]}, bad[2])
    if len(logs) != created:
        return _fail("lifecycle/workers-without-log", "%d workers created and started" % created,
                     "%d logs: %s" % (len(logs), sorted(logs)))
    items = sorted(e[2] for ev in logs.values() for e in ev if e[1] == "item")
    if items != sorted(all_values):
        return _fail("lifecycle/items", sorted(all_values), items)
    if case["quota"] is not None:
        for key, ev in logs.items():
            chunks = {chunk_of[e[2]] for e in ev if e[1] == "item"}
            if len(chunks) > case["quota"]:
                return _fail("lifecycle/quota", {"worker": key, "max_chunks": case["quota"]},
                             {"chunks": sorted(chunks)})
    alive = _alive_pids(logs) + [p.pid for p in pool.procs if p.is_alive()]
    if alive:
        return _fail("lifecycle/worker-left-running", [], alive)
    return {"ok": True, "trivial": False, "scenario": "lifecycle/" + case["pool"] + (
        "-quota" if case["quota"] is not None else ""), "expected": None,
            "observed": {"workers": len(logs), "items": len(items)}}


def _body_begin_raises(case, logdir):
    P, W, Fac = _worker_classes(logdir)
    ws = [W(bad_begin=(i == case["bad_worker"])) for i in range(case["workers"])]
    pool = P.FunctorPool(ws)
    devnull = os.open(os.devnull, os.O_WRONLY)
    saved = os.dup(2)
    os.dup2(devnull, 2)  # the traceback of the failing worker is expected noise
    try:
        with pool:
            for k, call in enumerate(case["calls"]):
                call = dict(call, base=1000 * k + 10)
                values, got = PU.do_call(pool, call)
                bad = PU.check_call(values, call, got)
                if bad:
                    return _fail("lifecycle/begin-raises/results", bad[0], bad[1])
    finally:
        os.dup2(saved, 2)
        os.close(saved)
        os.close(devnull)
    logs = _read_logs(logdir)
    if len(logs) != case["workers"]:
        return _fail("lifecycle/begin-raises/workers-without-log", case["workers"], sorted(logs))
    bad_wid = str(ws[case["bad_worker"]].wid)
    for key, ev in logs.items():
        bad = _shape_problem(key, ev, "begin" if key[0] == bad_wid else None)
        if bad:
            return _fail("lifecycle/begin-raises/" + bad[0], {"worker": key, "log": bad[1]}, bad[2])
    if ws[case["bad_worker"]].exitcode in (0, None):
        return _fail("lifecycle/begin-raises/exitcode", "non-zero exit code of the failing worker",
                     ws[case["bad_worker"]].exitcode)
    alive = _alive_pids(logs) + [p.pid for p in ws if p.is_alive()]
    if alive:
        return _fail("lifecycle/begin-raises/worker-left-running", [], alive)
    return {"ok": True, "trivial": False, "scenario": "lifecycle/begin-raises", "expected": None, "observed": None}


def _body_functor_raises(case, logdir):
    P, W, Fac = _worker_classes(logdir)
    n, j, w = case["n"], case["bad_index"], case["workers"]
    values = list(range(10, 10 + n))
    ws = [W(bad_item=values[j]) for _ in range(w)]
    pool = P.FunctorPool(ws, work_queue_maxsize=None)
    devnull = os.open(os.devnull, os.O_WRONLY)
    saved = os.dup(2)
    os.dup2(devnull, 2)
    try:
        with pool:
            pool.until_all_ready()
            ws[0].work_queue.put((0, values))
            if w > 1:
                ws[0].work_queue.put((1, [500, 501]))
            # wait until one worker has died of the exception
            deadline = time.time() + 10
            while time.time() < deadline and all(p.exitcode is None for p in ws):
                time.sleep(0.02)
            dead = [p for p in ws if p.exitcode is not None]
            if not dead:
                return _fail("lifecycle/functor-raises/no-worker-died", "the worker that got the bad item ends", "none")
            if w > 1:
                # let the healthy worker take the other chunk
                deadline = time.time() + 10
                while time.time() < deadline:
                    logs = _read_logs(logdir)
                    if sum(1 for ev in logs.values() for e in ev if e[1] == "item" and e[2] == 501):
                        break
                    time.sleep(0.02)
    finally:
        os.dup2(saved, 2)
        os.close(saved)
        os.close(devnull)
    logs = _read_logs(logdir)
    if len(logs) != w:
        return _fail("lifecycle/functor-raises/workers-without-log", w, sorted(logs))
    crashed = 0
    for key, ev in logs.items():
        bad = _shape_problem(key, ev)
        if bad:
            return _fail("lifecycle/functor-raises/" + bad[0], {"worker": key, "log": bad[1]}, bad[2])
        its = [e[2] for e in ev if e[1] == "item"]
        if values[j] in its:
            crashed += 1
            mine = [x for x in its if x in values]
            if mine != values[:j + 1]:
                return _fail("lifecycle/functor-raises/items-after-exception", values[:j + 1], its)
    if crashed != 1:
        return _fail("lifecycle/functor-raises/bad-item-count", 1, crashed)
    alive = _alive_pids(logs) + [p.pid for p in ws if p.is_alive()]
    if alive:
        return _fail("lifecycle/functor-raises/worker-left-running", [], alive)
    return {"ok": True, "trivial": False, "scenario": "lifecycle/functor-raises", "expected": None, "observed": None}


def _body_until_ready(case, logdir):
    P, W, Fac = _worker_classes(logdir)
    ds = case["begin_delays"]
    kw = {"join_timeout": case["join_timeout"]} if case.get("join_timeout") is not None else {}
    if case["pool"] == "functor":
        pool = P.FunctorPool([W(begin_delay=d) for d in ds], **kw)
    else:
        pool = P.FactoryFunctorPool(len(ds), Fac(math.inf, ds), **kw)
    with pool:
        t0 = time.monotonic()
        pool.until_all_ready()
        t1 = time.monotonic()
        snap = _read_logs(logdir)
        if case["call_after"]:
            call = {"ordered": True, "n": 4, "cs": 1, "base": 10}
            values, got = PU.do_call(pool, call)
            bad = PU.check_call(values, call, got)
            if bad:
                return _fail("lifecycle/until-all-ready/results", bad[0], bad[1])
    done = {key: [e for e in ev if e[1] == "begin_done"] for key, ev in snap.items()}
    if len(snap) != len(ds) or any(len(v) != 1 for v in done.values()):
        return _fail("lifecycle/until-all-ready/returned-early",
                     "begin() of all %d workers completed when until_all_ready() returns" % len(ds),
                     {"%s_%s" % k: [e[1] for e in ev] for k, ev in snap.items()})
    late = {"%s_%s" % k: v[0][0] - t1 for k, v in done.items() if v[0][0] > t1}
    if late:
        return _fail("lifecycle/until-all-ready/returned-early", "begin_done before the return", late)
    logs = _read_logs(logdir)
    for key, ev in logs.items():
        bad = _shape_problem(key, ev)
        if bad:
            return _fail("lifecycle/until-all-ready/" + bad[0], {"worker": key, "log": bad[1]}, bad[2])
    alive = _alive_pids(logs)
    if alive:
        return _fail("lifecycle/until-all-ready/worker-left-running", [], alive)
    return {"ok": True, "trivial": False, "scenario": "lifecycle/until-all-ready", "expected": None,
            "observed": {"waited_s": round(t1 - t0, 3)}}


def _body_exit_during_begin(case, logdir):
    """the context is left while the workers are still busy in a slow begin() and the bounded work queue has fewer slots than there are
    workers: every worker must still get its stop token, run end() exactly once, and none may be left running"""
    P, W, Fac = _worker_classes(logdir)
    pool = P.FunctorPool([W(begin_delay=d) for d in case["begin_delays"]], work_queue_maxsize=case["wq"])
    with pool:
        pass
    logs = _read_logs(logdir)
    if len(logs) != len(case["begin_delays"]):
        return _fail("lifecycle/exit-during-begin/workers-without-log", len(case["begin_delays"]), sorted(logs))
    for key, ev in logs.items():
        bad = _shape_problem(key, ev)
        if bad:
            return _fail("lifecycle/exit-during-begin/" + bad[0], {"worker": key, "log": bad[1]}, bad[2])
    alive = _alive_pids(logs) + [p.pid for p in pool.procs if p.is_alive()]
    if alive:
        return _fail("lifecycle/exit-during-begin/worker-left-running", [], alive)
    return {"ok": True, "trivial": False, "scenario": "lifecycle/exit-during-begin", "expected": None, "observed": {"workers": len(logs)}}


def run_case(case):
    kind = case.get("kind")
    bodies = {"exit-during-begin": _body_exit_during_begin, "lifecycle": _body_lifecycle, "begin-raises": _body_begin_raises,
              "functor-raises": _body_functor_raises, "until-all-ready": _body_until_ready}
    if kind not in bodies:
        raise ValueError("unknown kind %r" % (kind,))

    def body():
        with U.Scratch(kill_children=True) as sc:
            return bodies[kind](case, sc.d)

    return PU.guarded(body, BODY_TIMEOUT_S, "lifecycle/" + kind)
