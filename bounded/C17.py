"""C17 - sorted_combinations is complete and key-ordered; min-combination search exact.

Reference model: itertools.combinations over the element positions + brute-force sums.
"""
import itertools, random
from _util import take, ok, Fail, check, call

from windpyutils.generic import sorted_combinations, min_combinations_in_interval_iter_sorted

KEYS = ["sum", "max", "len", "const", "sum-then-len"]
BOUNDS = {
    "quick": {"stream": {"n": "0..6", "scores": "all vectors over 0..3", "keys": KEYS, "yield_key": [True, False],
                         "elements": ["range(n)", "list of labels", "tuple with a repeated element", "labels in descending order (n 2..4): input order differs from value order"]},
              "interval": {"n": "0..4", "scores": "all vectors over 0..3", "i_start": "-1..sum+1", "i_end": "i_start-1..sum+2"},
              "random": {"count": 1500, "n": "5..9", "scores": "0..50 with ties and zeros"}},
    "thorough": {"stream": {"n": "0..7", "scores": "all vectors over 0..3", "keys": KEYS, "yield_key": [True, False],
                            "elements": "as quick"},
                 "interval": {"n": "0..5", "scores": "all vectors over 0..3", "i_start": "-1..sum+1", "i_end": "i_start-1..sum+2"},
                 "random": {"count": 20000, "n": "5..11", "scores": "0..50"}},
}
RULE = ("Stream: for every score vector the generator (under a step budget of 2^n) must yield every non-empty "
        "combination of positions exactly once, as an index-ordered tuple of the elements, keys non-decreasing and equal "
        "to key(comb) when requested; checked for several monotone keys and element containers. Interval search: for "
        "every score vector and every interval [i_start, i_end) in the stated window the result must be exactly the "
        "combinations whose sum is the smallest sum inside the interval (each with that sum), [] when none. One case = "
        "one (vector, key, container) resp. one (vector, i_start) with all i_end. Then a seeded random sample of larger "
        "n. Non-trivial = n >= 1; distinct = canonical JSON.")


def cases(tier, seed):
    q = tier == "quick"
    for n in range(0, 7 if q else 8):
        for scores in itertools.product(range(4), repeat=n):
            for key in (KEYS if n <= 5 else KEYS[:2]):
                yield {"kind": "stream", "scores": list(scores), "key": key, "elements": "range", "yield_key": True}
            yield {"kind": "stream", "scores": list(scores), "key": "sum", "elements": "labels", "yield_key": False}
            if 2 <= n <= 4:
                yield {"kind": "stream", "scores": list(scores), "key": "sum", "elements": "unsorted", "yield_key": True}
            if n >= 2 and n <= 5:
                yield {"kind": "stream", "scores": list(scores), "key": "sum", "elements": "repeated", "yield_key": True}
    for n in range(0, 5 if q else 6):
        for scores in itertools.product(range(4), repeat=n):
            for a in range(-1, sum(scores) + 2):
                yield {"kind": "interval", "scores": list(scores), "i_start": a}
    rng = random.Random(seed)
    b = BOUNDS[tier]["random"]
    for _ in range(b["count"]):
        n = rng.randint(5, 9 if q else 11)
        pool = rng.choice([[0, 1, 2], [0, 5, 5, 7, 10], list(range(51))])
        scores = [rng.choice(pool) for _ in range(n)]
        if rng.random() < 0.5:
            yield {"kind": "stream", "scores": scores, "key": rng.choice(KEYS), "elements": rng.choice(["range", "labels"]),
                   "yield_key": rng.random() < 0.7}
        else:
            a = rng.randint(-1, sum(scores) + 1)
            yield {"kind": "interval", "scores": scores, "i_start": a, "i_ends": sorted({a - 1, a, a + 1, a + rng.randint(1, 20),
                                                                                         sum(scores) + 1})}


# ---------------------------------------------------------------------------------------------------------------
def _keyfun(name, scores, pos_of):
    """Monotone keys over a combination of ELEMENTS (pos_of maps an element back to its score)."""
    sc = lambda comb: [pos_of(e) for e in comb]
    return {"sum": lambda c: sum(sc(c)), "max": lambda c: max(sc(c)), "len": lambda c: len(c), "const": lambda c: 0,
            "sum-then-len": lambda c: (sum(sc(c)), len(c))}[name]


def _run_stream(case):
    scores, n = case["scores"], len(case["scores"])
    mode = case["elements"]
    if mode == "range":
        elements = range(n)
        score_of = lambda e: scores[e]
    elif mode == "labels":
        elements = [f"e{i:02d}" for i in range(n)]
        score_of = lambda e: scores[int(e[1:])]
    elif mode == "unsorted":      # element values in descending order: the input order is NOT the sorted order of the values
        elements = [f"e{n - 1 - i:02d}" for i in range(n)]
        score_of = lambda e: scores[n - 1 - int(e[1:])]
    else:   # a tuple whose first two elements are the same object/value; score by value (position 0 and 1 get scores[0])
        elements = ("dup", "dup") + tuple(f"e{i:02d}" for i in range(2, n))
        score_of = lambda e: scores[0] if e == "dup" else scores[int(e[1:])]
    key = _keyfun(case["key"], scores, score_of)
    allc = [tuple(elements[i] for i in c) for r in range(1, n + 1) for c in itertools.combinations(range(n), r)]
    out = call("combinations/terminates", lambda: take(sorted_combinations(elements, key, yield_key=case["yield_key"]), 2 ** n))[1]
    if case["yield_key"]:
        check(all(isinstance(x, tuple) and len(x) == 2 for x in out), "combinations/key-alongside", "(combination, key) pairs", out[:3])
        combs, keys = [x[0] for x in out], [x[1] for x in out]
        check(keys == [key(c) for c in combs], "combinations/key-alongside", [key(c) for c in combs], keys)
    else:
        combs = out
    check(all(isinstance(c, tuple) for c in combs), "combinations/tuples", "tuples", [type(c).__name__ for c in combs[:3]])
    if sorted(combs) != sorted(allc):
        raise Fail("combinations/complete-once", {"count": len(allc)},
                   {"count": len(combs), "missing": [c for c in allc if c not in combs][:5],
                    "extra or repeated": [c for i, c in enumerate(combs) if c not in allc or c in combs[:i]][:5]})
    if mode != "repeated":
        pos = {e: i for i, e in enumerate(elements)}
        wrong = [c for c in combs if any(pos[a] >= pos[b] for a, b in zip(c, c[1:]))]
        check(not wrong, "combinations/index-ordered", "elements of each tuple in input order", wrong[:3])
    ks = [key(c) for c in combs]
    check(all(a <= b for a, b in zip(ks, ks[1:])), "combinations/key-order", "non-decreasing keys", ks)
    return ok(f"combinations/{case['key']}", trivial=n == 0)


def _run_interval(case):
    scores, n, a = case["scores"], len(case["scores"]), case["i_start"]
    elements = [f"e{i}" for i in range(n)]
    sums = {c: sum(scores[i] for i in c) for r in range(1, n + 1) for c in itertools.combinations(range(n), r)}
    for b in case.get("i_ends") or range(a - 1, sum(scores) + 3):
        got = call("min-combinations/terminates", min_combinations_in_interval_iter_sorted, list(elements), list(scores), a, b)[1]
        inside = [s for s in sums.values() if a <= s < b]
        exp = sorted(([elements[i] for i in c], s) for c, s in sums.items() if inside and s == min(inside))
        sc = "min-combinations/none-in-interval" if not exp else "min-combinations/exact"
        check(isinstance(got, list) and sorted((list(x[0]), x[1]) for x in got) == exp and len(got) == len(exp), sc, exp,
              {"i_start": a, "i_end": b, "result": got})
    return ok("min-combinations/interval", trivial=n == 0)


def run_case(case):
    try:
        return (_run_stream if case["kind"] == "stream" else _run_interval)(case)
    except Fail as f:
        return f.result
