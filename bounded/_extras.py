"""Generic extra scenarios of the bounded layer, added to a property module's own cases by run.py (kind "x-..."):

  x-independence   two objects created the same way are independent: a change of one is never visible in the other (shared class-level
                   or default-argument state: `values: List = []`, `def __init__(self, storage={})`)
  x-falsy          None / 0 / '' / False / [] are ordinary payloads: storing, membership and retrieval must not depend on truthiness

Each scenario states its expectation from the property text only (a container behaves like its Python counterpart)."""
import io
import os
import tempfile

from _util import ok, Fail, check, call

FALSY = [None, 0, "", False, [], 0.0]


def _caches(cls_name):
    import windpyutils.structures.caches as C
    return getattr(C, cls_name)


def _indep_cache(cls_name):
    cls = _caches(cls_name)
    a, b = cls(3), cls(3)
    a["k1"] = 1
    a["k2"] = 2
    check(len(b) == 0 and list(b) == [] and "k1" not in b, "independence/" + cls_name, "second cache empty", {"len": len(b), "keys": list(b)})
    b["z"] = 9
    check(sorted(a) == ["k1", "k2"] and list(b) == ["z"], "independence/" + cls_name, {"a": ["k1", "k2"], "b": ["z"]}, {"a": list(a), "b": list(b)})
    return ok("independence/" + cls_name)


def _falsy_cache(cls_name):
    cls = _caches(cls_name)
    c = cls(len(FALSY) + 1)
    for i, v in enumerate(FALSY):
        c["k%d" % i] = v
    for i, v in enumerate(FALSY):
        k = "k%d" % i
        check(k in c, "falsy-values/%s/contains" % cls_name, True, {"key": k, "value": repr(v), "in": k in c})
        g = call("falsy-values/%s/getitem" % cls_name, lambda: c[k])[1]
        check(g is v or g == v and type(g) is type(v), "falsy-values/%s/getitem" % cls_name, repr(v), repr(g))
    check(len(c) == len(FALSY), "falsy-values/%s/len" % cls_name, len(FALSY), len(c))
    # falsy KEYS as well
    d = cls(4)
    for k in (0, "", False, None):
        d[k] = "v%r" % (k,)
    check(len(d) == 3 and d[0] == "vFalse" and d[""] == "v''" and d[None] == "vNone", "falsy-values/%s/keys" % cls_name,
          {"len": 3, "0": "vFalse (0 == False)", "": "v''", "None": "vNone"}, {"len": len(d), "keys": [repr(k) for k in d]})
    return ok("falsy-values/" + cls_name)


def _indep_dll():
    from windpyutils.structures.lists import DoublyLinkedList
    a, b = DoublyLinkedList(), DoublyLinkedList()
    a.append(1)
    a.append(2)
    check(len(b) == 0 and b.head is None and b.tail is None, "independence/DoublyLinkedList", "second list empty", len(b))
    c, d = DoublyLinkedList([1]), DoublyLinkedList([1])
    c.append(5)
    check(len(d) == 1 and d.head is d.tail and d.head.data == 1, "independence/DoublyLinkedList", "second list [1]", len(d))
    return ok("independence/DoublyLinkedList")


def _indep_spanset():
    import windpyutils.structures.span_set as M
    a, b = M.SpanSet([(1, 2)]), M.SpanSet([(3, 4)])
    u, i, d, x, c = a | b, a & b, a - b, a ^ b, a.copy()
    check(list(a) == [(1, 2)] and list(b) == [(3, 4)], "independence/SpanSet", "operands unchanged by | & - ^ copy", {"a": list(a), "b": list(b)})
    check(sorted(u) == [(1, 2), (3, 4)] and list(i) == [] and list(d) == [(1, 2)] and sorted(x) == [(1, 2), (3, 4)] and list(c) == [(1, 2)],
          "independence/SpanSet", {"|": [(1, 2), (3, 4)], "&": [], "-": [(1, 2)]}, {"|": list(u), "&": list(i), "-": list(d), "^": list(x), "copy": list(c)})
    e1, e2 = M.SpanSet([]), M.SpanSet([])
    check(len(e1) == 0 and len(e2) == 0 and list(e1 | a) == [(1, 2)] and len(e2) == 0, "independence/SpanSet", "empty sets stay empty", [len(e1), len(e2)])
    return ok("independence/SpanSet")


def _indep_buffers():
    from windpyutils.buffers import Buffer, PrintBuffer
    from windpyutils.structures.circular_buffer import CircularBuffer
    a, b = Buffer(), Buffer()
    got = list(a(1, "late"))            # held back in a
    check(got == [] and len(a) == 1 and len(b) == 0, "independence/Buffer", {"a holds": 1, "b holds": 0}, {"a": len(a), "b": len(b), "out": got})
    gb = list(b(0, "b0"))
    check(gb == ["b0"] and len(b) == 0, "independence/Buffer", ["b0"], gb)
    ga = list(a(0, "a0"))
    check(ga == ["a0", "late"], "independence/Buffer", ["a0", "late"], ga)
    oa, ob = io.StringIO(), io.StringIO()
    pa, pb = PrintBuffer(oa), PrintBuffer(ob)
    pa.print(1, "x1")
    pb.print(0, "y0")
    pa.print(0, "x0")
    check(oa.getvalue() == "x0\nx1\n" and ob.getvalue() == "y0\n", "independence/PrintBuffer", {"a": "x0\nx1\n", "b": "y0\n"},
          {"a": oa.getvalue(), "b": ob.getvalue()})
    ca, cb = CircularBuffer(2), CircularBuffer(2)
    ca.put(1)
    check(len(cb) == 0 and len(ca) == 1, "independence/CircularBuffer", {"a": 1, "b": 0}, {"a": len(ca), "b": len(cb)})
    return ok("independence/buffers")


def _falsy_buffers():
    from windpyutils.buffers import Buffer, PrintBuffer
    from windpyutils.structures.circular_buffer import CircularBuffer
    b = Buffer()
    out = []
    order = [2, 0, 1, 4, 3, 5]
    for i in order:
        out += list(b(i, FALSY[i]))
    check(len(out) == len(FALSY) and all(x is y or (x == y and type(x) is type(y)) for x, y in zip(out, FALSY)), "falsy-values/Buffer",
          [repr(v) for v in FALSY], [repr(v) for v in out])
    o = io.StringIO()
    p = PrintBuffer(o)
    p.print(1, "")
    p.print(0, "")
    p.print(2, "z")
    check(o.getvalue() == "\n\nz\n", "falsy-values/PrintBuffer", "\n\nz\n", o.getvalue())
    c = CircularBuffer(3)
    for v in (None, 0, ""):
        c.put(v)
    got = [c[i] for i in range(len(c))]
    check(got == [None, 0, ""], "falsy-values/CircularBuffer", [None, 0, ""], got)
    c.put(False)
    got = [c[i] for i in range(len(c))]
    check(got == [0, "", False] and got[2] is False, "falsy-values/CircularBuffer", [0, "", False], got)
    return ok("falsy-values/buffers")


def _indep_tmppool():
    from windpyutils.files import TmpPool, FilePool
    d = tempfile.mkdtemp()
    try:
        with TmpPool(d) as outer:
            o1 = outer.create()
            with TmpPool(d) as inner:
                i1 = inner.create()
                check(len(outer) == 1 and len(inner) == 1 and outer[0] == o1 and inner[0] == i1, "independence/TmpPool",
                      {"outer": [o1], "inner": [i1]}, {"outer": [outer[k] for k in range(len(outer))], "inner": [inner[k] for k in range(len(inner))]})
            check(os.path.exists(o1) and not os.path.exists(i1) and len(outer) == 1, "independence/TmpPool",
                  "the inner pool removes only its own file", {"outer file exists": os.path.exists(o1), "inner file exists": os.path.exists(i1),
                                                               "outer lists": len(outer)})
            o2 = outer.create()
            check(len(outer) == 2 and os.path.exists(o2), "independence/TmpPool", 2, len(outer))
        check(not os.path.exists(o1) and not os.path.exists(o2), "independence/TmpPool", "outer files removed at exit", [os.path.exists(o1), os.path.exists(o2)])
        p1, p2 = os.path.join(d, "a.txt"), os.path.join(d, "b.txt")
        for p in (p1, p2):
            open(p, "w").close()
        with FilePool([p1], "r") as fa:
            with FilePool([p2], "r") as fb:
                check(list(fa) == [p1] and list(fb) == [p2], "independence/FilePool", {"a": [p1], "b": [p2]}, {"a": list(fa), "b": list(fb)})
                ha = fa[p1]
            check(not ha.closed, "independence/FilePool", "the inner pool closes only its own files", "outer handle closed")
        check(ha.closed, "independence/FilePool", "closed at exit", "open")
    finally:
        for f in os.listdir(d):
            os.remove(os.path.join(d, f))
        os.rmdir(d)
    return ok("independence/TmpPool+FilePool")


def _falsy_sortedmap():
    from windpyutils.structures.sorted import SortedMap, SortedSet
    m = SortedMap()
    for i, v in enumerate(FALSY):
        m[i] = v
    for i, v in enumerate(FALSY):
        check(i in m, "falsy-values/SortedMap/contains", True, {"key": i, "value": repr(v)})
        g = m[i]
        check(g is v or (g == v and type(g) is type(v)), "falsy-values/SortedMap/getitem", repr(v), repr(g))
    check(len(m) == len(FALSY) and list(m.keys()) == list(range(len(FALSY))), "falsy-values/SortedMap/len", len(FALSY), len(m))
    s = SortedSet([0, -1, 1])
    check(0 in s and list(s) == [-1, 0, 1], "falsy-values/SortedSet", [-1, 0, 1], list(s))
    s.discard(0)
    check(0 not in s and list(s) == [-1, 1], "falsy-values/SortedSet", [-1, 1], list(s))
    return ok("falsy-values/sorted")


SCENARIOS = {
    "C06": [("x-independence", lambda: _indep_cache("LRUCache")), ("x-falsy", lambda: _falsy_cache("LRUCache"))],
    "C07": [("x-independence", lambda: _indep_cache("LFUCache")), ("x-falsy", lambda: _falsy_cache("LFUCache"))],
    "C08": [("x-independence", _indep_dll)],
    "C09": [("x-falsy", _falsy_sortedmap)],
    "C10": [("x-independence", _indep_spanset)],
    "C15": [("x-independence", _indep_buffers), ("x-falsy", _falsy_buffers)],
    "C20": [("x-independence", _indep_tmppool)],
}
DESCRIPTION = ("generic extras (bounded/_extras.py): two objects created the same way are independent (no shared class-level / default-argument "
               "state); None / 0 / '' / False / [] are ordinary payloads")


def cases(pid):
    for k, (kind, _) in enumerate(SCENARIOS.get(pid, [])):
        yield {"kind": kind, "n": k}


def run(pid, case):
    kind, fn = SCENARIOS[pid][case["n"]]
    try:
        return fn()
    except Fail as f:
        return f.result
