#!/venv/bin/python
"""Common driver of the bounded layer (L2), see SPEC.md.

    run.py <ID> --tier quick|thorough --seed N --repo /repo --out OUT.json [--jobs 8]
    run.py <ID> --replay CASE.json --repo /repo       (CASE.json: {"property": ID, "case": {...}}; "-" = stdin)

Exit codes: 0 harness ran to completion (failures are data) / replayed case ok; 1 replayed case failed;
3 harness crash.

Module interface (SPEC.md): BOUNDS, RULE, cases(tier, seed), run_case(case). Optional module attributes:
  CASE_TIMEOUT_S         per-case watchdog in seconds (default 10)
  RUN_IN_SUBPROCESS      True: every case runs in a fresh child python (own session, killed as a group on timeout)
  BATCH                  cases per pool task (default 128; 1 when RUN_IN_SUBPROCESS)
  MAX_WATCHDOG_FAILURES  after this many timeouts / memory blow-ups the remaining cases are skipped and the output
                         says "complete": false (default 10) - a hang costs seconds, a million hangs cost days
A module may name the behaviour it is about to exercise in `_util.PROGRESS["scenario"]`; a watchdog failure is then
reported under that scenario instead of "<kind>/watchdog".

Verdict of a case: the dict returned by run_case; an exception escaping run_case is a problem of the harness itself
and is reported as a failure with observed = "harness-exception: ..." (library exceptions that contradict the
property are caught by the module and reported as ordinary failures of the case); timeout -> observed "timeout".
"""
import argparse, array, collections, hashlib, importlib, itertools, json, os, random, resource, signal, subprocess, sys, time, traceback

HERE = os.path.dirname(os.path.abspath(__file__))
DEFAULT_TIMEOUT_S = 10
MEM_LIMIT = 8 * 1024 ** 3
BATCH = 128
MAX_FAILURES = 5
MAX_SAMPLES = 5
MAX_WATCHDOG_FAILURES = 10   # timeouts / memory blow-ups cost seconds each: after this many the rest is skipped

MOD = None        # the property module (set by load(); inherited by forked workers)
PID = None
REPO = None
WATCHDOGS = None  # shared counter of watchdog failures (multiprocessing.Value), created before the pool forks


class CaseTimeout(BaseException):
    """BaseException so that `except Exception` inside the library cannot swallow the watchdog."""


def _on_alarm(signum, frame):
    raise CaseTimeout()


def canon(obj):
    return json.dumps(obj, sort_keys=True, separators=(",", ":"), default=repr)


def jsonable(obj):
    return json.loads(json.dumps(obj, default=repr))


def load(pid, repo):
    """Put the repository first on sys.path, check that the library really comes from it, import the module."""
    global MOD, PID, REPO
    repo = os.path.abspath(repo)
    sys.path[:] = [p for p in sys.path if os.path.abspath(p or ".") != repo]
    sys.path.insert(0, repo)
    if HERE not in sys.path:
        sys.path.insert(1, HERE)
    import windpyutils
    wfile = os.path.abspath(windpyutils.__file__)
    assert wfile.startswith(repo + os.sep), f"windpyutils imported from {wfile}, not from {repo}"
    MOD, PID, REPO = importlib.import_module(pid), pid, repo
    for attr in ("BOUNDS", "RULE", "cases", "run_case"):
        assert hasattr(MOD, attr), f"{pid}.py lacks {attr}"
    import _extras
    if pid in _extras.SCENARIOS and not getattr(MOD, "_extras_added", False):
        # generic extra scenarios (independence of two objects, falsy payloads): added to the module's own cases
        own_cases, own_run = MOD.cases, MOD.run_case
        MOD.cases = lambda tier, seed: itertools.chain(_extras.cases(pid), own_cases(tier, seed))
        MOD.run_case = lambda case: _extras.run(pid, case) if str(case.get("kind", "")).startswith("x-") else own_run(case)
        for t in MOD.BOUNDS:
            if isinstance(MOD.BOUNDS[t], dict):
                MOD.BOUNDS[t]["generic_extras"] = _extras.DESCRIPTION
        MOD._extras_added = True
    return MOD


def limit_memory():
    soft, hard = resource.getrlimit(resource.RLIMIT_AS)
    lim = MEM_LIMIT if hard == resource.RLIM_INFINITY else min(MEM_LIMIT, hard)
    resource.setrlimit(resource.RLIMIT_AS, (lim, hard))


def timeout_s():
    return float(getattr(MOD, "CASE_TIMEOUT_S", DEFAULT_TIMEOUT_S))


def _scenario_hint(case):
    try:
        import _util
        s = _util.PROGRESS.get("scenario")
    except Exception:
        s = None
    return s or f"{case.get('kind', '?') if isinstance(case, dict) else '?'}/watchdog"


def _normalise(res, case):
    if not isinstance(res, dict) or "ok" not in res:
        return {"ok": False, "trivial": False, "scenario": _scenario_hint(case), "expected": "a result dict",
                "observed": "harness-exception: run_case returned " + repr(res)[:200]}
    out = {"ok": bool(res["ok"]), "trivial": bool(res.get("trivial", False)),
           "scenario": str(res.get("scenario", "?")), "expected": res.get("expected"), "observed": res.get("observed")}
    return out


def exec_in_process(case):
    """One case in this process under SIGALRM; never raises (except KeyboardInterrupt)."""
    try:
        import _util
        _util.PROGRESS["scenario"] = None
    except Exception:
        pass
    old = signal.signal(signal.SIGALRM, _on_alarm)
    signal.setitimer(signal.ITIMER_REAL, timeout_s())
    try:
        try:
            res = MOD.run_case(case)
        finally:
            signal.setitimer(signal.ITIMER_REAL, 0)
        return _normalise(res, case)
    except CaseTimeout:
        return {"ok": False, "trivial": False, "scenario": _scenario_hint(case),
                "expected": f"terminates within {timeout_s():g} s", "observed": "timeout"}
    except KeyboardInterrupt:
        raise
    except MemoryError:
        return {"ok": False, "trivial": False, "scenario": _scenario_hint(case),
                "expected": "stays within the memory cap", "observed": "MemoryError (RLIMIT_AS 8 GB)"}
    except BaseException as e:  # the module lets library exceptions out only by mistake -> harness problem
        tb = traceback.extract_tb(e.__traceback__)[-1]
        return {"ok": False, "trivial": False, "scenario": _scenario_hint(case), "expected": "harness completes",
                "observed": f"harness-exception: {type(e).__name__}: {e} at {os.path.basename(tb.filename)}:{tb.lineno}"[:400]}
    finally:
        signal.setitimer(signal.ITIMER_REAL, 0)
        signal.signal(signal.SIGALRM, old)


def exec_in_child(case):
    """One case in a fresh python process (own session, killed as a group on timeout)."""
    t = timeout_s()
    cmd = [sys.executable, os.path.abspath(__file__), PID, "--replay", "-", "--repo", REPO, "--child"]
    payload = json.dumps({"property": PID, "case": case})
    p = subprocess.Popen(cmd, stdin=subprocess.PIPE, stdout=subprocess.PIPE, stderr=subprocess.PIPE,
                         start_new_session=True, text=True, cwd=HERE)
    try:
        out, err = p.communicate(payload, timeout=t + 5)   # the child has its own SIGALRM at t
    except subprocess.TimeoutExpired:
        _kill_group(p)
        p.communicate()
        return {"ok": False, "trivial": False, "scenario": f"{case.get('kind', '?')}/watchdog",
                "expected": f"terminates within {t:g} s", "observed": "timeout"}
    finally:
        _kill_group(p)          # nothing of the case's session may survive it
    try:
        return _normalise(json.loads(out.strip().splitlines()[-1]), case)
    except Exception:
        return {"ok": False, "trivial": False, "scenario": f"{case.get('kind', '?')}/watchdog",
                "expected": "child reports a result",
                "observed": f"child-crash: exit status {p.returncode}, stderr: {err[-300:]!r}"}


def _kill_group(p):
    try:
        os.killpg(p.pid, signal.SIGKILL)
    except (ProcessLookupError, PermissionError):
        pass


def exec_case(case):
    return exec_in_child(case) if getattr(MOD, "RUN_IN_SUBPROCESS", False) else exec_in_process(case)


def run_batch(batch):
    """Worker side: evaluate a batch, return a compact summary."""
    n, digests, fails, scen, failscen = 0, bytearray(), [], collections.Counter(), collections.Counter()
    first, last, skipped = {}, None, 0
    limit = int(getattr(MOD, "MAX_WATCHDOG_FAILURES", MAX_WATCHDOG_FAILURES))
    for case in batch:
        if WATCHDOGS is not None and WATCHDOGS.value >= limit:
            skipped += 1
            continue
        res = exec_case(case)
        n += 1
        if not res["ok"] and WATCHDOGS is not None and str(res["observed"]).startswith(("timeout", "MemoryError")):
            with WATCHDOGS.get_lock():
                WATCHDOGS.value += 1
        (scen if res["ok"] else failscen)[res["scenario"]] += 1
        if not res["trivial"]:
            digests += hashlib.blake2b(canon(case).encode(), digest_size=8).digest()
            if res["ok"]:       # sample candidates per batch: first case of every scenario + the last case
                if res["scenario"] not in first and len(first) < 8:
                    first[res["scenario"]] = case
                else:
                    last = {"scenario": res["scenario"], "case": case}
        if not res["ok"] and len(fails) < MAX_FAILURES:
            fails.append(jsonable({"scenario": res["scenario"], "case": case, "expected": res["expected"],
                                   "observed": res["observed"]}))
    samples = [{"scenario": k, "case": v} for k, v in first.items()] + ([last] if last else [])
    return n, bytes(digests), fails, samples, dict(scen), dict(failscen), skipped


def batches(it, size):
    it = iter(it)
    while True:
        b = list(itertools.islice(it, size))
        if not b:
            return
        yield b


def enumerate_all(tier, seed, jobs):
    from concurrent.futures import ProcessPoolExecutor
    import multiprocessing
    size = 1 if getattr(MOD, "RUN_IN_SUBPROCESS", False) else int(getattr(MOD, "BATCH", BATCH))
    gen = batches(MOD.cases(tier, seed), size)
    evaluations, failures = 0, []
    distinct = [array.array("Q") for _ in range(256)]    # 64-bit digests of the non-trivial cases, bucketed
    samples, reserve, scenarios, failscen = [], [], collections.Counter(), collections.Counter()
    seen, rng, skipped = 0, random.Random(seed), 0
    global WATCHDOGS
    WATCHDOGS = multiprocessing.get_context("fork").Value("i", 0)

    def absorb(r):
        nonlocal evaluations, seen, skipped
        n, digests, fails, samp, scen, fscen, skip = r
        evaluations += n
        skipped += skip
        for d in array.array("Q", digests):
            distinct[d & 255].append(d)
        scenarios.update(scen)
        failscen.update(fscen)
        for f in fails:
            if len(failures) < MAX_FAILURES:
                failures.append(f)
        for s in samp:
            if len(samples) < MAX_SAMPLES and s["scenario"] not in {x["scenario"] for x in samples}:
                samples.append(s)
            else:               # reservoir over the remaining candidates
                seen += 1
                if len(reserve) < MAX_SAMPLES:
                    reserve.append(s)
                elif rng.randrange(seen) < MAX_SAMPLES:
                    reserve[rng.randrange(MAX_SAMPLES)] = s

    if jobs <= 1:
        for b in gen:
            absorb(run_batch(b))
    else:
        ctx = multiprocessing.get_context("fork")
        with ProcessPoolExecutor(max_workers=jobs, mp_context=ctx) as ex:
            window = collections.deque()
            for b in gen:
                window.append(ex.submit(run_batch, b))
                while len(window) >= jobs * 6:
                    absorb(window.popleft().result())
            while window:
                absorb(window.popleft().result())
    for s in reserve:
        if len(samples) < MAX_SAMPLES and s not in samples:
            samples.append(s)
    return evaluations, sum(len(set(b)) for b in distinct), failures, samples, scenarios, failscen, skipped


def main(argv=None):
    ap = argparse.ArgumentParser(description=__doc__, formatter_class=argparse.RawDescriptionHelpFormatter)
    ap.add_argument("property")
    ap.add_argument("--tier", choices=("quick", "thorough"), default="quick")
    ap.add_argument("--seed", type=int, default=int(os.environ.get("VERIF_SEED", "0")))
    ap.add_argument("--repo", default="/repo")
    ap.add_argument("--out")
    ap.add_argument("--jobs", type=int, default=8)
    ap.add_argument("--replay", help='JSON file {"property": ID, "case": {...}} ("-" = stdin)')
    ap.add_argument("--child", action="store_true", help=argparse.SUPPRESS)
    a = ap.parse_args(argv)

    limit_memory()
    load(a.property, a.repo)

    if a.replay:
        doc = json.load(sys.stdin) if a.replay == "-" else json.load(open(a.replay))
        if isinstance(doc, dict) and "case" in doc:
            assert doc.get("property", a.property) == a.property, \
                f"replay file is for {doc.get('property')}, not {a.property}"
            case = doc["case"]
        else:
            case = doc
        res = exec_in_process(case) if a.child else exec_case(case)
        print(json.dumps(jsonable(res)))
        sys.stdout.flush()
        return 0 if res["ok"] else 1

    t0 = time.time()
    evaluations, distinct, failures, samples, scenarios, failscen, skipped = enumerate_all(a.tier, a.seed, a.jobs)
    bounds = MOD.BOUNDS.get(a.tier, MOD.BOUNDS) if isinstance(MOD.BOUNDS, dict) else MOD.BOUNDS
    out = {"property": a.property, "tier": a.tier, "seed": a.seed, "bounds": jsonable(bounds), "rule": MOD.RULE,
           "evaluations": evaluations, "distinct_nontrivial": distinct, "samples": jsonable(samples),
           "failures": failures, "failed_evaluations": sum(failscen.values()),
           "failed_scenarios": dict(sorted(failscen.items())), "passed_scenarios": dict(sorted(scenarios.items())),
           "complete": skipped == 0, "skipped_after_watchdog_failures": skipped,
           "wall_s": round(time.time() - t0, 2)}
    text = json.dumps(out, indent=1)
    if a.out:
        with open(a.out, "w") as f:
            f.write(text + "\n")
        print(f"{a.property} {a.tier}: {evaluations} evaluations, {distinct} distinct non-trivial, "
              f"{out['failed_evaluations']} failed, {out['wall_s']} s"
              + (f" (INCOMPLETE: {skipped} cases skipped after repeated watchdog failures)" if skipped else "")
              + f" -> {a.out}")
    else:
        print(text)
    return 0


if __name__ == "__main__":
    try:
        code = main()
    except SystemExit:
        raise
    except BaseException:
        traceback.print_exc()
        code = 3
    sys.stdout.flush()
    sys.exit(code)
