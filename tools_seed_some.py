"""usage: python3 tools_seed_some.py <ID>-<k> ...   runs ./check on the named filed seeds (scratch worktrees /tmp/seed/<ID> must exist, see tools_seed_all.py) and updates seeded/RESULTS.json"""
import subprocess, sys, json, os, time
sys.path.insert(0, "/verif")
sids = sys.argv[1:]
head = subprocess.check_output(["git","-C","/repo","rev-parse","HEAD"]).decode().strip()
res = json.load(open("/verif/seeded/RESULTS.json"))
for sid in sids:
    pid = sid.split("-")[0]; d = "/verif/seeded/" + sid; wt = "/tmp/seed/" + pid
    subprocess.run(["git","-C",wt,"checkout","-q","--","."]); subprocess.run(["git","-C",wt,"checkout","-q","--detach",head])
    ap = subprocess.run(["git","-C",wt,"apply",d+"/patch.diff"], capture_output=True, text=True)
    if ap.returncode: print(sid, "patch does not apply"); continue
    t0=time.time()
    p = subprocess.run(["./check", pid], cwd="/verif", env=dict(os.environ, PYVC_REPO=wt), capture_output=True, text=True)
    subprocess.run(["git","-C",wt,"checkout","-q","--","."])
    lines = p.stdout.strip().splitlines(); viol=[l for l in lines if l.startswith("VIOLATION")]
    res[sid] = {"exit": p.returncode, "wall_s": round(time.time()-t0), "summary": lines[0] if lines else "", "violations":[l[:400] for l in viol[:4]],
                "undecided": len([l for l in lines if l.startswith("UNDECIDED")]),
                "deductive_violation": any("no-failing-input-found" in l or ("/bounded/" not in l) for l in viol),
                "bounded_violation": any("/bounded/" in l for l in viol)}
    print(sid, p.returncode, "L1" if res[sid]["deductive_violation"] else "-", "L2" if res[sid]["bounded_violation"] else "-", res[sid]["wall_s"], (viol or [""])[0][60:200], flush=True)
    cur = json.load(open("/verif/seeded/RESULTS.json"))      # re-read: another run of this tool may have added entries meanwhile
    cur[sid] = res[sid]
    json.dump(cur, open("/verif/seeded/RESULTS.json","w"), indent=1)
