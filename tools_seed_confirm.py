#!/usr/bin/env python3
"""Confirms seeded changes produced by independent sub-agents and files them under /verif/seeded/<PID>-<k>/.
usage: tools_seed_confirm.py <PID> [<worktree>]    (worktree default /tmp/seed/<PID>, expects out/mutant_k.diff, demo_k.py, meta_k.json)
For each k: clean tree -> demo exits 0; patch applies; patched tree -> demo exits non-zero AND the existing tests pass
(full suite; tests/test_own_proc_pools.py is skipped only when the patch touches neither windpyutils/parallel/ nor windpyutils/buffers.py)."""
import json, os, shutil, subprocess, sys, time, glob
pid = sys.argv[1]
wt = sys.argv[2] if len(sys.argv) > 2 else "/tmp/seed/" + pid
PY = "/venv/bin/python"
def run(cmd, **kw):
    return subprocess.run(cmd, cwd=wt, capture_output=True, text=True, **kw)
def demo(path):
    env = dict(os.environ, PYTHONPATH=wt)
    try:
        p = subprocess.run([PY, path], cwd=wt, capture_output=True, text=True, timeout=300, env=env)
        return p.returncode, (p.stdout + p.stderr)[-400:]
    except subprocess.TimeoutExpired:
        return 124, "timeout"
for diff in sorted(glob.glob(os.path.join(wt, "out", "mutant_*.diff"))):
    k = os.path.basename(diff)[len("mutant_"):-len(".diff")]
    dm = os.path.join(wt, "out", "demo_%s.py" % k)
    meta = json.load(open(os.path.join(wt, "out", "meta_%s.json" % k)))
    rec = {"property": pid, "k": k, "agent_meta": meta}
    run(["git", "checkout", "-q", "--", "."])
    rc0, out0 = demo(dm)
    ap = run(["git", "apply", diff])
    if ap.returncode != 0:
        rec["confirmed"] = False; rec["why"] = "patch does not apply: " + ap.stderr[-200:]
    else:
        files = run(["git", "diff", "--name-only"]).stdout.split()
        rc1, out1 = demo(dm)
        touches_pools = any(f.startswith("windpyutils/parallel/") or f == "windpyutils/buffers.py" for f in files)
        cmd = [PY, "-m", "pytest", "tests", "-q", "-p", "no:cacheprovider", "--timeout=900", "-x"]
        if not touches_pools:
            cmd += ["--deselect", "tests/test_own_proc_pools.py"]
        t0 = time.time()
        tp = run(cmd, timeout=3000)
        tail = (tp.stdout or "").strip().splitlines()[-1:] 
        rec.update({"files": files, "demo_clean_rc": rc0, "demo_mutated_rc": rc1, "demo_mutated_output": out1,
                    "tests_cmd": " ".join(cmd), "tests_rc": tp.returncode, "tests_tail": tail, "tests_wall_s": round(time.time() - t0)})
        rec["confirmed"] = (rc0 == 0 and rc1 != 0 and tp.returncode == 0)
    run(["git", "checkout", "-q", "--", "."])
    print(pid, k, "CONFIRMED" if rec["confirmed"] else "REJECTED", rec.get("tests_tail"), rec.get("demo_clean_rc"), rec.get("demo_mutated_rc"), flush=True)
    if rec["confirmed"]:
        d = "/verif/seeded/%s-%s" % (pid, k)
        os.makedirs(d, exist_ok=True)
        shutil.copy(diff, os.path.join(d, "patch.diff"))
        shutil.copy(dm, os.path.join(d, "demo.py"))
        json.dump({"property": pid, "breaks": meta.get("summary"), "needs": meta.get("needs"), "files": rec["files"],
                   "confirmed_by": {"demo_on_clean_tree_rc": rc0, "demo_on_mutated_tree_rc": rc1, "demo_output_mutated": out1,
                                    "existing_tests_cmd": rec["tests_cmd"], "existing_tests_result": tail, "ran_in": "scratch git worktree of /repo HEAD"},
                   "source": "independent sub-agent given only the property text"}, open(os.path.join(d, "meta.json"), "w"), indent=1)
    else:
        json.dump(rec, open("/tmp/seed/rejected_%s_%s.json" % (pid, k), "w"), indent=1)
