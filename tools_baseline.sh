#!/bin/bash
# maintainer action on the UNCHANGED /repo: records, per property, the obligations discharged and the source hashes of the functions
# under contract (baseline/<ID>.json) - the reference the regression rule of DESIGN §10.2 compares against. Also rewrites evidence/.
cd "$(dirname "$0")"
for p in ${@:-$(python3 -c "import json;print(' '.join(c['property_id'] for c in json.load(open('MANIFEST.json'))['checks']))")}; do
  out=$(./check $p --update-baseline 2>&1); rc=$?
  echo "$p exit=$rc $(echo "$out" | grep -E '^(property|baseline)' | cut -c1-160 | tr '\n' ' ')"
  echo "$out" | grep -E "^(VIOLATION|UNDECIDED|CHECKER-ERROR)" | cut -c1-200
done
