"""C08: DoublyLinkedList behaves as the reference sequence of node identities and keeps links + length consistent.

Ghost state of a list L: s = the sequence of its nodes (identities), pos = inverse index.  Every mutator is verified
against the reference sequence operation on s, with wf (links + head/tail + size == |s|) as class invariant.
Payloads are an uninterpreted sort and are never compared (identity-only rule, structural-eq-bounded)."""
from pyvc.dsl import *

NODE = "DoublyLinkedListNode"


def declare(U, data_sort=ANY, with_size=True):
    """registers the list classes and contracts in unit U (also used by the cache units, with their payload sort)"""
    M = U.module("windpyutils/structures/lists.py")
    N = M.cls(NODE, fields={"data": data_sort, "prev_node": RefS(NODE), "next_node": RefS(NODE)},
              dataclass_fields=["data", "prev_node", "next_node"])
    N.eq_structural = True
    L = M.cls("DoublyLinkedList", fields={"head": RefS(NODE), "tail": RefS(NODE), "size": INT},
              ghost={"s": SeqS(RefS(NODE)), "pos": ArrS(RefS(NODE), INT)})
    U.var("n", RefS(NODE))
    U.define("links", ["L"],
             "implies(len(L.s) == 0, L.head == None and L.tail == None)"
             " and implies(len(L.s) > 0, L.head == L.s[0] and L.tail == L.s[len(L.s) - 1] and L.s[0].prev_node == None"
             "             and L.s[len(L.s) - 1].next_node == None)"
             " and forall(i, 0, len(L.s), L.s[i] != None and L.pos[L.s[i]] == i and alive(L.s[i]), trigger=L.s[i])"
             " and forall(i, 0, len(L.s) - 1, L.s[i].next_node == L.s[i + 1] and L.s[i + 1].prev_node == L.s[i], trigger=L.s[i])")
    U.define("inlist", ["L", "x"], "0 <= L.pos[x] and L.pos[x] < len(L.s) and L.s[L.pos[x]] == x")
    U.define("shift_del", ["p", "k"], "ite(p > k, p - 1, p)")
    U.define("shift_ins", ["p", "j"], "ite(p >= j, p + 1, p)")
    U.define("ends_ok", ["L"],
             "implies(len(L.s) == 0, L.head == None and L.tail == None)"
             " and implies(len(L.s) > 0, L.head == L.s[0] and L.tail == L.s[len(L.s) - 1] and L.s[0].prev_node == None"
             "             and L.s[len(L.s) - 1].next_node == None)")
    U.define("elems_ok", ["L"], "forall(i, 0, len(L.s), L.s[i] != None and L.pos[L.s[i]] == i and alive(L.s[i]), trigger=L.s[i])")
    U.define("adjacent_ok", ["L"],
             "forall(i, 0, len(L.s) - 1, L.s[i].next_node == L.s[i + 1] and L.s[i + 1].prev_node == L.s[i], trigger=L.s[i])")
    L.invariant("ends_ok(self)", "head-tail-and-end-links")
    L.invariant("elems_ok(self)", "elements-distinct-non-null")
    L.invariant("adjacent_ok(self)", "prev-next-mutually-consistent")
    L.invariant("self.size == len(self.s)", "len=number-of-elements")

    m = L.method("__init__", {"data": OptS(SeqS(data_sort))})
    m.modifies("self.head", "self.tail", "self.size", "self.s", "self.pos", NODE + ".next_node[*]", NODE + ".prev_node[*]")
    m.ghost_entry("self.s = empty_like(self.s)")
    m.ensures("implies(is_none(data), len(self.s) == 0)")
    m.ensures("implies(not is_none(data), len(self.s) == len(some(data))"
              " and forall(t, 0, len(some(data)), self.s[t].data == some(data)[t] and fresh(self.s[t])))", "elements-in-input-order")

    m = L.method("append", {"data": data_sort}, RefS(NODE))
    m.modifies("self.head", "self.tail", "self.size", "self.s", "self.pos", "self.tail.next_node")
    m.ghost_exit("self.s = append(old(self.s), result)")
    m.ghost_exit("self.pos = aset(old(self.pos), result, len(old(self.s)))")
    m.ensures("fresh(result) and result != None and result.data == data", "new-node-wraps-data")
    m.ensures("self.s == append(old(self.s), result)", "s'=s+[new]")

    m = L.method("prepend", {"data": data_sort}, RefS(NODE))
    m.modifies("self.head", "self.tail", "self.size", "self.s", "self.pos", "self.head.prev_node")
    m.ghost_exit("self.s = insert_at(old(self.s), 0, result)")
    m.ghost_exit("self.pos = lam(n, ite(n == result, 0, old(self.pos)[n] + 1))")
    m.ensures("fresh(result) and result != None and result.data == data", "new-node-wraps-data")
    m.ensures("self.s == insert_at(old(self.s), 0, result)", "s'=[new]+s")

    m = L.method("extend", {"data": SeqS(data_sort)})
    m.modifies("self.head", "self.tail", "self.size", "self.s", "self.pos", NODE + ".next_node[*]")
    lp = m.loop(1).with_class_invariant()
    lp.invariant("len(self.s) == old(len(self.s)) + _i1")
    lp.invariant("forall(t, 0, old(len(self.s)), self.s[t] == old(self.s)[t], trigger=self.s[t])")
    lp.invariant("forall(t, 0, _i1, self.s[old(len(self.s)) + t].data == data[t] and fresh(self.s[old(len(self.s)) + t]))")
    m.ensures("len(self.s) == old(len(self.s)) + len(data)")
    m.ensures("forall(t, 0, old(len(self.s)), self.s[t] == old(self.s)[t], trigger=self.s[t])", "old-elements-keep-their-place")
    m.ensures("forall(t, 0, len(data), self.s[old(len(self.s)) + t].data == data[t] and fresh(self.s[old(len(self.s)) + t]))",
              "new-elements-appended-in-order")

    m = L.method("pre_extend", {"data": SeqS(data_sort)})
    m.modifies("self.head", "self.tail", "self.size", "self.s", "self.pos", NODE + ".prev_node[*]")
    lp = m.loop(1).with_class_invariant()
    lp.invariant("len(self.s) == old(len(self.s)) + _i1")
    lp.invariant("forall(t, 0, old(len(self.s)), self.s[_i1 + t] == old(self.s)[t])")
    lp.invariant("forall(t, 0, _i1, self.s[_i1 - 1 - t].data == data[t] and fresh(self.s[_i1 - 1 - t]))")
    m.ensures("len(self.s) == old(len(self.s)) + len(data)")
    m.ensures("forall(t, 0, old(len(self.s)), self.s[len(data) + t] == old(self.s)[t])", "old-elements-shifted")
    m.ensures("forall(t, 0, len(data), self.s[len(data) - 1 - t].data == data[t] and fresh(self.s[len(data) - 1 - t]))",
              "new-elements-prepended-in-reverse")

    m = L.method("remove", {"node": RefS(NODE)})
    m.requires("inlist(self, node)", "node-belongs-to-the-list")
    m.modifies("self.head", "self.tail", "self.size", "self.s", "self.pos", "node.prev_node.next_node", "node.next_node.prev_node")
    m.ghost_exit("self.s = remove_at(old(self.s), old(self.pos[node]))")
    m.ghost_exit("self.pos = lam(n, shift_del(old(self.pos)[n], old(self.pos[node])))")
    m.ensures("self.s == remove_at(old(self.s), old(self.pos[node]))", "s'=s-without-node")
    m.ensures("forall(n, implies(old(inlist(self, n)) and n != node, self.pos[n] == shift_del(old(self.pos)[n], old(self.pos[node]))))")
    m.ensures("not inlist(self, node)")
    m.ensures("forall(i, 0, len(self.s), self.s[i] != node, trigger=self.s[i])", "node-no-longer-in-s")
    m.ensures("forall(n, implies(old(inlist(self, n)) and n != node, inlist(self, n)))", "other-nodes-stay")
    m.ensures("len(self.s) == old(len(self.s)) - 1")

    for name, last in (("pop_back", True), ("pop_front", False)):
        m = L.method(name, {}, data_sort)
        m.raises("IndexError", when="len(self.s) == 0")
        m.modifies("self.head", "self.tail", "self.size", "self.s", "self.pos", NODE + ".next_node[*]", NODE + ".prev_node[*]")
        idx = "old(len(self.s)) - 1" if last else "0"
        m.ensures("result == old(self.s[%s].data)" % ("len(self.s) - 1" if last else "0"), "returns-payload")
        m.ensures("self.s == remove_at(old(self.s), %s)" % idx, "s'=s-without-%s" % ("last" if last else "first"))

    m = L.method("__len__", {}, INT)
    m.ensures("result == len(self.s)", "len=number-of-elements")

    m = L.method("iter_nodes", {}, yields=RefS(NODE), locals={"node": RefS(NODE)})
    m.reads("DoublyLinkedList.head", NODE + ".next_node")      # a live walk: it keeps reading the links
    m.ghost_entry("g_p = 0")
    lp = m.loop(1)
    lp.invariant("0 <= g_p and g_p <= len(self.s)")
    lp.invariant("node == ite(g_p < len(self.s), self.s[g_p], None)")
    lp.invariant("len(yielded) == g_p and forall(t, 0, g_p, yielded[t] == self.s[t], trigger=yielded[t])")
    lp.ghost_at_end("g_p = g_p + 1")
    lp.decreases("len(self.s) - g_p")
    m.ensures("yielded == self.s", "forward-traversal=reference-sequence")

    m = L.method("__iter__", {}, yields=data_sort)
    m.reads("DoublyLinkedList.head", NODE + ".next_node", NODE + ".data")
    lp = m.loop(1)
    lp.invariant("len(yielded) == _i1 and forall(t, 0, _i1, yielded[t] == self.s[t].data, trigger=yielded[t])")
    lp.invariant("_seq1 == self.s")
    m.ensures("len(yielded) == len(self.s) and forall(t, 0, len(self.s), yielded[t] == self.s[t].data, trigger=yielded[t])",
              "payloads-in-reference-order")

    def moved(j):
        # reference: remove node (index k) then insert it at index j of the shortened sequence
        return "insert_at(remove_at(old(self.s), old(self.pos[node])), %s, node)" % j

    def ghost_reinsert(m, j, unless=None):
        # reference result computed from the PRE-state only (independent of how the implementation gets there):
        # remove node (index k), then insert it at index j of the shortened sequence
        k = "old(self.pos[node])"
        se = "insert_at(remove_at(old(self.s), %s), %s, node)" % (k, j)
        pe = "lam(n, ite(n == node, %s, shift_ins(shift_del(old(self.pos)[n], %s), %s)))" % (j, k, j)
        if unless:
            se = "ite(%s, old(self.s), %s)" % (unless, se)
            pe = "ite(%s, old(self.pos), %s)" % (unless, pe)
        m.ghost_exit("self.s = " + se)
        m.ghost_exit("self.pos = " + pe)

    m = L.method("move_to_front", {"node": RefS(NODE)})
    m.requires("inlist(self, node)", "node-belongs-to-the-list")
    m.raises("RuntimeError", when="len(self.s) == 0")
    m.modifies("self.head", "self.tail", "self.size", "self.s", "self.pos", NODE + ".next_node[*]", NODE + ".prev_node[*]")
    ghost_reinsert(m, "0")
    m.ensures("self.s == " + moved("0"), "s'=[node]+(s-without-node)")
    m.ensures("forall(n, implies(old(inlist(self, n)), inlist(self, n)))", "same-node-set")

    m = L.method("move_to_back", {"node": RefS(NODE)})
    m.requires("inlist(self, node)", "node-belongs-to-the-list")
    m.raises("RuntimeError", when="len(self.s) == 0")
    m.modifies("self.head", "self.tail", "self.size", "self.s", "self.pos", NODE + ".next_node[*]", NODE + ".prev_node[*]")
    ghost_reinsert(m, "(old(len(self.s)) - 1)")
    m.ensures("self.s == " + moved("old(len(self.s)) - 1"), "s'=(s-without-node)+[node]")
    m.ensures("forall(n, implies(old(inlist(self, n)), inlist(self, n)))", "same-node-set")

    m = L.method("move_after", {"node": RefS(NODE), "after": RefS(NODE)})
    m.requires("inlist(self, node) and inlist(self, after)", "both-nodes-belong-to-the-list")
    m.modifies("self.head", "self.tail", "self.size", "self.s", "self.pos", NODE + ".next_node[*]", NODE + ".prev_node[*]")
    j = "(shift_del(old(self.pos[after]), old(self.pos[node])) + 1)"
    ghost_reinsert(m, j, unless="node == after")
    m.ensures("implies(node == after, self.s == old(self.s))", "node-is-after:unchanged")
    m.ensures("implies(node != after, self.s == %s)" % moved(j), "s'=node-directly-after-`after`")
    m.ensures("forall(n, implies(old(inlist(self, n)), inlist(self, n)))", "same-node-set")
    m.ensures("len(self.s) == old(len(self.s))")

    m = L.method("rotate", {"front_to_back": BOOL})
    m.modifies("self.head", "self.tail", "self.s", "self.pos", NODE + ".next_node[*]", NODE + ".prev_node[*]")
    f2b = "append(remove_at(old(self.s), 0), old(self.s)[0])"
    b2f = "insert_at(remove_at(old(self.s), old(len(self.s)) - 1), 0, old(self.s)[old(len(self.s)) - 1])"
    m.ghost_exit("self.s = ite(old(len(self.s)) <= 1, old(self.s), ite(front_to_back, %s, %s))" % (f2b, b2f))
    m.ghost_exit("self.pos = ite(old(len(self.s)) <= 1, old(self.pos), ite(front_to_back,"
                 " lam(n, ite(n == old(self.s)[0], old(len(self.s)) - 1, old(self.pos)[n] - 1)),"
                 " lam(n, ite(n == old(self.s)[old(len(self.s)) - 1], 0, old(self.pos)[n] + 1))))")
    m.ensures("implies(old(len(self.s)) <= 1, self.s == old(self.s))")
    m.ensures("implies(old(len(self.s)) > 1 and front_to_back, self.s == %s)" % f2b, "first-element-moved-to-the-end")
    m.ensures("implies(old(len(self.s)) > 1 and not front_to_back, self.s == %s)" % b2f, "last-element-moved-to-the-front")
    return L


METHODS = ["__init__", "append", "prepend", "extend", "pre_extend", "remove", "pop_back", "pop_front", "__len__", "iter_nodes",
           "__iter__", "move_to_front", "move_to_back", "move_after", "rotate"]


def unit():
    U = Unit("C08/DoublyLinkedList", "C08")
    declare(U, ANY)
    for f in METHODS:
        U.verify("DoublyLinkedList", f)
    U.assume("node arguments belong to the list operated on (precondition inlist); payloads uninterpreted")
    U.assume("an Iterable argument of extend/pre_extend/__init__ is a finite sequence evaluated once")
    return U
