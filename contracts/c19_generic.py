"""C19: generic sequence helpers equal their brute-force definitions (generic.py).
Roman numerals are not under contract: the domain 1..3999 is finite and is enumerated exhaustively by the bounded layer."""
from pyvc.dsl import *
from . import c09_sorted


def unit_arg_sort():
    U = Unit("C19/arg_sort", "C19")
    c09_sorted.arg_sort_contract(U)
    U.verify(None, "arg_sort")
    U.assume("sorted(range(n), key=..., reverse=...): stable permutation, ascending (descending and stable among equals for reverse=True)")
    return U


def unit_subseq():
    U = Unit("C19/sub_seq+search_sub_seq", "C19")
    G = U.module("windpyutils/generic.py")
    U.define("match", ["s1", "s2", "o"], "forall(t, 0, len(s1), s2[o + t] == s1[t], trigger=s1[t])")
    m = G.function("sub_seq", {"s1": SeqS(ANY), "s2": SeqS(ANY)}, BOOL)
    m.ensures("implies(result, exists(o, 0, len(s2) - len(s1) + 1, match(s1, s2, o)))", "True=>some-window-of-s2-equals-s1")
    m.ensures("implies(exists(o, 0, len(s2) - len(s1) + 1, match(s1, s2, o)), result)", "some-window-equals-s1=>True(empty-s1-included)")

    m = G.function("search_sub_seq", {"s1": SeqS(ANY), "s2": SeqS(ANY)}, SeqS(TupS(INT, INT)),
                   locals={"res": SeqS(TupS(INT, INT)), "offset": INT, "end_offset": INT})
    m.raises("ValueError", when="len(s1) == 0 or len(s2) == 0")
    m.ghost_entry("g_at = lam(i, 0)")
    lp = m.loop(1)
    lp.invariant("forall(i, 0, len(res), 0 <= res[i][0] and res[i][0] < _i1 and res[i][1] == res[i][0] + len(s1) and match(s1, s2, res[i][0]),"
                 " trigger=res[i])")
    lp.invariant("forall(i, 0, len(res), forall(j, i + 1, len(res), res[i][0] < res[j][0]))")
    lp.invariant("forall(o, 0, _i1, implies(match(s1, s2, o), 0 <= g_at[o] and g_at[o] < len(res) and res[g_at[o]][0] == o))")
    lp.ghost_at_end("g_at = ite(match(s1, s2, offset), aset(g_at, offset, len(res) - 1), g_at)")
    n = "(len(s2) - len(s1) + 1)"
    m.ensures("forall(i, 0, len(result), 0 <= result[i][0] and result[i][0] < %s and result[i][1] == result[i][0] + len(s1)"
              " and match(s1, s2, result[i][0]), trigger=result[i])" % n, "every-reported-span-is-an-occurrence")
    m.ensures("forall(i, 0, len(result), forall(j, i + 1, len(result), result[i][0] < result[j][0]))", "ascending-no-repeats")
    m.ensures("forall(o, 0, %s, implies(match(s1, s2, o), exists(i, 0, len(result), result[i][0] == o)))" % n,
              "every-occurrence-is-reported(overlapping-ones-included)")
    U.verify(None, "sub_seq")
    U.verify(None, "search_sub_seq")
    U.assume("sequence elements are an uninterpreted sort with equality; == on sequences is length + elementwise equality")
    return U
