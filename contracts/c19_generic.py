"""C19: generic sequence helpers equal their brute-force definitions (generic.py).
Roman numerals are not under contract: the domain 1..3999 is finite and is enumerated exhaustively by the bounded layer."""
from pyvc.dsl import *
from . import c09_sorted


def unit_arg_sort():
    U = Unit("C19/arg_sort", "C19")
    c09_sorted.arg_sort_contract(U)
    U.verify(None, "arg_sort")
    U.assume("sorted(range(n), key=..., reverse=...): stable permutation, ascending (descending and stable among equals for reverse=True)")
    return U


def unit_subseq():
    U = Unit("C19/sub_seq+search_sub_seq", "C19")
    G = U.module("windpyutils/generic.py")
    U.define("match", ["s1", "s2", "o"], "forall(t, 0, len(s1), s2[o + t] == s1[t], trigger=s1[t])")
    m = G.function("sub_seq", {"s1": SeqS(ANY), "s2": SeqS(ANY)}, BOOL)
    # stated over slices, the vocabulary of the code (s1 == s2[o:o + len(s1)]); that a slice equals s1 exactly when the window matches
    # elementwise is the lemma window=slice below (a pure fact about sequences, proved once, without any path condition in the query)
    win = "exists(o, 0, len(s2) - len(s1) + 1, s1 == s2[o:o + len(s1)])"
    m.ensures("implies(result, %s)" % win, "True=>some-window-of-s2-equals-s1")
    m.ensures("implies(%s, result)" % win, "some-window-equals-s1=>True(empty-s1-included)")
    U.lemma("window=slice", {"ls1": SeqS(ANY), "ls2": SeqS(ANY), "lo": INT}, ["0 <= lo and lo <= len(ls2) - len(ls1)"],
            ["iff(ls1 == ls2[lo:lo + len(ls1)], match(ls1, ls2, lo))"], induct=None)

    m = G.function("search_sub_seq", {"s1": SeqS(ANY), "s2": SeqS(ANY)}, SeqS(TupS(INT, INT)),
                   locals={"res": SeqS(TupS(INT, INT)), "offset": INT, "end_offset": INT})
    m.raises("ValueError", when="len(s1) == 0 or len(s2) == 0")
    m.ghost_entry("g_at = lam(i, 0)")
    lp = m.loop(1)
    lp.invariant("forall(i, 0, len(res), 0 <= res[i][0] and res[i][0] < _i1 and res[i][1] == res[i][0] + len(s1) and match(s1, s2, res[i][0]),"
                 " trigger=res[i])")
    lp.invariant("forall(i, 0, len(res), forall(j, i + 1, len(res), res[i][0] < res[j][0]))")
    lp.invariant("forall(o, 0, _i1, implies(match(s1, s2, o), 0 <= g_at[o] and g_at[o] < len(res) and res[g_at[o]][0] == o))")
    lp.ghost_at_end("g_at = ite(match(s1, s2, offset), aset(g_at, offset, len(res) - 1), g_at)")
    n = "(len(s2) - len(s1) + 1)"
    m.ensures("forall(i, 0, len(result), 0 <= result[i][0] and result[i][0] < %s and result[i][1] == result[i][0] + len(s1)"
              " and match(s1, s2, result[i][0]), trigger=result[i])" % n, "every-reported-span-is-an-occurrence")
    m.ensures("forall(i, 0, len(result), forall(j, i + 1, len(result), result[i][0] < result[j][0]))", "ascending-no-repeats")
    m.ensures("forall(o, 0, %s, implies(match(s1, s2, o), exists(i, 0, len(result), result[i][0] == o)))" % n,
              "every-occurrence-is-reported(overlapping-ones-included)")
    U.verify(None, "sub_seq")
    U.verify(None, "search_sub_seq")
    U.assume("sequence elements are an uninterpreted sort with equality; == on sequences is length + elementwise equality")
    return U


def unit_batcher():
    """Batcher / BatcherIter on a single sequence (tuple inputs: bounded layer only)"""
    U = Unit("C19/Batcher+BatcherIter", "C19")
    G = U.module("windpyutils/generic.py")
    B = G.cls("Batcher", fields={"data": SeqS(ANY), "batch_size": INT})
    B.invariant("self.batch_size >= 1", "batch_size>=1")
    m = B.method("__init__", {"batchify_data": SeqS(ANY), "batch_size": INT})
    m.raises("ValueError", when="batch_size <= 0")
    m.modifies("self.data", "self.batch_size")
    m.ensures("self.data == batchify_data and self.batch_size == batch_size")
    m = B.method("__len__", {}, INT, locals={"samples": INT})
    m.ensures("result >= 0 and (result - 1) * self.batch_size < len(self.data) and len(self.data) <= result * self.batch_size",
              "len=ceil(n/batch_size)")
    m = B.method("__getitem__", {"item": INT}, SeqS(ANY), locals={"offset": INT})
    m.requires("item >= 0")
    L = "(item * self.batch_size >= len(self.data))"
    m.raises("IndexError", when=L)
    m.ensures("len(result) == min(self.batch_size, len(self.data) - item * self.batch_size) and len(result) >= 1", "batch-size(last-one-shorter-non-empty)")
    m.ensures("forall(t, 0, len(result), result[t] == self.data[item * self.batch_size + t], trigger=result[t])",
              "batch-i=data[i*bs:(i+1)*bs]")
    I = G.cls("BatcherIter", fields={"data": SeqS(ANY), "batch_size": INT})
    I.invariant("self.batch_size >= 1", "batch_size>=1")
    m = I.method("__init__", {"batchify_data": SeqS(ANY), "batch_size": INT})
    m.raises("ValueError", when="batch_size <= 0")
    m.modifies("self.data", "self.batch_size")
    m.ensures("self.data == batchify_data and self.batch_size == batch_size")
    m = I.method("__iter__", {}, yields=SeqS(ANY), locals={"batch": SeqS(ANY)})
    m.reads("BatcherIter.data", "BatcherIter.batch_size")
    m.loop(1), m.loop(2)            # tuple branch (not reachable for a single sequence): bounded layer only
    m.ghost_entry("g_off = lam(i, 0)")
    lp = m.loop(3)
    k = "len(yielded)"
    lp.invariant("len(batch) < self.batch_size and g_off[%s] + len(batch) == _i3 and g_off[0] == 0" % k)
    lp.invariant("forall(t, 0, len(batch), batch[t] == self.data[g_off[%s] + t], trigger=batch[t])" % k)
    lp.invariant("forall(j, 0, %s, len(yielded[j]) == self.batch_size and g_off[j + 1] == g_off[j] + self.batch_size"
                 " and forall(t, 0, self.batch_size, yielded[j][t] == self.data[g_off[j] + t]), trigger=yielded[j])" % k)
    lp.ghost_at_end("g_off = aset(g_off, len(yielded), _i3 - len(batch))")
    m.ghost_exit("g_off = aset(g_off, len(yielded), len(self.data))")
    m.ensures("g_off[0] == 0 and g_off[len(yielded)] == len(self.data)", "batches-cover-the-input-exactly")
    m.ensures("forall(j, 0, len(yielded), 1 <= len(yielded[j]) and len(yielded[j]) <= self.batch_size and g_off[j + 1] == g_off[j] + len(yielded[j])"
              " and forall(t, 0, len(yielded[j]), yielded[j][t] == self.data[g_off[j] + t]), trigger=yielded[j])",
              "consecutive-non-empty-batches:concatenation=input")
    m.ensures("forall(j, 0, len(yielded) - 1, len(yielded[j]) == self.batch_size, trigger=yielded[j])", "all-but-the-last-batch-are-full")
    for f in ("__init__", "__len__", "__getitem__"):
        U.verify("Batcher", f)
    for f in ("__init__", "__iter__"):
        U.verify("BatcherIter", f)
    U.assume("a batched iterable is a finite sequence evaluated once; tuple inputs (lock-step batching) are covered by the bounded layer only")
    U.assume("integer // is Python floor division on mathematical integers (nonlinear obligations use z3's NLA)")
    return U


def unit_compare():
    """compare_pos_in_iterables is multiset equality: result <=> every value occurs equally often in a and in b.
    cnt(s, v, n) = number of occurrences of v among the first n elements of s (recursive definition); everything the proof needs about
    it - bounds, absence, presence, monotonicity, the effect of deleting one position - is a lemma proved by induction here."""
    U = Unit("C19/compare_pos_in_iterables", "C19")
    G = U.module("windpyutils/generic.py")
    S = SeqS(ANY)
    U.var("v", ANY)
    U.spec_fun("cnt", [S, ANY, INT], INT)
    U.rec_def("cnt", ["s", "v", "n"], "implies(n <= 0, cnt(s, v, n) == 0) and "
                                      "implies(n >= 1, cnt(s, v, n) == cnt(s, v, n - 1) + ite(s[n - 1] == v, 1, 0))")
    P = {"ls": S, "lv": ANY, "ln": INT}
    u = "unfold('cnt', ls, lv, ln)"
    U.lemma("cnt_bounds", P, [], ["0 <= cnt(ls, lv, ln) and cnt(ls, lv, ln) <= max(ln, 0)"], induct="ln", unfold=[u])
    U.lemma("cnt_absent", P, ["forall(h, 0, ln, ls[h] != lv)"], ["cnt(ls, lv, ln) == 0"], induct="ln", unfold=[u])
    U.lemma("cnt_present", dict(P, lh=INT), ["0 <= lh and lh < ln and ls[lh] == lv"], ["cnt(ls, lv, ln) >= 1"], induct="ln",
            unfold=[u, "lemma_inst('cnt_bounds', ls, lv, ln - 1)"])
    U.lemma("cnt_mono", dict(P, lm=INT), ["ln <= lm"], ["cnt(ls, lv, ln) <= cnt(ls, lv, lm)"], induct="lm",
            unfold=["unfold('cnt', ls, lv, lm)", "unfold('cnt', ls, lv, ln)"])
    # lt = ls with position lp deleted
    U.lemma("cnt_delete", {"ls": S, "lt": S, "lp": INT, "lv": ANY, "ln": INT},
            ["0 <= lp and lp < len(ls) and len(lt) == len(ls) - 1", "forall(j, 0, lp, lt[j] == ls[j])",
             "forall(j, lp, len(lt), lt[j] == ls[j + 1])", "ln <= len(lt)"],
            ["cnt(lt, lv, ln) == ite(ln <= lp, cnt(ls, lv, ln), cnt(ls, lv, ln + 1) - ite(ls[lp] == lv, 1, 0))"], induct="ln",
            unfold=["unfold('cnt', lt, lv, ln)", "unfold('cnt', ls, lv, ln)", "unfold('cnt', ls, lv, ln + 1)"])
    U.var("h", INT)
    m = G.function("compare_pos_in_iterables", {"a": S, "b": S}, BOOL)
    m.ghost_entry("g_b0 = b")
    lp = m.loop(1)
    lp.invariant("forall(v, cnt(b, v, len(b)) + cnt(a, v, _i1) == cnt(g_b0, v, len(g_b0)))", "remaining+consumed=original(per-value)")
    lp.use_at_init("forall(v, unfold('cnt', a, v, 0))")
    lp.ghost_at_begin("g_b = b")
    # facts the ValueError exit needs about the current element a[_i1 - 1]: absent from b => count 0; one more occurrence in a; counts grow with the prefix
    lp.use_at_begin("lemma_inst('cnt_absent', b, a[_i1 - 1], len(b))")          # (the loop variable is not named: a[_i1 - 1] is its value)
    lp.use_at_begin("unfold('cnt', a, a[_i1 - 1], _i1)")
    lp.use_at_begin("lemma_inst('cnt_mono', a, a[_i1 - 1], _i1, len(a))")
    lp.use_at_end("forall(v, lemma_inst('cnt_delete', g_b, b, _removed_at, v, len(b)))")
    lp.use_at_end("forall(v, unfold('cnt', g_b, v, len(g_b)))")
    lp.use_at_end("forall(v, unfold('cnt', a, v, _i1))")
    m.ghost_exit("g_bc = b")           # the local list at the exit (b in a postcondition is the caller's argument)
    m.use_exit("forall(v, unfold('cnt', g_bc, v, 0))")
    m.use_exit("lemma_inst('cnt_present', g_bc, g_bc[0], len(g_bc), 0)")
    eq = "forall(v, cnt(a, v, len(a)) == cnt(g_b0, v, len(g_b0)))"
    m.ensures("implies(result, %s)" % eq, "True=>same-multiset")
    m.ensures("implies(%s, result)" % eq, "same-multiset=>True")
    U.verify(None, "compare_pos_in_iterables")
    U.assume("the two iterables are finite sequences evaluated once; elements are an uninterpreted sort with equality (== is an equivalence)")
    U.assume("list.remove(x): ValueError iff x not in the list, otherwise deletes the first position holding x (engine rule, DESIGN §2.3)")
    return U
