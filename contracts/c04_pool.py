"""C04 (pool side): FunctorPool.__enter__ / until_all_ready / __exit__ - every worker is started once, until_all_ready returns only
after every worker's begin_finished is set (the worker sets it only after begin() returned: c04_worker), __exit__ puts exactly one
stop token per worker on the work queue and joins every worker that had not already exited.  Together with the replace thread's
join-before-replace (c03_factory: no started and unjoined worker ever leaves procs) no worker is left running after the context is
left without join_timeout, replaced workers included."""
from pyvc.dsl import *
from . import c03_factory


def unit():
    U = Unit("C04/FunctorPool-context", "C04")
    M, P, S, T, W, FP, RQ = c03_factory.base(U, {"_manager": RefS("Manager")})
    E = U.modules["env:mp"]
    MG = E.cls("Manager", fields={})
    MG.method("__enter__", {}, RefS("Manager"), trusted=True)
    MG.method("__exit__", {"a": ANY, "b": ANY, "c": ANY}, trusted=True)
    W.fields["begin_finished"] = RefS("Event")
    slots0 = ("forall(k, 0, len(self.procs), self.procs[k] != None and self.slot[self.procs[k]] == k and self.procs[k].owner == self, trigger=self.procs[k])")

    m = P.method("__enter__", {}, RefS("FunctorPool"), locals={"p": RefS("BaseFunctorWorker")})
    m.requires("self._manager != None")
    m.requires(slots0 + " and forall(k, 0, len(self.procs), not self.procs[k].pstarted, trigger=self.procs[k])", "fresh-pool:distinct-workers-none-started")
    m.modifies("BaseFunctorWorker.pstarted[*]")
    lp = m.loop(1)
    lp.invariant("same(self.procs, old(self.procs)) and " + slots0)
    lp.invariant("forall(k, 0, len(self.procs), self.procs[k].pstarted == (k < _i1), trigger=self.procs[k])", "started-exactly-the-first-_i1-workers")
    m.ensures("result == self and forall(k, 0, len(self.procs), self.procs[k].pstarted, trigger=self.procs[k])", "every-worker-started-exactly-once")

    m = P.method("until_all_ready", {}, locals={"p": RefS("BaseFunctorWorker")})
    m.requires("forall(k, 0, len(self.procs), self.procs[k] != None and self.procs[k].begin_finished != None, trigger=self.procs[k])")
    m.modifies("Event.isset[*]")
    lp = m.loop(1)
    lp.invariant("same(self.procs, old(self.procs))")
    lp.invariant("forall(k, 0, len(self.procs), self.procs[k] != None and self.procs[k].begin_finished != None, trigger=self.procs[k])")
    lp.invariant("forall(k, 0, _i1, self.procs[k].begin_finished.isset, trigger=self.procs[k])")
    lp.invariant("forall(e, implies(old(Event.isset[e]), Event.isset[e]))") if False else None
    m.ensures("forall(k, 0, len(self.procs), self.procs[k].begin_finished.isset, trigger=self.procs[k])",
              "returns-only-after-every-worker's-begin_finished-is-set")

    m = P.method("__exit__", {"exc_type": ANY, "exc_val": ANY, "exc_tb": ANY}, locals={"p": RefS("BaseFunctorWorker")})
    m.requires("self._manager != None and wfpool(self) and self._work_queue.stops >= 0")
    m.requires(slots0)
    m.modifies("self._work_queue.stops", "self.served", "BaseFunctorWorker.pjoined[*]", "BaseFunctorWorker.exitcode[*]", "BaseFunctorWorker.running[*]")
    keep = ("same(self.procs, old(self.procs)) and same(self._work_queue, old(self._work_queue)) and wfpool(self) and " + slots0
            + " and self._work_queue.chan.sent == old(self._work_queue.chan.sent) and same(self._work_queue.chan.chunk, old(self._work_queue.chan.chunk))")
    none_running = "forall(k, 0, len(self.procs), not self.procs[k].running, trigger=self.procs[k])"
    # loop 1 runs once per worker that is running when the context is left (n = len(_seq1)); `served`: that many tokens were sent, or
    # nobody is running any more (a put is retried only while somebody can still read the queue)
    l1 = m.loop(1)
    l1.invariant(keep)
    l1.invariant("len(_seq1) <= len(self.procs) and implies(len(_seq1) == 0, %s)" % none_running, "one-round-per-running-worker")
    l1.invariant("self._work_queue.stops == old(self._work_queue.stops) + _i1 or (%s)" % none_running,
                 "a-token-per-round-unless-nobody-is-running-any-more")
    l1.invariant("old(self._work_queue.stops) <= self._work_queue.stops and self._work_queue.stops <= old(self._work_queue.stops) + _i1")
    l2 = m.loop(2).environment_driven()       # retry while somebody is running and the bounded queue is full
    l2.invariant(keep)
    l2.invariant("1 <= _i1 and _i1 <= len(_seq1) and len(_seq1) <= len(self.procs)")
    l2.invariant("self._work_queue.stops == old(self._work_queue.stops) + _i1 - 1 or (%s)" % none_running)
    l2.invariant("old(self._work_queue.stops) <= self._work_queue.stops and self._work_queue.stops <= old(self._work_queue.stops) + _i1 - 1")
    m.at_call("before", "join", ghost="self.served = (self._work_queue.stops == old(self._work_queue.stops) + len(_seq1) or (%s))" % none_running)
    l3 = m.loop(3)
    l3.invariant(keep)
    l3.invariant("self._work_queue.stops == old(self._work_queue.stops) + len(_seq1) or (%s)" % none_running,
                 "one-stop-token-per-running-worker-was-sent(or-nobody-is-running)")
    l3.invariant("old(self._work_queue.stops) <= self._work_queue.stops and self._work_queue.stops <= old(self._work_queue.stops) + len(self.procs)")
    l3.invariant("forall(k, 0, _i3, self.procs[k].pjoined or not is_none(self.procs[k].exitcode), trigger=self.procs[k])")
    m.ensures("old(self._work_queue.stops) <= self._work_queue.stops and self._work_queue.stops <= old(self._work_queue.stops) + len(self.procs)",
              "at-most-one-stop-token-per-worker")
    m.ensures("forall(k, 0, len(self.procs), self.procs[k].pjoined or not is_none(self.procs[k].exitcode), trigger=self.procs[k])",
              "every-worker-was-joined-unless-it-had-already-exited(no-worker-left-running-without-join_timeout)")
    # while the context is left the workers are NOT frozen: a running worker may end at any moment (it consumed a stop token, or it was
    # retiring); a process that has ended stays ended.  This is the environment step of this unit (there is no feeder thread here).
    U.var("wk", RefS("BaseFunctorWorker"))
    U.interfere("FunctorPool", when="True", modifies=["BaseFunctorWorker.running[*]"],
                ensures=["forall(wk, implies(wk.running, old(wk.running)), trigger=wk.running)"])
    for fn in ("__enter__", "until_all_ready", "__exit__"):
        # no imap call is in progress while the context is entered / left / waited on (every call was fully consumed): the feeder
        # thread of a call does not exist, so its environment step is not applied here
        P.methods[fn].quiescent = (fn != "__exit__")
        P.methods[fn].requires("not self._sending_work", "no-call-in-progress(the-feeder-of-the-last-call-is-done)")
    U.verify("FunctorPool", "__enter__")
    U.verify("FunctorPool", "until_all_ready")
    U.verify("FunctorPool", "__exit__")
    U.assume("join() without timeout returns only when the process has ended; an exit code, once set, stays set (a finished process does not "
             "come back); each worker consumes exactly one stop token (c04_worker: the loop ends at the first None)")
    U.assume("Manager.__enter__/__exit__: no effect on the modelled state")
    return U
