"""C01 (+ the FunctorPool part of C03 and the safety surrogates of C02): FunctorPool.imap / imap_unordered.

Three kinds of thread take part in a call: the consumer (the generator imap / imap_unordered, with _get_results), the feeder
(SendWorkThread.run) and the workers (behind the demonic queue environment, see poolenv / ownenv; the worker loop body is
verified in c04_worker).  Consumer and feeder share two flags of the pool, `_sending_work` and `_data_cnt`, written by the feeder
and polled by the consumer without a lock.  The proof is rely/guarantee:

  J(pool)   protocol invariant over the shared state (flags, channel ghost state, ghost offsets `coff` of the chunks sent so far):
            the chunks sent so far are consecutive non-empty slices of the input X;  once `_sending_work` is False the feeder is
            done: `_data_cnt` equals the number of chunks sent and these chunks cover X completely.
  R         step of the feeder as seen by the consumer: J is kept, `sent` only grows, what was sent stays, nothing changes once
            the feeder is done.  The consumer is verified with R applied before EVERY read of a shared flag (so stale and torn
            observations of the two flags are covered) and before every environment call.
  G         the feeder (SendWorkThread.run, the real code) is verified to establish J and R(entry, now) after every write of a
            shared field: G implies R.  The feeder's own rely: nobody else writes the flags while it runs and its stop_event is
            not set before it is done (the consumer's stop() requires the feeder to be done: owed@join).
  rely-init SendWorkThread.__init__ (executed by the consumer thread) establishes J before the feeder thread exists.
"""
from pyvc.dsl import *
from . import ownenv, c15_buffers
from .poolenv import CHUNK, ITEM
from .c05_functormap import chunking_contract

POOL_FIELDS = {"_work_queue": RefS("Queue"), "_results_queue": RefS("Queue"), "_results_queue_lock": RefS("Lock"),
               "_sending_work": BOOL, "_data_cnt": INT, "_results_queue_maxsize": REAL, "RESULTS_WAIT_TIMEOUT": REAL}
POOL_FIELDS_EXTRA, POOL_GHOST_EXTRA = {}, {}      # other units (C03) add the fields they talk about
POOL_GHOST = {"X": CHUNK, "coff": ArrS(INT, INT), "feeder": RefS("SendWorkThread")}
CH = "self._work_queue.chan"
SHARED = ["self._sending_work", "self._data_cnt", "self._work_queue.chan.sent", "self._work_queue.chan.chunk", "self.coff",
          "self.feeder.done"]


def macros(U):
    U.define("chan", ["p"], "p._work_queue.chan")
    U.define("wfpool", ["p"], "p._work_queue != None and p._results_queue != None and p._work_queue != p._results_queue"
                          " and p._work_queue.chan != None and p._work_queue.chan == p._results_queue.chan and p._results_queue_lock != None")
    U.define("J", ["p"], "0 <= chan(p).sent and p.coff[0] == 0"
                     " and forall(j, 0, chan(p).sent, p.coff[j] < p.coff[j + 1] and len(chan(p).chunk[j]) == p.coff[j + 1] - p.coff[j]"
                     " and forall(t, 0, len(chan(p).chunk[j]), chan(p).chunk[j][t] == p.X[p.coff[j] + t]), trigger=chan(p).chunk[j])"
                     " and implies(not p._sending_work, p._data_cnt == chan(p).sent and p.coff[chan(p).sent] == len(p.X))"
                     " and p.feeder != None and p.feeder.done == (not p._sending_work)"
                     # counting invariant of the channel: nrecv is the number of received indices, none at or beyond `sent`
                     " and chan(p).nrecv == rcnt(chan(p).recv, chan(p).sent)"
                     " and forall(i, implies(chan(p).recv[i], 0 <= i and i < chan(p).sent), trigger=chan(p).recv[i])")
    # two-state: the step of the feeder thread (old = before)
    U.define("R", ["p"], "same(p._work_queue, old(p._work_queue)) and same(p._results_queue, old(p._results_queue))"
                     " and same(chan(p), old(chan(p))) and same(p.X, old(p.X)) and same(p.feeder, old(p.feeder))"
                     " and old(chan(p).sent) <= chan(p).sent"
                     " and forall(j, 0, old(chan(p).sent), same(chan(p).chunk[j], old(chan(p).chunk)[j]), trigger=chan(p).chunk[j])"
                     " and forall(j, 0, old(chan(p).sent) + 1, p.coff[j] == old(p.coff)[j], trigger=p.coff[j])"
                     " and implies(not old(p._sending_work), not p._sending_work and p._data_cnt == old(p._data_cnt)"
                     "             and chan(p).sent == old(chan(p).sent))")
    U.define("idle", ["p"], "not p._sending_work and forall(i, 0, chan(p).sent, chan(p).recv[i])")


def declare(U):
    E, CHc, Q = ownenv.declare(U)
    c15_buffers.declare_buffer(U, CHUNK)
    macros(U)
    M = U.module("windpyutils/parallel/own_proc_pools.py")
    T = M.cls("CMThread", fields={"stop_event": RefS("Event"), "run_event": RefS("Event")})
    m = T.method("__init__", {}, kind="init")
    m.modifies("self.stop_event", "self.run_event", "self.started", "self.done", "Event.isset[*]")
    m.ensures("self.stop_event != None and self.run_event != None and self.stop_event != self.run_event"
              " and fresh(self.stop_event) and fresh(self.run_event)")
    m.ensures("not self.stop_event.isset and self.run_event.isset and not self.started and not self.done")
    m = T.method("stop", {})
    m.requires("self.stop_event != None")
    m.requires("self.done", "owed@join:the-thread-is-stopped-only-when-it-has-finished-or-was-given-what-makes-it-finish")
    m.modifies("self.stop_event.isset")
    m.ensures("self.stop_event.isset")
    m = T.method("__enter__", {}, RefS("CMThread"))
    m.requires("not self.started", "a-thread-is-started-once")
    m.modifies("self.started")
    m.ensures("result == self and self.started")
    m = T.method("__exit__", {"a": ANY, "b": ANY, "c": ANY})
    m.requires("self.stop_event != None")
    m.requires("self.done", "owed@join:the-with-block-is-left-only-when-the-thread-has-finished")
    m.modifies("self.stop_event.isset")
    m.ensures("self.stop_event.isset")

    P = M.cls("FunctorPool", fields=dict(POOL_FIELDS, **POOL_FIELDS_EXTRA), ghost=dict(POOL_GHOST, **POOL_GHOST_EXTRA))
    P.invariant("wfpool(self)", "two-queues-one-channel")
    P.volatile("_sending_work", "_data_cnt")
    P.after_write("_sending_work", "J(self)", "feeder-keeps-the-protocol-invariant")
    P.after_write("_sending_work", "R(self)", "feeder-step-is-within-the-consumer's-rely")
    P.after_write("_data_cnt", "J(self)", "feeder-keeps-the-protocol-invariant")
    P.after_write("_data_cnt", "R(self)", "feeder-step-is-within-the-consumer's-rely")
    U.guarantee_exempt.add("SendWorkThread.__init__")      # runs in the consumer thread before the feeder exists: rely-init is its post
    U.interfere("FunctorPool", when="True", modifies=SHARED, ensures=["implies(J(old(self)), J(self))".replace("J(old(self))", "old(J(self))"), "R(self)"])

    S = M.cls("SendWorkThread", fields={"data": CHUNK, "chunk_size": INT, "pool": RefS("FunctorPool")})
    m = S.method("__init__", {"pool": RefS("FunctorPool"), "data": CHUNK, "chunk_size": INT}, kind="init")
    m.requires("pool != None and wfpool(pool)")
    m.requires("idle(pool)", "call-idle:the-previous-call-has-finished(its-feeder-is-done,every-result-was-consumed)")
    m.modifies("self.stop_event", "self.run_event", "self.started", "self.done", "Event.isset[*]", "self.data", "self.chunk_size", "self.pool",
               "pool._sending_work", "pool._data_cnt", "pool.X", "pool.coff", "pool.feeder",
               "pool._work_queue.chan.sent", "pool._work_queue.chan.recv", "pool._work_queue.chan.nrecv")
    # the per-call ghost protocol state restarts (nothing of the previous call is in flight: call-idle)
    m.ghost_exit("pool._work_queue.chan.sent = 0")
    m.ghost_exit("pool._work_queue.chan.nrecv = 0")
    m.ghost_exit("pool._work_queue.chan.recv = lam(i, False)")
    m.ghost_exit("pool.X = data")
    m.ghost_exit("pool.coff = lam(i, 0)")
    m.ghost_exit("pool.feeder = self")
    m.use_exit("unfold('rcnt', pool._work_queue.chan.recv, 0)")
    m.ensures("self.pool == pool and same(self.data, data) and self.chunk_size == chunk_size and same(pool.X, data)")
    m.ensures("self.stop_event != None and self.run_event != None and not self.stop_event.isset and not self.started and not self.done")
    m.ensures("fresh(self.stop_event) and fresh(self.run_event)")
    m.ensures("pool._sending_work and pool._data_cnt == 0 and chan(pool).sent == 0 and chan(pool).nrecv == 0 and forall(i, not chan(pool).recv[i])",
              "rely-init:flags-set-by-the-creating-thread(the-consumer-never-sees-flags-of-an-earlier-call)")
    m.ensures("J(pool) and pool.feeder == self", "rely-init:protocol-invariant-holds-before-the-feeder-thread-exists")
    m.ensures("wfpool(pool) and same(pool._work_queue, old(pool._work_queue)) and same(pool._results_queue, old(pool._results_queue))"
              " and same(chan(pool), old(chan(pool)))")

    chunking_contract(M, "SendWorkThread.run.<chunking>", cs="self.chunk_size", free={"self": RefS("SendWorkThread")})
    m = S.method("run", {}, locals={"i": INT, "chunk": CHUNK})
    p = "self.pool"
    m.requires("%s != None and wfpool(%s) and self.stop_event != None and self.run_event != None and self.stop_event != self.run_event and self.chunk_size >= 1" % (p, p))
    m.requires("J(%s) and %s.feeder == self and same(%s.X, self.data)" % (p, p, p), "rely-init")
    m.requires("%s._sending_work and %s._data_cnt == 0 and chan(%s).sent == 0" % (p, p, p), "rely-init:flags")
    m.requires("not self.stop_event.isset", "feeder-rely:stop-is-requested-only-after-the-feeder-is-done(owed@join-of-the-consumer)")
    m.modifies("self.pool._sending_work", "self.pool._data_cnt", "self.pool._work_queue.chan.sent", "self.pool._work_queue.chan.chunk",
               "self.pool.coff", "self.done", "self.run_event.isset")
    m.ensures("self.pool._work_queue.stops == old(self.pool._work_queue.stops)", "the-feeder-puts-no-stop-token")
    m.ghost_at_write("_sending_work", "self.done = not _value")
    m.at_call("after", "put", use="unfold('rcnt', chan(self.pool).recv, chan(self.pool).sent)")
    lp = m.loop(1).environment_driven()
    CHS = "_seq1"
    lp.invariant("same(self.pool, old(self.pool)) and wfpool(%s) and same(%s._work_queue, old(%s._work_queue)) and same(chan(%s), old(chan(%s)))"
                 " and same(self.stop_event, old(self.stop_event)) and same(self.run_event, old(self.run_event))"
                 " and same(self.data, old(self.data)) and self.chunk_size == old(self.chunk_size)"
                 " and same(%s.X, old(%s.X)) and same(%s.feeder, old(%s.feeder))" % ((p,) * 9))
    lp.invariant("%s._sending_work and not self.done and not self.stop_event.isset and %s._work_queue.stops == old(%s._work_queue.stops)" % (p, p, p))
    lp.invariant("%s._data_cnt == _i1 and chan(%s).sent == _i1" % (p, p), "counter=number-of-chunks-sent=next-index")
    lp.invariant("len(%s) == len(g_ys_chunking) and forall(j, 0, len(%s), %s[j][0] == j and %s[j][1] == g_ys_chunking[j])" % (CHS, CHS, CHS, CHS))
    lp.invariant("forall(j, 0, _i1 + 1, %s.coff[j] == g_coff[j], trigger=%s.coff[j])" % (p, p), "ghost-offsets-follow-the-chunking")
    lp.invariant("forall(j, 0, _i1, chan(%s).chunk[j] == g_ys_chunking[j], trigger=chan(%s).chunk[j])" % (p, p), "chunk-j-was-sent-under-index-j")
    lp.invariant("chan(%s).nrecv == rcnt(chan(%s).recv, chan(%s).sent)"
                 " and forall(i, implies(chan(%s).recv[i], 0 <= i and i < chan(%s).sent), trigger=chan(%s).recv[i])" % ((p,) * 6),
                 "counting-invariant-of-the-channel")
    lp.ghost_at_begin("self.pool.coff = aset(self.pool.coff, _i1, g_coff[_i1])")      # here _i1 already counts the chunk just taken
    m.ensures("not %s._sending_work and self.done" % p, "feeder-done")
    m.ensures("J(%s)" % p)

    m = P.method("_get_results", {}, TupS(SeqS(INT), SeqS(CHUNK)),
                 locals={"chunks": SeqS(CHUNK), "indexes": SeqS(INT), "res_i": INT, "res_chunk": CHUNK})
    m.requires("wfpool(self) and J(self)")
    m.modifies(*(SHARED + ["self._work_queue.chan.recv", "self._work_queue.chan.nrecv"]))
    # pos: the (ghost) inverse of the batch - pos[i] is the position of index i in the returned batch (avoids an existential)
    m.witness("pos", ArrS(INT, INT), bound_to="g_pos")
    m.ghost_entry("g_pos = lam(i, 0 - 1)")
    m.ghost_entry("g_n = 0")
    m.at_call("before", "get", ghost="g_r0 = chan(self).recv")
    m.at_call("after", "get", use="lemma_inst('rc_one_more', g_r0, chan(self).recv, result[0], chan(self).sent)")
    m.at_call("after", "get", ghost="g_pos = aset(g_pos, result[0], g_n)")
    m.at_call("after", "get", ghost="g_n = g_n + 1")
    batch = lambda I, C, pos: (
        "len(%(I)s) == len(%(C)s)"
        " and forall(a, 0, len(%(I)s), 0 <= %(I)s[a] and %(I)s[a] < chan(self).sent and not old(chan(self).recv)[%(I)s[a]] and chan(self).recv[%(I)s[a]]"
        "            and %(C)s[a] == mapF(chan(self).chunk[%(I)s[a]]) and %(P)s[%(I)s[a]] == a, trigger=%(I)s[a])"
        " and forall(i, chan(self).recv[i] == (old(chan(self).recv)[i] or (0 <= %(P)s[i] and %(P)s[i] < len(%(I)s) and %(I)s[%(P)s[i]] == i)),"
        "            trigger=chan(self).recv[i])"
        " and chan(self).nrecv == old(chan(self).nrecv) + len(%(I)s)" % {"I": I, "C": C, "P": pos})
    lp = m.loop(1).environment_driven()
    lp.invariant("J(self) and R(self) and wfpool(self)")
    lp.invariant("g_n == len(indexes)")
    lp.invariant(batch("indexes", "chunks", "g_pos"))
    m.ensures("J(self) and R(self)", "only-feeder-steps-on-the-shared-flags")
    m.ensures(batch("result[0]", "result[1]", "pos"), "a-batch-of-distinct-newly-received-results(possibly-empty)")
    return M, P, S, T


def consumer_common():
    binv = ("buffer != None and buffer._waiting_for >= 0"
            " and forall(i, iff(i in buffer._storage, (i in buffer.fed) and i >= buffer._waiting_for))"
            " and forall(i, implies(i in buffer._storage, buffer._storage[i] == buffer.fed[i]))"
            " and forall(i, 0, buffer._waiting_for, i in buffer.fed)"
            " and forall(i, implies(i in buffer.fed, 0 <= i and i < buffer.hi))"
            " and len(buffer._storage) == len(buffer.fed) - buffer._waiting_for")
    return binv


def unordered(U, P):
    """imap_unordered: the output is the concatenation, in arrival order, of the mapped chunks; the arrival order `ord` is a
    bijection on the chunk indices 0..n-1 (ord / oinv are mutually inverse), the chunks partition the input (ghost offsets coff)"""
    m = P.method("imap_unordered", {"data": CHUNK, "chunk_size": INT}, yields=ANY,
                 locals={"finished_cnt": INT, "indices": SeqS(INT), "chunks": SeqS(CHUNK), "res_i": INT, "res_chunk": CHUNK, "x": ANY})
    m.requires("chunk_size >= 1")
    m.requires("idle(self)", "call-idle:the-previous-call-on-this-pool-was-fully-consumed")
    m.modifies(*(SHARED + ["self._work_queue.chan.recv", "self._work_queue.chan.nrecv", "self.X", "self.feeder", "Event.isset[*]",
                           "Thread.started[*]", "Thread.done[*]"]))
    m.witness("ord", ArrS(INT, INT), bound_to="g_ord")
    m.witness("oinv", ArrS(INT, INT), bound_to="g_oinv")
    m.witness("uoff", ArrS(INT, INT), bound_to="g_uoff")
    m.ghost_entry("g_ord = lam(i, 0 - 1)")
    m.ghost_entry("g_oinv = lam(i, 0 - 1)")
    m.ghost_entry("g_uoff = lam(i, 0)")
    m.at_call("after", "__enter__", ghost="g_thr = result")
    fixed = ("same(self._work_queue, old(self._work_queue)) and same(self._results_queue, old(self._results_queue)) and wfpool(self)"
             " and g_thr != None and self.feeder == g_thr and g_thr.stop_event != None and same(self.X, data) and J(self) and finished_cnt >= 0")
    size = "(self.coff[g_ord[a] + 1] - self.coff[g_ord[a]])"
    arrivals = ("forall(a, 0, finished_cnt, 0 <= g_ord[a] and g_ord[a] < chan(self).sent and chan(self).recv[g_ord[a]] and g_oinv[g_ord[a]] == a"
                " and g_uoff[a + 1] == g_uoff[a] + %s and g_uoff[a + 1] <= len(yielded)"
                " and forall(p, g_uoff[a], g_uoff[a + 1], yielded[p] == F(data[self.coff[g_ord[a]] + p - g_uoff[a]]), trigger=yielded[p]),"
                " trigger=g_ord[a])" % size)
    recvd = lambda pend: ("forall(i, implies(chan(self).recv[i], 0 <= i and i < chan(self).sent and (%s(0 <= g_oinv[i] and g_oinv[i] < finished_cnt"
                          " and g_ord[g_oinv[i]] == i))), trigger=chan(self).recv[i])" % pend)
    l1 = m.loop(1).environment_driven()
    l1.invariant(fixed, "protocol")
    l1.invariant("finished_cnt == chan(self).nrecv", "finished=received-chunks")
    l1.invariant("g_uoff[0] == 0 and len(yielded) == g_uoff[finished_cnt]")
    l1.invariant(arrivals, "output=concatenation-of-the-mapped-chunks-in-arrival-order")
    l1.invariant(recvd(""), "every-received-index-has-its-arrival-position")
    pend = "(_i2 <= g_pos[i] and g_pos[i] < len(indices) and indices[g_pos[i]] == i) or "
    notpending = ("forall(a, 0, %s, not (_i2 <= g_pos[g_ord[a]] and g_pos[g_ord[a]] < len(indices) and indices[g_pos[g_ord[a]]] == g_ord[a]),"
                  " trigger=g_ord[a])")
    l2 = m.loop(2)
    l2.invariant(fixed)
    l2.invariant("finished_cnt == chan(self).nrecv - (len(indices) - _i2)")
    l2.invariant("g_uoff[0] == 0 and len(yielded) == g_uoff[finished_cnt]")
    l2.invariant(arrivals)
    l2.invariant(notpending % "finished_cnt", "consumed-chunks-are-not-pending-in-the-batch")
    l2.invariant(recvd(pend))
    # inside the body of loop 2: `_i2` and finished_cnt already count the chunk being emitted
    l2.ghost_at_begin("g_ord = aset(g_ord, finished_cnt, res_i)")
    l2.ghost_at_begin("g_oinv = aset(g_oinv, res_i, finished_cnt)")
    l2.ghost_at_end("g_uoff = aset(g_uoff, finished_cnt, len(yielded))")
    l3 = m.loop(3)
    l3.invariant(fixed)
    l3.invariant("finished_cnt >= 1 and finished_cnt - 1 == chan(self).nrecv - (len(indices) - _i2) - 1")
    l3.invariant("g_uoff[0] == 0 and len(yielded) == g_uoff[finished_cnt - 1] + _i3")
    l3.invariant(arrivals.replace("finished_cnt", "finished_cnt - 1"))
    l3.invariant(notpending % "finished_cnt")
    l3.invariant("g_ord[finished_cnt - 1] == res_i and g_oinv[res_i] == finished_cnt - 1 and 0 <= res_i and res_i < chan(self).sent and chan(self).recv[res_i]"
                 " and _seq3 == mapF(chan(self).chunk[res_i])")
    l3.invariant("forall(p, g_uoff[finished_cnt - 1], g_uoff[finished_cnt - 1] + _i3, yielded[p] == F(data[self.coff[res_i] + p - g_uoff[finished_cnt - 1]]),"
                 " trigger=yielded[p])")
    l3.invariant(recvd(pend))
    n = "chan(self).sent"
    m.ensures("self.coff[0] == 0 and self.coff[%s] == len(data) and forall(j, 0, %s, self.coff[j] < self.coff[j + 1], trigger=chan(self).chunk[j])" % (n, n),
              "the-chunks-partition-the-input(consecutive,non-empty)")
    m.ensures("forall(a, 0, %s, 0 <= ord[a] and ord[a] < %s and oinv[ord[a]] == a, trigger=ord[a])"
              " and forall(i, 0, %s, 0 <= oinv[i] and oinv[i] < %s and ord[oinv[i]] == i, trigger=oinv[i])" % (n, n, n, n),
              "arrival-order-is-a-bijection-on-the-chunk-indices(nothing-lost,nothing-duplicated,nothing-invented)")
    m.ensures("uoff[0] == 0 and len(yielded) == uoff[%s]"
              " and forall(a, 0, %s, uoff[a + 1] == uoff[a] + (self.coff[ord[a] + 1] - self.coff[ord[a]])"
              " and forall(p, uoff[a], uoff[a + 1], yielded[p] == F(data[self.coff[ord[a]] + p - uoff[a]]), trigger=yielded[p]), trigger=ord[a])" % (n, n),
              "output=concatenation-of-f-mapped-chunks-in-arrival-order(order-inside-each-chunk-kept)")
    m.ensures("idle(self)", "call-idle-again:nothing-left-in-flight,feeder-done(consecutive-calls-are-independent)")
    m.use_exit("lemma_inst('rc_bounds', chan(self).recv, chan(self).sent)")
    m.use_exit("lemma_inst('rc_full', chan(self).recv, chan(self).sent)")
    return m


def consumer_contracts(U, P):
    binv = consumer_common()
    m = P.method("imap", {"data": CHUNK, "chunk_size": INT}, yields=ANY,
                 locals={"buffer": RefS("Buffer"), "finished_cnt": INT, "indices": SeqS(INT), "chunks": SeqS(CHUNK), "res_i": INT,
                         "res_chunk": CHUNK, "ch": CHUNK, "x": ANY, "send_thread": RefS("SendWorkThread")})
    m.requires("chunk_size >= 1")
    m.requires("idle(self)", "call-idle:the-previous-call-on-this-pool-was-fully-consumed")
    m.reads("Buffer._storage", "Buffer._waiting_for")
    m.modifies(*(SHARED + ["self._work_queue.chan.recv", "self._work_queue.chan.nrecv", "self.X", "self.feeder", "Event.isset[*]",
                           "Thread.started[*]", "Thread.done[*]"]))
    fixed = ("same(self._work_queue, old(self._work_queue)) and same(self._results_queue, old(self._results_queue)) and wfpool(self)"
             " and send_thread != None and self.feeder == send_thread and send_thread.stop_event != None and send_thread.run_event != None"
             " and same(self.X, data) and J(self)")
    rel = ("forall(i, implies(chan(self).recv[i], 0 <= i and i < chan(self).sent), trigger=chan(self).recv[i])")
    fedrel = lambda pend: ("forall(i, iff(i in buffer.fed, chan(self).recv[i]%s), trigger=chan(self).recv[i], alt_trigger=(i in buffer.fed))"
                           " and forall(i, implies(i in buffer.fed, buffer.fed[i] == mapF(chan(self).chunk[i])))" % pend)
    out_upto = lambda w: "len(yielded) == self.coff[%s] and forall(p, 0, len(yielded), yielded[p] == F(data[p]), trigger=yielded[p])" % w
    l1 = m.loop(1).environment_driven()
    l1.invariant(fixed, "protocol")
    l1.invariant(binv, "reorder-buffer-invariant")
    l1.invariant("finished_cnt == buffer._waiting_for", "finished=emitted-chunks")
    l1.invariant(rel)
    l1.invariant(fedrel(""), "buffer-holds-exactly-the-received-results")
    l1.invariant("not (buffer._waiting_for in buffer.fed)", "every-arrival-is-followed-by-a-full-drain")
    l1.invariant(out_upto("finished_cnt"), "output-so-far=map-f-over-the-first-emitted-chunks")
    pend = " and not (_i2 <= g_pos[i] and g_pos[i] < len(indices) and indices[g_pos[i]] == i)"
    l2 = m.loop(2)
    l2.invariant(fixed)
    l2.invariant(binv)
    l2.invariant("finished_cnt == buffer._waiting_for")
    l2.invariant(fedrel(pend), "buffer-holds-the-received-results-fed-so-far")
    l2.invariant("not (buffer._waiting_for in buffer.fed)")
    l2.invariant(out_upto("finished_cnt"))
    l3 = m.loop(3)
    drained = "_seq3"
    pend3 = pend        # inside the body of loop 2 `_i2` already counts the element being processed
    l3.invariant(fixed)
    l3.invariant(binv)
    l3.invariant("g_w0 + len(%s) == buffer._waiting_for and finished_cnt == g_w0 + _i3 and buffer._waiting_for <= chan(self).sent" % drained)
    l3.invariant("forall(t, 0, len(%s), %s[t] == mapF(chan(self).chunk[g_w0 + t]))" % (drained, drained), "drained-run=results-of-consecutive-chunks")
    l3.invariant(fedrel(pend3))
    l3.invariant("not (buffer._waiting_for in buffer.fed)")
    l3.invariant(out_upto("finished_cnt"))
    l4 = m.loop(4)
    cur = "_seq4"
    l4.invariant(fixed)
    l4.invariant(binv)
    l4.invariant("%s == mapF(chan(self).chunk[finished_cnt - 1]) and 1 <= finished_cnt and finished_cnt <= chan(self).sent" % cur)
    l4.invariant("len(yielded) == self.coff[finished_cnt - 1] + _i4 and forall(p, 0, len(yielded), yielded[p] == F(data[p]), trigger=yielded[p])")
    l4.invariant("g_w0 + len(%s) == buffer._waiting_for and finished_cnt == g_w0 + _i3 and buffer._waiting_for <= chan(self).sent" % drained)
    l4.invariant("forall(t, 0, len(%s), %s[t] == mapF(chan(self).chunk[g_w0 + t]))" % (drained, drained))
    l4.invariant(fedrel(pend3))
    l4.invariant("not (buffer._waiting_for in buffer.fed)")
    m.at_call("before", "__iter__", ghost="g_w0 = buffer._waiting_for")
    m.ensures("len(yielded) == len(data) and forall(p, 0, len(data), yielded[p] == F(data[p]), trigger=yielded[p])",
              "yields-exactly-f(x)-for-every-x-once-in-input-order")
    m.ensures("idle(self)", "call-idle-again:nothing-left-in-flight,feeder-done(consecutive-calls-are-independent)")
    unordered(U, P)


def unit():
    U = Unit("C01/FunctorPool.imap", "C01")
    M, P, S, T = declare(U)
    consumer_contracts(U, P)
    U.verify("CMThread", "__init__")
    U.verify("CMThread", "stop")
    U.verify("CMThread", "__enter__")
    U.verify("CMThread", "__exit__")
    U.verify("SendWorkThread", "__init__")
    U.verify(None, "SendWorkThread.run.<chunking>")
    U.verify("SendWorkThread", "run")
    U.verify("FunctorPool", "_get_results")
    U.verify("FunctorPool", "imap")
    U.verify("FunctorPool", "imap_unordered")
    U.assume("demonic queue environment (poolenv / ownenv): any arrival order / timing / number of workers / queue bounds; queues deliver "
             "every item exactly once; the worker loop body (c04_worker) turns (i, c) into exactly one (i, [f(x) for x in c])")
    U.assume("the channel's counting invariant (nrecv = number of received indices below sent) is part of J; the pigeonhole facts used at the loop "
             "exit of imap_unordered are the lemmas rc_bounds / rc_full, proved by induction (ownenv.counting)")
    U.assume("f is pure and total; the input iterable is a finite sequence evaluated lazily by chunking only; full consumption of the "
             "generator (abandoned generators are outside the quantifier)")
    U.assume("sequential consistency of attribute reads / writes under the GIL (each read sees some earlier write: covered by the "
             "environment step before every read of a shared flag)")
    return U
