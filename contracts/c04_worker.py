"""C04: worker lifecycle - begin first once, end last once (also when begin or the functor raises), quota kept, retirement
announced exactly when the quota is exhausted; the pool's __exit__ sends one stop token per worker and joins every worker that is
still running.  Also the worker half of C01: every work item (i, c) produces exactly one result (i, [f(x) for x in c]).

The worker is verified sequentially against a demonic work queue (get() returns ANY item or the stop token).  Ghost event log of
the worker: 1 = begin, 2 = one chunk processed, 3 = end."""
from pyvc.dsl import *
from .poolenv import CHUNK, ITEM


def worker_env(U):
    E = U.module("env:worker")
    U.spec_fun("F", [ANY], ANY)
    U.spec_fun("mapF", [CHUNK], CHUNK)
    U.var("cq", CHUNK)
    U.var("u", INT)
    U.axiom("forall(cq, len(mapF(cq)) == len(cq) and forall(t, 0, len(cq), mapF(cq)[t] == F(cq[t]), trigger=mapF(cq)[t]), trigger=mapF(cq))",
            "mapF=elementwise-F")
    WQ = E.cls("WorkQueue", fields={}, ghost={"taken": SeqS(ITEM)})
    m = WQ.method("get", {}, OptS(ITEM), trusted=True)          # demonic: any work item, or the stop token None
    m.modifies("self.taken")
    m.ensures("implies(is_none(result), same(self.taken, old(self.taken)))")
    m.ensures("implies(not is_none(result), same(self.taken, append(old(self.taken), some(result))))")
    RQ = E.cls("ResultsQueue", fields={}, ghost={"out": SeqS(ITEM)})
    m = RQ.method("put", {"item": ITEM, "block": BOOL}, trusted=True)
    m.default_expr("block", "True")
    m.raises("Full", when="not block", iff=False)               # a non-blocking put may find the bounded queue full: nothing is put then
    m.modifies("self.out")
    m.ensures("same(self.out, append(old(self.out), item))")
    PQ = E.cls("ReplaceQueue", fields={}, ghost={"wids": SeqS(ANY)})
    m = PQ.method("put", {"wid": ANY}, trusted=True)
    m.modifies("self.wids")
    m.ensures("same(self.wids, append(old(self.wids), wid))")
    LK = E.cls("Lock", fields={})
    LK.method("__enter__", {}, RefS("Lock"), trusted=True)
    LK.method("__exit__", {"a": ANY, "b": ANY, "c": ANY}, trusted=True)
    EV = E.cls("Event", fields={}, ghost={"isset": BOOL, "owner": RefS("BaseFunctorWorker")})
    m = EV.method("clear", {}, trusted=True)
    m.modifies("self.isset")
    m.ensures("not self.isset")
    m = EV.method("set", {}, trusted=True)
    m.requires("implies(self.owner != None, len(self.owner.log) >= 1 and self.owner.log[len(self.owner.log) - 1] == 1)",
               "begin_finished-is-set-only-after-begin()-returned")
    m.modifies("self.isset")
    m.ensures("self.isset")
    return E


def unit():
    U = Unit("C04/BaseFunctorWorker.run", "C04")
    worker_env(U)
    M = U.module("windpyutils/parallel/own_proc_pools.py")
    W = M.cls("BaseFunctorWorker", fields={"wid": ANY, "work_queue": RefS("WorkQueue"), "results_queue": RefS("ResultsQueue"),
                                           "results_queue_lock": RefS("Lock"), "replace_queue": RefS("ReplaceQueue"),
                                           "begin_finished": RefS("Event"), "max_chunks_per_worker": INT},
              ghost={"log": SeqS(INT)})
    m = W.method("__call__", {"inp": ANY}, ANY, trusted=True)
    m.raises("Exception", when="True", iff=False)          # the functor may raise at any item
    m.ensures("result == F(inp)")
    m = W.method("begin", {}, trusted=True)
    m.raises("Exception", when="True", iff=False, ensures=["same(self.log, append(old(self.log), 1))"])
    m.modifies("self.log")
    m.ensures("same(self.log, append(old(self.log), 1))")
    m = W.method("end", {}, trusted=True)
    m.modifies("self.log")
    m.ensures("same(self.log, append(old(self.log), 3))")
    m = W.method("run", {}, locals={"q_item": OptS(ITEM), "i": INT, "data_list": CHUNK, "res": ITEM})
    pre = ("self.work_queue != None and self.results_queue != None and self.results_queue_lock != None and self.begin_finished != None"
           " and self.begin_finished.owner == self and self.max_chunks_per_worker >= 0")
    m.requires(pre)
    m.modifies("self.log", "self.max_chunks_per_worker", "self.begin_finished.isset", "self.work_queue.taken", "self.results_queue.out",
               "self.replace_queue.wids")
    n0, o0, t0 = "old(len(self.log))", "old(len(self.results_queue.out))", "old(len(self.work_queue.taken))"
    k0 = "old(self.max_chunks_per_worker)"
    processed = "(len(self.work_queue.taken) - %s)" % t0
    lifecycle = ("len(self.log) >= %s + 2 and self.log[%s] == 1 and self.log[len(self.log) - 1] == 3"
                 " and forall(p, %s + 1, len(self.log) - 1, self.log[p] == 2)"
                 " and forall(p, 0, %s, self.log[p] == old(self.log)[p])" % (n0, n0, n0, n0))
    # okres(r, w): r is the result of work item w = (i, c), i.e. r == (i, [F(x) for x in c])   (definitional, not recursive)
    U.spec_fun("okres", [ITEM, ITEM], BOOL)
    U.var("rr", ITEM), U.var("ww", ITEM)
    U.axiom("forall(rr, forall(ww, okres(rr, ww) == (rr[0] == ww[0] and len(rr[1]) == len(ww[1])"
            " and forall(u, 0, len(ww[1]), rr[1][u] == F(ww[1][u]))), trigger=okres(rr, ww)))", "okres=the-result-carries-the-index-and-f-of-every-element")
    # absolute index p into the result log (a plain select is a usable trigger; `o0 + t` inside a select is not)
    allres = ("forall(p, %s, len(self.results_queue.out), okres(self.results_queue.out[p], self.work_queue.taken[p - %s + %s]),"
              " trigger=self.results_queue.out[p])" % (o0, o0, t0))
    results = "len(self.results_queue.out) - %s == len(self.log) - %s - 2 and %s" % (o0, n0, allres)
    lp = m.loop(1).environment_driven()
    lp.invariant(pre.replace(" and self.max_chunks_per_worker >= 0", "") + " and self.max_chunks_per_worker >= 0")
    lp.invariant("%s >= 0" % processed)
    lp.invariant("self.max_chunks_per_worker + %s == %s" % (processed, k0), "quota-countdown=chunks-processed")
    lp.invariant("len(self.log) == %s + 1 + %s and self.log[%s] == 1 and forall(p, %s + 1, len(self.log), self.log[p] == 2)"
                 " and forall(p, 0, %s, self.log[p] == old(self.log)[p])" % (n0, processed, n0, n0, n0), "log=begin-then-one-event-per-chunk")
    lp.invariant("len(self.results_queue.out) == %s + %s and %s" % (o0, processed, allres), "one-result-per-work-item-carrying-its-index")
    lp.invariant("self.begin_finished.isset and same(self.replace_queue.wids, old(self.replace_queue.wids))"
                 if False else "self.begin_finished.isset")
    lp.invariant("implies(self.replace_queue != None, same(self.replace_queue.wids, old(self.replace_queue.wids)))")
    lp.hint("okres(res, some(q_item))")
    lp.hint("self.results_queue.out[len(self.results_queue.out) - 1] == res and self.work_queue.taken[len(self.work_queue.taken) - 1] == some(q_item)")
    lp.ghost_at_end("self.log = append(self.log, 2)")
    m.ensures(lifecycle, "begin-exactly-once-first,end-exactly-once-last,one-event-per-chunk-in-between")
    m.ensures("len(self.log) - %s - 2 <= %s" % (n0, k0), "at-most-quota-chunks-processed")
    m.ensures(results, "exactly-one-result-(i,[f(x)-for-x-in-c])-per-work-item-(i,c)")
    m.ensures("self.begin_finished.isset", "ready-flag-set")
    m.ensures("implies(self.replace_queue != None, self.replace_queue.wids == ite(self.max_chunks_per_worker == 0,"
              " append(old(self.replace_queue.wids), self.wid), old(self.replace_queue.wids)))",
              "retirement-announced-exactly-when-the-quota-is-exhausted")
    # exceptional exits (begin raised / the functor raised at some item): end() still ran exactly once and last
    m.raises("Exception", when="True", iff=False,
             ensures=["len(self.log) >= %s + 2 and self.log[%s] == 1 and self.log[len(self.log) - 1] == 3"
                      " and forall(p, %s + 1, len(self.log) - 1, self.log[p] == 2)" % (n0, n0, n0)])
    U.verify("BaseFunctorWorker", "run")
    U.assume("begin / end / the functor are abstract: begin and the functor may raise; end() is assumed not to raise; a worker with "
             "max_chunks_per_worker = math.inf is the quota-free case (the countdown never reaches 0) and is covered by the bounded layer")
    U.assume("demonic work queue: get() returns any work item or the stop token; the result queue records what is put")
    return U
