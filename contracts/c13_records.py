"""C13: records survive save/load (JsonRecord, CSVRecord, TSVRecord).

The property lives mostly in CPython's json / csv modules (C code): what they do on every string cannot be proved here and is
stated as AXIOMS (listed as assumptions, exercised by the bounded layer).  What the repository's own code contributes is proved
against those axioms, for every record class and every field map:

  JsonRecord.save      = jdump(fields)                       JsonRecord.load(cls, s) = cls(** jload(s) restricted to the field names)
  CSVRecord.save       = csvrow(fields, names, delimiter)    (the row written into the SHARED class-level StringIO, which must be empty
                         and rewound before every writerow: class invariant of the buffer, re-established by truncate(0) + seek(0);
                         the DictWriter cached per class writes with that class's field names and delimiter into that buffer)
  CSVRecord.load       = cls(** {name_j: type_j(cell_j)})    with cells = csvparse(s, the class's delimiter), names and types zipped
                         in declaration order
and the round trips  load(save(r)) == r  are composition lemmas over those postconditions (proved, no induction)."""
from pyvc.dsl import *

FV = MapS(STR, ANY)
CELLS = SeqS(STR)


def declare(U):
    E = U.module("env:records")
    U.var("m", FV)
    U.var("c", RefS("RecordClass"))
    U.var("k", STR)
    U.var("cells", CELLS)
    U.var("dl", STR)
    # ---- json axioms
    U.spec_fun("jdump", [FV], STR)
    U.spec_fun("jload", [STR], FV)
    U.spec_fun("oneline", [STR], BOOL)
    U.axiom("forall(m, same(jload(jdump(m)), m), trigger=jdump(m))", "AXIOM-json:loads(dumps(d))==d(for-dicts-of-JSON-values-with-string-keys)")
    U.axiom("forall(m, oneline(jdump(m)), trigger=jdump(m))", "AXIOM-json:dumps-output-has-no-line-break")
    # ---- csv axioms: csvrow(cells, delimiter) = the text DictWriter/writer writes for the cell strings (with its line terminator),
    #      csvparse = what csv.reader yields for that text
    U.spec_fun("csvrow", [CELLS, STR], STR)
    U.spec_fun("csvparse", [STR, STR], CELLS)
    U.spec_fun("strof", [ANY], STR)               # str(v): what the csv writer writes for a non-string field
    U.spec_fun("conv", [ANY, STR], ANY)           # t(s): the field type used as a converter
    U.spec_fun("hastype", [ANY, ANY], BOOL)       # v is a value of the field type t (int, float or str field without line breaks)
    U.apply_fun = "conv"
    U.class_object_field = "rcls"
    U.axiom("forall(cells, forall(dl, same(csvparse(csvrow(cells, dl), dl), cells), trigger=csvrow(cells, dl)))",
            "AXIOM-csv:reader(writer(row))==row(cells-without-line-breaks;same-delimiter)")
    U.axiom("forall(cells, forall(dl, oneline(csvrow(cells, dl)), trigger=csvrow(cells, dl)))", "AXIOM-csv:one-row-no-interior-line-break")
    U.var("v", ANY)
    U.var("t", ANY)
    U.axiom("forall(v, forall(t, implies(hastype(v, t), conv(t, strof(v)) == v), trigger=conv(t, strof(v))))",
            "AXIOM-types:int(str(i))==i,float(str(x))==x,str(s)==s")
    # ---- record classes (class objects) and records
    U.spec_fun("FN", [RefS("RecordClass")], CELLS)      # declared field names, in order
    U.spec_fun("FT", [RefS("RecordClass")], SeqS(ANY))  # declared field types, in order
    U.axiom("forall(c, len(FN(c)) == len(FT(c)) and forall(i, 0, len(FN(c)), forall(j, 0, i, FN(c)[i] != FN(c)[j])), trigger=FN(c))",
            "dataclass:field-names-are-distinct,one-type-per-field")
    RC = E.cls("RecordClass", fields={"_delimiter": STR, "_res_io": RefS("StringIO"),
                                      "_writer": MapS(RefS("RecordClass"), RefS("DictWriter"))})
    m = RC.method("field_names", {}, CELLS, trusted=True)
    m.ensures("same(result, FN(self))")
    m = RC.method("field_types", {}, SeqS(ANY), trusted=True)
    m.ensures("same(result, FT(self))")
    m = RC.method("__call__", {"kwargs": FV}, RefS("Record"), trusted=True)
    m.raises("TypeError", when="not forall(k, iff(k in kwargs, k in FN(self)))", iff=False)
    m.ensures("result != None and fresh(result) and same(result.fv, kwargs) and result.rcls == self")
    SIO = E.cls("StringIO", fields={}, ghost={"content": STR, "pos": INT, "empty": BOOL})
    # `empty` <=> content == "" ; writing at pos == 0 into an empty buffer makes the content exactly what was written; any other
    # write (position beyond the end after a truncate without seek: NUL padding; non-empty buffer: appended) is unspecified here
    m = SIO.method("getvalue", {}, STR, trusted=True)
    m.ensures("result == self.content")
    m = SIO.method("truncate", {"size": INT}, INT, trusted=True)
    m.requires("size == 0")
    m.modifies("self.content", "self.empty")
    m.ensures("self.empty")
    m = SIO.method("seek", {"offset": INT}, INT, trusted=True)
    m.requires("offset == 0")
    m.modifies("self.pos")
    m.ensures("self.pos == 0")
    DW = E.cls("DictWriter", fields={}, ghost={"io": RefS("StringIO"), "names": CELLS, "delim": STR})
    U.spec_fun("cellsof", [FV, CELLS], CELLS)      # [str(d[name]) for name in names]
    U.var("nm", CELLS)
    U.axiom("forall(m, forall(nm, len(cellsof(m, nm)) == len(nm) and forall(j, 0, len(nm), cellsof(m, nm)[j] == strof(m[nm[j]]),"
            " trigger=cellsof(m, nm)[j]), trigger=cellsof(m, nm)))", "def:cellsof")
    m = DW.method("writerow", {"d": FV}, ANY, trusted=True)
    m.requires("self.io != None")
    m.raises("ValueError", when="not forall(k, implies(k in d, k in self.names))", iff=False)
    m.modifies("self.io.content", "self.io.pos", "self.io.empty")
    m.ensures("not self.io.empty")
    m.ensures("implies(old(self.io.empty) and old(self.io.pos) == 0, self.io.content == csvrow(cellsof(d, self.names), self.delim))",
              "into-an-empty-rewound-buffer:content=exactly-this-row")
    m = U.library("csv.DictWriter", {"f": RefS("StringIO"), "fieldnames": CELLS, "delimiter": STR}, RefS("DictWriter"))
    m.default_expr("delimiter", "','")
    m.ensures("result != None and fresh(result) and result.io == f and same(result.names, fieldnames) and result.delim == delimiter")
    m = U.library("csv.reader", {"lines": CELLS, "delimiter": STR}, SeqS(CELLS))
    m.default_expr("delimiter", "','")
    m.ensures("len(result) == len(lines) and forall(j, 0, len(lines), same(result[j], csvparse(lines[j], delimiter)))",
              "one-row-per-line(lines-without-line-breaks)")
    m = U.library("json.loads", {"s": STR}, FV)
    m.raises("ValueError", when="True", iff=False)
    m.ensures("same(result, jload(s))")
    m = U.library("json.dumps", {"obj": FV, "separators": TupS(STR, STR)}, STR)
    m.ensures("result == jdump(obj)")
    m = U.library("asdict", {"obj": RefS("Record")}, FV)
    m.requires("obj != None")
    m.ensures("same(result, obj.fv)")
    return E, RC


# shared postcondition texts (the composition lemmas below quote them literally)
JSON_LOAD_POST = ("forall(k, iff(k in %(r)s, k in jload(%(s)s) and k in FN(%(c)s))) and forall(k, implies(k in %(r)s, %(r)s[k] == jload(%(s)s)[k]))")
CSV_LOAD_POST = ("forall(j, 0, len(FN(%(c)s)), FN(%(c)s)[j] in %(r)s and %(r)s[FN(%(c)s)[j]] == conv(FT(%(c)s)[j], csvparse(%(s)s, %(c)s._delimiter)[j]),"
                 " trigger=FN(%(c)s)[j])"
                 " and forall(k, implies(k in %(r)s, k in FN(%(c)s)))")


def unit():
    U = Unit("C13/records", "C13")
    E, RC = declare(U)
    M = U.module("windpyutils/files.py")
    R = M.cls("Record", fields={}, ghost={"fv": FV, "rcls": RefS("RecordClass")})
    R.invariant("self.rcls != None and forall(k, iff(k in self.fv, k in FN(self.rcls)))", "a-record-has-exactly-its-class's-fields")
    J = M.cls("JsonRecord", fields={})
    m = J.method("load", {"cls": RefS("RecordClass"), "s": STR}, RefS("Record"), kind="classmethod", locals={"dict_repr": FV, "arg_dict": FV})
    m.raises("ValueError", when="True", iff=False)
    m.raises("TypeError", when="not forall(k, implies(k in FN(cls), k in jload(s)))", iff=False)
    m.ensures("result != None and fresh(result) and result.rcls == cls")
    m.ensures(JSON_LOAD_POST % {"r": "result.fv", "s": "s", "c": "cls"}, "fields=the-decoded-object-restricted-to-the-field-names")
    m = J.method("save", {}, STR)
    m.ensures("result == jdump(self.fv)", "save=json-of-the-field-map")
    m.ensures("oneline(result)", "single-line")
    U.lemma("json-round-trip:load(save(r))==r", {"m": FV, "c": RefS("RecordClass"), "m2": FV},
            requires=["forall(k, iff(k in m, k in FN(c)))", JSON_LOAD_POST % {"r": "m2", "s": "jdump(m)", "c": "c"}],
            ensures=["forall(k, iff(k in m2, k in m))", "forall(k, implies(k in m, m2[k] == m[k]))"], induct=None)

    C = M.cls("CSVRecord", fields={})
    # the shared buffer is empty and rewound between calls; a cached writer of class k writes k's fields with k's delimiter into it
    bufinv = ("cls._res_io != None and cls._res_io.empty and cls._res_io.pos == 0"
              " and forall(c, implies(c in cls._writer, cls._writer[c] != None and cls._writer[c].io == cls._res_io"
              " and same(cls._writer[c].names, FN(c)) and cls._writer[c].delim == c._delimiter))")
    m = C.method("_dict_to_string", {"cls": RefS("RecordClass"), "d": FV}, STR, kind="classmethod", locals={"writer": RefS("DictWriter"), "res": STR})
    m.requires(bufinv, "shared-buffer-invariant")
    m.requires("forall(k, iff(k in d, k in FN(cls)))")
    m.modifies("cls._writer", "cls._res_io.content", "cls._res_io.pos", "cls._res_io.empty")
    m.ensures(bufinv, "shared-buffer-invariant-re-established(truncate+seek-on-every-path)")
    m.ensures("result == csvrow(cellsof(d, FN(cls)), cls._delimiter)", "exactly-this-record's-row(nothing-left-from-earlier-rows)")
    m = C.method("save", {}, STR)
    m.requires(bufinv.replace("cls.", "self.rcls."), "shared-buffer-invariant")
    m.modifies("self.rcls._writer", "self.rcls._res_io.content", "self.rcls._res_io.pos", "self.rcls._res_io.empty")
    m.ensures(bufinv.replace("cls.", "self.rcls."))
    m.ensures("result == csvrow(cellsof(self.fv, FN(self.rcls)), self.rcls._delimiter) and oneline(result)", "save=csv-row-of-the-fields-in-declaration-order")
    m = C.method("load", {"cls": RefS("RecordClass"), "s": STR}, RefS("Record"), kind="classmethod",
                 locals={"list_repr": CELLS, "arg_dict": FV})
    m.requires("len(csvparse(s, cls._delimiter)) == len(FN(cls))", "one-cell-per-field")
    m.ensures("result != None and fresh(result) and result.rcls == cls")
    m.ensures(CSV_LOAD_POST % {"r": "result.fv", "s": "s", "c": "cls"}, "field_j=type_j(cell_j)")
    U.lemma("csv-round-trip:load(save(r))==r", {"m": FV, "c": RefS("RecordClass"), "m2": FV},
            requires=["forall(k, iff(k in m, k in FN(c)))", "forall(j, 0, len(FN(c)), hastype(m[FN(c)[j]], FT(c)[j]))",
                      CSV_LOAD_POST % {"r": "m2", "s": "csvrow(cellsof(m, FN(c)), c._delimiter)", "c": "c"}],
            ensures=["forall(k, iff(k in m2, k in m))", "forall(j, 0, len(FN(c)), m2[FN(c)[j]] == m[FN(c)[j]])"], induct=None)
    U.verify("JsonRecord", "load")
    U.verify("JsonRecord", "save")
    U.verify("CSVRecord", "_dict_to_string")
    U.verify("CSVRecord", "save")
    U.verify("CSVRecord", "load")
    U.assume("AXIOMS about CPython's json and csv modules and int/float/str conversions (json.loads(json.dumps(d)) == d, csv reader(writer(row)) == "
             "row for cells without line breaks, t(str(v)) == v): C code, not provable here; exercised by the bounded layer only")
    U.assume("dataclasses.asdict / the generated __init__ / fields(): a record is its field map; TSVRecord differs from CSVRecord only in the class "
             "attribute _delimiter (symbolic here)")
    U.assume("io.StringIO: only 'write at position 0 into an empty buffer yields exactly what was written' is used; everything else unspecified")
    return U


def unit_files():
    """record files = line files (C11/C12 contracts, used by contract only) with load(line) on the way out and save(record) on the way in"""
    from . import c12_mutable
    U = c12_mutable.unit_for(False)
    U.name, U.prop, U.targets = "C13/record-files", "C13", []
    del U.assumptions[:]
    conc = "MutableRecordFile"
    E = U.module("env:records")
    U.var("m", FV)
    U.var("c", RefS("RecordClass"))
    U.spec_fun("lfv", [RefS("RecordClass"), STR], FV)      # fields of load(cls, text)
    U.spec_fun("sv", [RefS("RecordClass"), FV], STR)       # save() of a record of class cls with these fields
    U.spec_fun("isinst", [RefS("Record"), RefS("RecordClass")], BOOL)
    U.isinstance_fun = "isinst"
    U.axiom("forall(c, forall(m, same(lfv(c, sv(c, m)), m), trigger=sv(c, m)))",
            "round-trip:load(save(r))==r(proved-for-JsonRecord-and-CSVRecord-in-unit-C13/records)")
    RC = E.cls("RecordClass", fields={})
    m = RC.method("load", {"s": STR}, RefS("Record"), trusted=True)
    m.ensures("result != None and fresh(result) and result.rcls == self and same(result.fv, lfv(self, s))")
    M = U.modules["windpyutils/files.py"]
    R = M.cls("Record", fields={}, ghost={"fv": FV, "rcls": RefS("RecordClass")})
    m = R.method("save", {}, STR, trusted=True)
    m.ensures("result == sv(self.rcls, self.fv)")
    BR = M.cls("BaseRecordFile", fields={"record_class": RefS("RecordClass")})
    BR.invariant("self.record_class != None")
    BMR = M.cls("BaseMutableRecordFile")
    M.cls(conc)
    BM = U.classes["BaseMutableRandomLineAccessFile"]
    base_get = BM.methods["_get_item"]
    V_ = "ite(is_str(self._lines[%(i)s]), as_str(self._lines[%(i)s]), fs().ltext[self.path_to][self.jidx[%(i)s]])"      # the list view of C12
    Vf = lambda i: V_ % {"i": i}
    n_ = "len(self._lines)"
    inrange = lambda i: "(-%s <= %s and %s < %s)" % (n_, i, i, n_)
    m = BR.method("_get_item", {"n": INT}, RefS("Record"), inv_pre=True, inv_post=True)
    m.requires("self.file != None")
    m.raises("IndexError", when="not " + inrange("n"))
    m.modifies(*base_get.modifies_l)
    for e, l in base_get.ensures_l:
        if "result" not in e:
            m.ensures(e, l)
    m.ensures("result != None and fresh(result) and result.rcls == self.record_class"
              " and same(result.fv, lfv(self.record_class, %s))" % Vf("norm(n, %s)" % n_), "f[i]=load(i-th-line)")
    base_set = BM.methods["__setitem__"]
    m = BMR.method("__setitem__", {"i": INT, "r": RefS("Record")})
    m.requires("r != None")
    m.raises("ValueError", when="not isinst(r, self.record_class)", ensures=["same(self._lines, old(self._lines))"])
    m.raises("IndexError", when="isinst(r, self.record_class) and not " + inrange("i"), ensures=["same(self._lines, old(self._lines))"])
    m.modifies("self._dirty", "self._lines")
    k = "norm(i, old(%s))" % n_
    m.ensures("self._dirty and %s == old(%s) and %s == sv(r.rcls, r.fv)" % (n_, n_, Vf(k)), "line-i=save(r)")
    m.ensures("forall(t, 0, %s, implies(t != %s, %s == old(%s)))" % (n_, k, Vf("t"), Vf("t")), "other-items-unchanged")
    m = BMR.method("insert", {"index": INT, "content": RefS("Record")})
    m.requires("content != None")
    m.raises("ValueError", when="not isinst(content, self.record_class)", ensures=["same(self._lines, old(self._lines))"])
    m.modifies("self._dirty", "self._lines", "self.jidx")
    k = "clampi(index, old(%s))" % n_
    m.ensures("self._dirty and %s == old(%s) + 1 and %s == sv(content.rcls, content.fv)" % (n_, n_, Vf(k)), "inserted-line=save(record)")
    m.ensures("forall(t, 0, %s, %s == old(%s))" % (k, Vf("t"), Vf("t")), "items-before-keep-their-place")
    m.ensures("forall(t, %s + 1, %s, %s == old(%s))" % (k, n_, Vf("t"), Vf("t - 1")), "items-after-shift-up")
    U.verify("BaseRecordFile", "_get_item", conc)
    U.verify("BaseMutableRecordFile", "__setitem__", conc)
    U.verify("BaseMutableRecordFile", "insert", conc)
    U.assume("line-file layer (C11/C12 contracts) used by contract; record_class.load / record.save abstract (lfv / sv), tied by the round-trip "
             "lemmas proved in unit C13/records")
    U.assume("BaseMutableRecordFile.save (a lazily evaluated generator expression handed to _save_from_iter), slices, iteration of record files, "
             "save + reopen: bounded layer only")
    return U
