"""C09: SortedSet / SortedMap stay strictly ascending, duplicate free and equivalent to set / dict.

Keys are SMT reals (exact for Python's int/float comparisons; no NaN).  View of a SortedSet = the set of its `values`;
of a SortedMap = the finite map keys_storage[i] -> values_storage[i].  Invariant: storage strictly ascending (global form)."""
from pyvc.dsl import *

MUTSET_METHODS = ("remove", "pop")


def common(U, keysort=REAL):
    U.var("x", keysort)
    U.var("y", keysort)
    U.define("ascending", ["s"], "forall(i, 0, len(s), forall(j, i + 1, len(s), s[i] < s[j]))")
    U.define("mem", ["s", "v"], "exists(w, 0, len(s), s[w] == v)")
    # bisect.bisect_left on an ascending list (trusted library contract, DESIGN §4)
    b = U.library("bisect.bisect_left", {"a": SeqS(keysort), "x": keysort}, INT)
    b.requires("forall(i, 0, len(a), forall(j, i, len(a), a[i] <= a[j]))", "list-is-sorted")
    b.ensures("0 <= result and result <= len(a)")
    b.ensures("forall(j, 0, result, a[j] < x, trigger=a[j])")
    b.ensures("forall(j, result, len(a), a[j] >= x, trigger=a[j])")
    return b


def declare_set(U, keysort=REAL):
    M = U.module("windpyutils/structures/sorted.py")
    S = M.cls("SortedSet", fields={"values": SeqS(keysort)})
    S.invariant("ascending(self.values)", "strictly-ascending(duplicate-free)")
    return M, S


def set_contracts(U, S):
    m = S.method("__init__", {"init_values": OptS(SeqS(REAL))}, locals={"sorted_vals": SeqS(REAL)})
    m.modifies("self.values")
    lp = m.loop(1)
    # after t iterations the elements sorted_vals[0..t] have been processed (the first one before the loop)
    lp.invariant("ascending(self.values)")
    lp.invariant("implies(len(sorted_vals) == 0, len(self.values) == 0)")
    lp.invariant("implies(len(sorted_vals) >= 1, len(self.values) >= 1 and self.values[len(self.values) - 1] == sorted_vals[_i1])")
    lp.invariant("implies(len(sorted_vals) >= 1, forall(j, 0, _i1 + 1, 0 <= g_w[j] and g_w[j] < len(self.values)"
                 " and self.values[g_w[j]] == sorted_vals[j]))", "processed-elements-are-stored")
    lp.invariant("forall(w, 0, len(self.values), 0 <= g_src[w] and g_src[w] <= _i1 and sorted_vals[g_src[w]] == self.values[w])",
                 "stored-elements-come-from-the-input")
    lp.ghost_at_end("g_w = aset(g_w, _i1, len(self.values) - 1)")
    lp.ghost_at_end("g_src = ite(len(self.values) > g_len0, aset(g_src, len(self.values) - 1, _i1), g_src)")
    lp.ghost_at_begin("g_len0 = len(self.values)")
    m.ghost_entry("g_w = lam(i, 0)")
    m.ghost_entry("g_src = lam(i, 0)")
    m.ghost_entry("g_len0 = 0")
    m.ensures("implies(is_none(init_values), len(self.values) == 0)")
    m.hint_exit("implies(not is_none(init_values), forall(w, 0, len(self.values), 0 <= g_perm(g_src[w]) and g_perm(g_src[w]) < len(some(init_values))"
                " and self.values[w] == some(init_values)[g_perm(g_src[w])]))", "every-stored-value-is-an-initial-value")
    m.hint_exit("implies(not is_none(init_values), forall(j, 0, len(some(init_values)), 0 <= g_w[g_pinv(j)] and g_w[g_pinv(j)] < len(self.values)"
                " and some(init_values)[j] == self.values[g_w[g_pinv(j)]]))", "every-initial-value-is-stored")
    m.ensures("implies(not is_none(init_values), forall(x, iff(mem(self.values, x), mem(some(init_values), x))))",
              "content=set(initial-values)(empty,unsorted,repeats-included)")

    m = S.method("insertions_index", {"x": REAL}, TupS(INT, BOOL), locals={"on_index": REAL})
    m.ensures("0 <= result[0] and result[0] <= len(self.values)")
    m.ensures("forall(j, 0, result[0], self.values[j] < x) and forall(j, result[0], len(self.values), self.values[j] >= x)",
              "index=insertion-point")
    m.ensures("result[1] == mem(self.values, x)", "flag<=>value-present")
    m.ensures("result[1] == (result[0] < len(self.values) and self.values[result[0]] == x)")

    m = S.method("add", {"value": REAL})
    m.modifies("self.values")
    m.ensures("forall(y, iff(mem(self.values, y), mem(old(self.values), y) or y == value))", "set'=set+{value}")
    m.ensures("len(self.values) == old(len(self.values)) + ite(old(mem(self.values, value)), 0, 1)")

    m = S.method("discard", {"value": REAL})
    m.modifies("self.values")
    m.ensures("forall(y, iff(mem(self.values, y), mem(old(self.values), y) and y != value))", "set'=set-{value}")
    m.ensures("len(self.values) == old(len(self.values)) - ite(old(mem(self.values, value)), 1, 0)")

    m = S.method("__contains__", {"x": REAL}, BOOL)
    m.ensures("result == mem(self.values, x)", "membership=set-membership")

    m = S.method("__len__", {}, INT)
    m.ensures("result == len(self.values)")

    m = S.method("__iter__", {}, yields=REAL)
    m.reads("SortedSet.values")
    m.ensures("yielded == self.values", "iteration-strictly-ascending")


def mutable_set_mixins(U):
    Q = U.module("stdlib:_collections_abc")
    MS = Q.cls("MutableSet")
    m = MS.method("remove", {"value": REAL})
    m.raises("KeyError", when="not mem(self.values, value)")
    m.modifies("self.values")
    m.ensures("forall(y, iff(mem(self.values, y), mem(old(self.values), y) and y != value))", "set'=set-{value}")
    m = MS.method("pop", {}, REAL)
    m.raises("KeyError", when="len(self.values) == 0")
    m.modifies("self.values")
    m.ensures("old(mem(self.values, result))", "returns-a-member")
    m.ensures("forall(y, iff(mem(self.values, y), mem(old(self.values), y) and y != result))", "set'=set-{result}")


def unit():
    U = Unit("C09/SortedSet", "C09")
    common(U)
    U.var("w", INT)
    M, S = declare_set(U)
    set_contracts(U, S)
    mutable_set_mixins(U)
    for f in ("__init__", "insertions_index", "add", "discard", "__contains__", "__len__", "__iter__"):
        U.verify("SortedSet", f)
    for f in MUTSET_METHODS:
        U.verify("MutableSet", f, "SortedSet")
    U.assume("numeric keys are SMT reals: exact for int/float comparison provided no NaN")
    U.assume("bisect.bisect_left on an ascending list returns the leftmost insertion point (library contract; the C accelerator is trusted)")
    U.assume("sorted(): stable ascending permutation (library contract)")
    return U


# ------------------------------------------------------------------------------------------ SortedMap
def arg_sort_contract(U, trusted_use=True):
    """generic.arg_sort: the stable sorting permutation (verified in unit C19/arg_sort; used here by contract)"""
    G = U.module("windpyutils/generic.py")
    m = G.function("arg_sort", {"elements": SeqS(REAL), "reverse": BOOL}, SeqS(INT))
    m.witness_fun("ainv", [INT], INT, bound_to="g_pinv")
    m.ensures("len(result) == len(elements)")
    m.ensures("forall(i, 0, len(result), 0 <= result[i] and result[i] < len(elements) and ainv(result[i]) == i, trigger=result[i])",
              "a-permutation-of-the-indices")
    m.ensures("forall(j, 0, len(elements), 0 <= ainv(j) and ainv(j) < len(elements) and result[ainv(j)] == j, trigger=ainv(j))",
              "every-index-occurs")
    m.ensures("forall(i, 0, len(result), forall(j, i + 1, len(result),"
              " ite(reverse, elements[result[i]] >= elements[result[j]], elements[result[i]] <= elements[result[j]])"
              " and implies(elements[result[i]] == elements[result[j]], result[i] < result[j])))", "sorted-by-key-and-stable")
    return m


def declare_map(U):
    M = U.module("windpyutils/structures/sorted.py")
    P = M.cls("SortedMap", fields={"keys_storage": SeqS(REAL), "values_storage": SeqS(ANY)})
    P.invariant("ascending(self.keys_storage)", "keys-strictly-ascending(duplicate-free)")
    P.invariant("len(self.values_storage) == len(self.keys_storage)", "values-parallel-to-keys")
    return P


def map_contracts(U, P, init_sort):
    U.define("maps_to", ["M", "k", "v"], "exists(w, 0, len(M.keys_storage), M.keys_storage[w] == k and M.values_storage[w] == v)")
    m = P.method("insertions_index", {"x": REAL}, TupS(INT, BOOL), locals={"on_index": REAL})
    m.ensures("0 <= result[0] and result[0] <= len(self.keys_storage)")
    m.ensures("forall(j, 0, result[0], self.keys_storage[j] < x) and forall(j, result[0], len(self.keys_storage), self.keys_storage[j] >= x)",
              "index=insertion-point")
    m.ensures("result[1] == mem(self.keys_storage, x)", "flag<=>key-present")
    m.ensures("result[1] == (result[0] < len(self.keys_storage) and self.keys_storage[result[0]] == x)")

    m = P.method("__getitem__", {"key": REAL}, ANY)
    m.raises("KeyError", when="not mem(self.keys_storage, key)")
    m.ensures("maps_to(self, key, result)", "lookup=dict-lookup")

    m = P.method("__setitem__", {"key": REAL, "value": ANY})
    m.modifies("self.keys_storage", "self.values_storage")
    m.ensures("maps_to(self, key, value)", "stored")
    m.ensures("forall(y, iff(mem(self.keys_storage, y), mem(old(self.keys_storage), y) or y == key))", "keys'=keys+{key}")
    m.ensures("forall(w, 0, old(len(self.keys_storage)), implies(old(self.keys_storage)[w] != key,"
              " maps_to(self, old(self.keys_storage)[w], old(self.values_storage)[w])))", "other-entries-unchanged")
    m.ensures("len(self.keys_storage) == old(len(self.keys_storage)) + ite(old(mem(self.keys_storage, key)), 0, 1)", "one-more-entry-iff-new-key")

    m = P.method("__delitem__", {"key": REAL})
    m.raises("KeyError", when="not mem(self.keys_storage, key)")
    m.modifies("self.keys_storage", "self.values_storage")
    m.ensures("forall(y, iff(mem(self.keys_storage, y), mem(old(self.keys_storage), y) and y != key))", "keys'=keys-{key}")
    m.ensures("forall(w, 0, old(len(self.keys_storage)), implies(old(self.keys_storage)[w] != key,"
              " maps_to(self, old(self.keys_storage)[w], old(self.values_storage)[w])))", "other-entries-unchanged")
    m.ensures("len(self.keys_storage) == old(len(self.keys_storage)) - 1", "one-entry-fewer")

    m = P.method("__iter__", {}, SeqS(REAL))
    m.reads("SortedMap.keys_storage")
    m.ensures("result == self.keys_storage", "iteration-strictly-ascending")

    m = P.method("__len__", {}, INT)
    m.ensures("result == len(self.keys_storage)")


def map_mixins(U):
    Q = U.module("stdlib:_collections_abc")
    MP = Q.cls("Mapping")
    MM = Q.cls("MutableMapping", fields={"_MutableMapping__marker": ANY, "__marker": ANY})
    m = MP.method("get", {"key": REAL, "default": ANY}, ANY)
    m.ensures("ite(mem(self.keys_storage, key), maps_to(self, key, result), result == default)", "get=dict.get")
    m = MP.method("__contains__", {"key": REAL}, BOOL)
    m.ensures("result == mem(self.keys_storage, key)", "membership=dict-membership")
    m = MM.method("pop", {"key": REAL, "default": ANY}, ANY)
    m.raises("KeyError", when="not mem(self.keys_storage, key) and default == self.__marker")
    m.modifies("self.keys_storage", "self.values_storage")
    m.ensures("ite(old(mem(self.keys_storage, key)), old(maps_to(self, key, result)), result == default)", "pop=dict.pop")
    m.ensures("forall(y, iff(mem(self.keys_storage, y), mem(old(self.keys_storage), y) and y != key))", "keys'=keys-{key}")
    m = MM.method("popitem", {}, TupS(REAL, ANY))
    m.raises("KeyError", when="len(self.keys_storage) == 0")
    m.modifies("self.keys_storage", "self.values_storage")
    m.ensures("old(mem(self.keys_storage, result[0]) and maps_to(self, result[0], result[1]))", "returns-a-stored-pair")
    m.ensures("forall(y, iff(mem(self.keys_storage, y), mem(old(self.keys_storage), y) and y != result[0]))", "exactly-that-key-removed")
    m.hint_exit("forall(y, iff(mem(self.keys_storage, y), mem(old(self.keys_storage), y) and y != key))", "delitem-removed-exactly-the-key")
    m.hint_exit("forall(w, 0, old(len(self.keys_storage)), implies(old(self.keys_storage)[w] != key,"
                " maps_to(self, old(self.keys_storage)[w], old(self.values_storage)[w])))", "delitem-kept-the-others")
    m.ensures("forall(w, 0, old(len(self.keys_storage)), implies(old(self.keys_storage)[w] != result[0],"
              " maps_to(self, old(self.keys_storage)[w], old(self.values_storage)[w])))", "other-entries-unchanged")
    m.ensures("len(self.keys_storage) == old(len(self.keys_storage)) - 1")
    m = MM.method("clear", {})
    m.modifies("self.keys_storage", "self.values_storage")
    lp = m.loop(1).with_class_invariant()
    lp.decreases("len(self.keys_storage)")
    m.ensures("len(self.keys_storage) == 0", "cleared(terminates)")
    m = MM.method("setdefault", {"key": REAL, "default": ANY}, ANY)
    m.modifies("self.keys_storage", "self.values_storage")
    m.ensures("maps_to(self, key, result)")
    m.ensures("implies(not old(mem(self.keys_storage, key)), result == default)")
    m.ensures("implies(old(mem(self.keys_storage, key)), old(maps_to(self, key, result)))", "present-key:returns-the-stored-value(whatever-it-is)")
    m.ensures("forall(w, 0, old(len(self.keys_storage)), maps_to(self, old(self.keys_storage)[w], old(self.values_storage)[w]))",
              "no-stored-entry-is-overwritten")
    m.ensures("forall(y, iff(mem(self.keys_storage, y), mem(old(self.keys_storage), y) or y == key))", "keys'=keys+{key}")


def unit_map():
    U = Unit("C09/SortedMap", "C09")
    common(U)
    U.var("w", INT)
    arg_sort_contract(U)
    P = declare_map(U)
    map_contracts(U, P, None)
    m = P.method("__init__", {"init_values": OptS(MapS(REAL, ANY))}, locals={"values": SeqS(ANY), "sorted_indices": SeqS(INT)})
    m.modifies("self.keys_storage", "self.values_storage")
    m.ensures("implies(is_none(init_values), len(self.keys_storage) == 0)")
    m.hint_exit("implies(not is_none(init_values), forall(y, implies(y in some(init_values), 0 <= g_ainv(g_kidx(y))"
                " and g_ainv(g_kidx(y)) < len(self.keys_storage) and self.keys_storage[g_ainv(g_kidx(y))] == y)))", "where-each-key-ends-up")
    m.ensures("implies(not is_none(init_values), forall(y, iff(mem(self.keys_storage, y), y in some(init_values))))", "keys=dict(init).keys()")
    m.ensures("implies(not is_none(init_values), forall(w, 0, len(self.keys_storage),"
              " self.values_storage[w] == some(init_values)[self.keys_storage[w]]))", "values=dict(init)[key]")
    map_mixins(U)
    for f in ("__init__", "insertions_index", "__getitem__", "__setitem__", "__delitem__", "__iter__", "__len__"):
        U.verify("SortedMap", f)
    for f in ("get", "__contains__"):
        U.verify("Mapping", f, "SortedMap")
    for f in ("pop", "setdefault", "popitem", "clear"):
        U.verify("MutableMapping", f, "SortedMap")
    U.assume("keys()/values() of an unmodified dict enumerate its entries in the same order")
    U.assume("not verified deductively (bounded layer only): MutableMapping.update, popitem, clear and the views over SortedMap")
    return U


def update_contract(U, MM, other_sort):
    """MutableMapping.update(other) for `other` = a sequence of (key, value) pairs or a dict: dict.update - every key of `other` present
    afterwards with the value of its LAST pair, every other entry kept, nothing else added (kwds empty: keyword names are strings, not
    numeric keys)"""
    m = MM.method("update", {"other": other_sort, "kwds": MapS(STR, ANY)})
    m.requires("len(kwds) == 0", "no-keyword-arguments(numeric-keys)")
    m.modifies("self.keys_storage", "self.values_storage")
    return m


def unit_map_update():
    U = Unit("C09/SortedMap.update(pairs)", "C09")
    common(U)
    U.var("w", INT)
    P = declare_map(U)
    map_contracts(U, P, None)
    map_mixins(U)
    MM = U.modules["stdlib:_collections_abc"].classes["MutableMapping"]
    m = update_contract(U, MM, SeqS(TupS(REAL, ANY)))
    m.loop(1), m.loop(2)
    ok, ov = "old(self.keys_storage)", "old(self.values_storage)"
    def inv(n):
        return [("forall(y, iff(mem(self.keys_storage, y), mem(%s, y) or exists(j, 0, %s, other[j][0] == y)))" % (ok, n), "keys=old-keys+keys-of-the-pairs"),
                ("forall(j, 0, %s, implies(forall(j2, j + 1, %s, other[j2][0] != other[j][0]), maps_to(self, other[j][0], other[j][1])))" % (n, n),
                 "last-pair-of-a-key-wins"),
                ("forall(w, 0, len(%s), implies(forall(j, 0, %s, other[j][0] != %s[w]), maps_to(self, %s[w], %s[w])))" % (ok, n, ok, ok, ov),
                 "entries-not-named-by-a-pair-are-kept")]
    lp = m.loop(3).with_class_invariant()
    for e, l in inv("_i3"):
        lp.invariant(e, l)
    lp4 = m.loop(4).with_class_invariant()
    for e, l in inv("len(other)"):
        lp4.invariant(e, l)
    for e, l in inv("len(other)"):
        m.ensures(e, l)
    U.verify("MutableMapping", "update", "SortedMap")
    U.assume("update(**kwds) is excluded by precondition: keyword names are strings, not numeric keys")
    return U


def unit_map_update_dict():
    """update(other) with a dict: the `isinstance(other, Mapping)` branch of the stdlib mixin"""
    U = Unit("C09/SortedMap.update(dict)", "C09")
    common(U)
    U.var("w", INT)
    P = declare_map(U)
    map_contracts(U, P, None)
    map_mixins(U)
    MM = U.modules["stdlib:_collections_abc"].classes["MutableMapping"]
    m = update_contract(U, MM, MapS(REAL, ANY))
    ok, ov = "old(self.keys_storage)", "old(self.values_storage)"
    lp = m.loop(1).with_class_invariant()
    lp.invariant("forall(y, iff(mem(self.keys_storage, y), mem(%s, y) or exists(j, 0, _i1, _seq1[j] == y)))" % ok)
    lp.invariant("forall(j, 0, _i1, maps_to(self, _seq1[j], other[_seq1[j]]))")
    lp.invariant("forall(w, 0, len(%s), implies(forall(j, 0, _i1, _seq1[j] != %s[w]), maps_to(self, %s[w], %s[w])))" % (ok, ok, ok, ov))
    lp.invariant("forall(j, 0, len(_seq1), _seq1[j] in other) and forall(y, implies(y in other, exists(j, 0, len(_seq1), _seq1[j] == y)))"
                 " and forall(j, 0, len(_seq1), forall(j2, j + 1, len(_seq1), _seq1[j] != _seq1[j2]))", "iterating-a-dict-lists-its-keys-once-each")
    m.loop(2), m.loop(3)
    post = [("forall(y, iff(mem(self.keys_storage, y), mem(%s, y) or y in other))" % ok, "keys=old-keys+keys-of-other"),
            ("forall(y, implies(y in other, maps_to(self, y, other[y])))", "values-of-other-stored"),
            ("forall(w, 0, len(%s), implies(not (%s[w] in other), maps_to(self, %s[w], %s[w])))" % (ok, ok, ok, ov), "entries-not-in-other-are-kept")]
    lp4 = m.loop(4).with_class_invariant()
    for e, l in post:
        lp4.invariant(e, l)
        m.ensures(e, l)
    U.verify("MutableMapping", "update", "SortedMap")
    U.assume("iterating a dict yields each of its keys exactly once (engine rule for dict iteration)")
    return U


def unit_map_pairs():
    """SortedMap(iterable of pairs): later pairs win, like dict()"""
    U = Unit("C09/SortedMap(pairs)", "C09")
    common(U)
    U.var("w", INT)
    arg_sort_contract(U)
    P = declare_map(U)
    PAIRS = SeqS(TupS(REAL, ANY))
    m = P.method("__init__", {"init_values": OptS(PAIRS)}, locals={"values": SeqS(ANY), "sorted_indices": SeqS(INT)})
    m.modifies("self.keys_storage", "self.values_storage")
    iv = "some(old(init_values))"
    m.ensures("implies(is_none(old(init_values)), len(self.keys_storage) == 0)")
    m.hint_exit("implies(not is_none(old(init_values)), forall(j, 0, len(%s), 0 <= g_ainv(g_kidx(%s[j][0]))"
                " and g_ainv(g_kidx(%s[j][0])) < len(self.keys_storage)"
                " and self.keys_storage[g_ainv(g_kidx(%s[j][0]))] == %s[j][0]))" % (iv, iv, iv, iv, iv), "where-each-initial-key-ends-up")
    m.ensures("implies(not is_none(old(init_values)), forall(j, 0, len(%s), mem(self.keys_storage, %s[j][0])))" % (iv, iv),
              "every-initial-key-present")
    m.ensures("implies(not is_none(old(init_values)), forall(w, 0, len(self.keys_storage),"
              " exists(j, 0, len(%s), %s[j][0] == self.keys_storage[w] and %s[j][1] == self.values_storage[w]"
              " and forall(j2, j + 1, len(%s), %s[j2][0] != self.keys_storage[w]))))" % (iv, iv, iv, iv, iv),
              "each-key-once-with-the-value-of-its-LAST-pair(like-dict())")
    U.verify("SortedMap", "__init__")
    U.assume("dict(pairs): the finite map in which the last pair of every key wins (library contract)")
    return U


def unit_foreign():
    """probes with a value that cannot be ordered against the content: 'absent', structure unchanged"""
    U = Unit("C09/foreign-probes", "C09")
    U.var("y", REAL)
    U.define("ascending", ["s"], "forall(i, 0, len(s), forall(j, i + 1, len(s), s[i] < s[j]))")
    b = U.library("bisect.bisect_left", {"a": SeqS(REAL), "x": FOREIGN}, INT)
    b.raises("TypeError", when="len(a) > 0")       # '<' between a number and an unrelated type
    b.ensures("result == 0")
    M, S = declare_set(U)
    P = declare_map(U)
    m = S.method("insertions_index", {"x": FOREIGN}, TupS(INT, BOOL), locals={"on_index": REAL})
    m.raises("TypeError", when="len(self.values) > 0")
    m.ensures("result[0] == 0 and not result[1]")
    m = S.method("__contains__", {"x": FOREIGN}, BOOL)
    m.ensures("result == False", "foreign-probe:not-a-member")
    m = S.method("__len__", {}, INT)
    m.ensures("result == len(self.values)")
    m = P.method("insertions_index", {"x": FOREIGN}, TupS(INT, BOOL), locals={"on_index": REAL})
    m.raises("KeyError", when="len(self.keys_storage) > 0")
    m.ensures("result[0] == 0 and not result[1]")
    m = P.method("__getitem__", {"key": FOREIGN}, ANY)
    m.raises("KeyError", when="True", iff=False)
    m.ensures("False", "foreign-probe:lookup-always-raises-KeyError")
    Q = U.module("stdlib:_collections_abc")
    MS = Q.cls("MutableSet")
    m = MS.method("remove", {"value": FOREIGN})
    m.raises("KeyError", when="True", iff=False)
    m.ensures("False", "foreign-probe:remove-always-raises-KeyError")
    MP = Q.cls("Mapping")
    m = MP.method("__contains__", {"key": FOREIGN}, BOOL)
    m.ensures("result == False", "foreign-probe:not-a-key")
    m = MP.method("get", {"key": FOREIGN, "default": ANY}, ANY)
    m.ensures("result == default")
    for f in ("insertions_index", "__contains__"):
        U.verify("SortedSet", f)
    U.verify("MutableSet", "remove", "SortedSet")
    for f in ("insertions_index", "__getitem__"):
        U.verify("SortedMap", f)
    for f in ("__contains__", "get"):
        U.verify("Mapping", f, "SortedMap")
    U.assume("a foreign probe is a value of a type on which '<' against a number raises TypeError and '==' is False; "
             "no modifies clause on any probe: the structure is unchanged (frame obligations)")
    return U
