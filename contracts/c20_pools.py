"""C20: TmpPool and FilePool leave nothing behind.

Environment (trusted, DESIGN §4): a ghost file system fs() with `exists` (paths present) and `ever` (paths ever handed out by
NamedTemporaryFile); os.remove deletes or raises FileNotFoundError; NamedTemporaryFile(delete=False) creates a path never returned
before; file handles have a `closed` flag.  `__exit__` is verified for EVERY exception triple (the language runs it however the
with-body is left), which is the 'exception at any point of the body' quantifier."""
from pyvc.dsl import *


def env(U):
    E = U.module("env:os")
    FS = E.cls("FileSystem", fields={}, ghost={"exists": ArrS(STR, BOOL), "ever": ArrS(STR, BOOL)})
    U.spec_fun("fs", [], RefS("FileSystem"))
    U.axiom("fs() != None", "the-file-system-object")
    U.var("q", STR)
    T = E.cls("TmpFile", fields={"name": STR})
    m = T.method("close", {}, trusted=True)
    nt = U.library("tempfile.NamedTemporaryFile", {"delete": BOOL, "dir": ANY}, RefS("TmpFile"))
    nt.modifies("FileSystem.exists[*]", "FileSystem.ever[*]")
    nt.ensures("result != None and fresh(result) and not old(fs().ever[result.name])", "a-path-never-returned-before")
    nt.ensures("same(fs().exists, aset(old(fs().exists), result.name, True)) and same(fs().ever, aset(old(fs().ever), result.name, True))")
    rm = U.library("os.remove", {"p": STR})
    rm.raises("FileNotFoundError", when="not fs().exists[p]")
    rm.modifies("FileSystem.exists[*]")
    rm.ensures("same(fs().exists, aset(old(fs().exists), p, False))")
    MG = E.cls("Manager", fields={})
    m = MG.method("list", {}, SeqS(STR), trusted=True)
    m.ensures("len(result) == 0")
    m = MG.method("__enter__", {}, RefS("Manager"), trusted=True)
    m.ensures("result != None")
    m = MG.method("__exit__", {"a": ANY, "b": ANY, "c": ANY}, trusted=True)
    mg = U.library("multiprocessing.Manager", {}, RefS("Manager"))
    mg.ensures("result != None and fresh(result)")
    H = E.cls("Handle", fields={"closed": BOOL})
    m = H.method("close", {}, trusted=True)
    m.modifies("self.closed")
    m.ensures("self.closed")
    return E


def unit():
    U = Unit("C20/TmpPool+FilePool", "C20")
    env(U)
    M = U.module("windpyutils/files.py")
    P = M.cls("TmpPool", fields={"_d": ANY, "_created_files": SeqS(STR), "_multi_proc": BOOL, "_manager": RefS("Manager")})
    U.define("listed", ["P", "p"], "exists(t, 0, len(P._created_files), P._created_files[t] == p)")
    P.invariant("forall(i, 0, len(self._created_files), fs().ever[self._created_files[i]])", "listed-paths-were-handed-out-by-the-pool")
    P.invariant("forall(i, 0, len(self._created_files), forall(j, i + 1, len(self._created_files), self._created_files[i] != self._created_files[j]))",
                "listed-paths-distinct")
    P.invariant("implies(self._multi_proc, self._manager != None)")
    m = P.method("__init__", {"d": ANY, "multi_proc": BOOL})
    m.modifies("self._d", "self._created_files", "self._multi_proc", "self._manager")
    m.ensures("len(self._created_files) == 0 and self._multi_proc == multi_proc")
    m = P.method("__len__", {}, INT)
    m.ensures("result == len(self._created_files)")
    m = P.method("__getitem__", {"item": INT}, STR)
    m.raises("IndexError", when="not (-len(self._created_files) <= item and item < len(self._created_files))")
    m.ensures("result == self._created_files[ite(item < 0, item + len(self._created_files), item)]")
    m = P.method("__enter__", {}, RefS("TmpPool"))
    m.modifies("self._manager", "self._created_files")
    # files may have been created before the context is entered: a single-process pool keeps listing them (a multi-process pool swaps
    # in the manager's shared list - entered empty, as every use in the repository does)
    m.requires("implies(self._multi_proc, len(self._created_files) == 0)", "a-multi-process-pool-is-entered-before-anything-is-created")
    m.ensures("result == self and self._created_files == old(self._created_files)", "entering-the-context-forgets-no-created-file")
    m = P.method("create", {}, STR)
    m.modifies("self._created_files", "FileSystem.exists[*]", "FileSystem.ever[*]")
    m.ensures("fs().exists[result] and not old(listed(self, result))", "a-distinct-existing-file")
    m.ensures("self._created_files == append(old(self._created_files), result)", "pool-lists-it")
    m.ensures("forall(q, implies(q != result, fs().exists[q] == old(fs().exists)[q]))", "no-other-file-touched")
    m = P.method("remove", {"p": STR})
    m.requires("listed(self, p)", "p-was-created-by-this-pool")
    m.modifies("self._created_files", "FileSystem.exists[*]")
    m.ensures("not fs().exists[p]", "file-gone(also-when-it-was-already-deleted)")
    m.ensures("forall(q, iff(listed(self, q), old(listed(self, q)) and q != p))", "pool-lists-exactly-the-others")
    m.ensures("len(self._created_files) == old(len(self._created_files)) - 1")
    m.ensures("forall(q, implies(q != p, fs().exists[q] == old(fs().exists)[q]))", "no-other-file-touched")
    m = P.method("flush", {}, locals={"p": STR})
    m.modifies("self._created_files", "FileSystem.exists[*]")
    lp = m.loop(1)
    lp.invariant("same(self._created_files, old(self._created_files)) and _seq1 == old(self._created_files)")
    lp.invariant("forall(t, 0, _i1, not fs().exists[_seq1[t]])")
    lp.invariant("forall(q, implies(fs().exists[q], old(fs().exists)[q]))")
    lp.invariant("forall(q, implies(not old(listed(self, q)), fs().exists[q] == old(fs().exists)[q]))")
    flush_post = [("forall(t, 0, old(len(self._created_files)), not fs().exists[old(self._created_files)[t]])", "none-of-the-created-files-exists"),
                  ("len(self._created_files) == 0", "pool-empty"),
                  ("forall(q, implies(not old(listed(self, q)), fs().exists[q] == old(fs().exists)[q]))", "no-other-file-touched")]
    for e, l in flush_post:
        m.ensures(e, l)
    m = P.method("__exit__", {"exc_type": ANY, "exc_val": ANY, "exc_tb": ANY})
    m.modifies("self._created_files", "FileSystem.exists[*]")
    for e, l in flush_post:
        m.ensures(e, l + "(for-every-exception-triple)")

    F = M.cls("FilePool", fields={"_files": SeqS(STR), "_mode": STR, "file_handles": OptS(MapS(STR, RefS("Handle")))})
    m = F.method("__init__", {"files": SeqS(STR), "mode": STR})
    m.modifies("self._files", "self._mode", "self.file_handles")
    m.ensures("is_none(self.file_handles) and self._files == files")
    op = U.library("open", {"file": STR, "mode": STR}, RefS("Handle"))
    op.ensures("result != None and fresh(result) and not result.closed", "builtin-open:a-new-open-handle(or-an-exception)")
    m = F.method("open", {}, RefS("FilePool"), locals={"f": STR})
    m.modifies("self.file_handles")
    # the dict comprehension {f: open(f, self._mode) for f in self._files} opens a file per path: executed as the loop it abbreviates
    lp = m.dict_comprehension(1, STR, RefS("Handle"))
    lp.invariant("forall(t, 0, _id1, (_seqd1[t] in _dacc1) and _dacc1[_seqd1[t]] != None and not _dacc1[_seqd1[t]].closed)",
                 "every-path-so-far-has-an-open-handle")
    lp.invariant("forall(kk, implies(kk in _dacc1, exists(t, 0, _id1, _seqd1[t] == kk)))", "only-the-given-paths")
    lp.invariant("forall(h, implies(old(alive(h)) and old(h.closed), h.closed)) and _seqd1 == self._files")
    m.ensures("result == self and not is_none(self.file_handles)")
    m.ensures("forall(t, 0, len(self._files), (self._files[t] in some(self.file_handles)) and some(self.file_handles)[self._files[t]] != None"
              " and not some(self.file_handles)[self._files[t]].closed)", "every-given-path-mapped-to-an-open-handle")
    m.ensures("forall(kk, implies(kk in some(self.file_handles), exists(t, 0, len(self._files), self._files[t] == kk)))", "no-other-path")
    m = F.method("close", {}, locals={"f": RefS("Handle")})
    m.requires("not is_none(self.file_handles)")
    m.modifies("self.file_handles", "Handle.closed[*]")
    lp = m.loop(1)
    lp.invariant("same(self.file_handles, old(self.file_handles))")
    lp.invariant("forall(t, 0, _i1, _seq1[t].closed)")
    lp.invariant("forall(h, implies(old(h.closed), h.closed))")
    U.var("h", RefS("Handle"))
    U.var("kk", STR)
    close_post = [("is_none(self.file_handles)", "pool-closed"),
                  ("forall(kk, implies(kk in some(old(self.file_handles)), some(old(self.file_handles))[kk].closed))", "every-handle-closed")]
    for e, l in close_post:
        m.ensures(e, l)
    m = F.method("__enter__", {}, RefS("FilePool"))
    m.modifies("self.file_handles")
    m.ensures("result == self and not is_none(self.file_handles)")
    m = F.method("__exit__", {"exc_type": ANY, "exc_val": ANY, "exc_tb": ANY})
    m.requires("not is_none(self.file_handles)")
    m.modifies("self.file_handles", "Handle.closed[*]")
    for e, l in close_post:
        m.ensures(e, l + "(for-every-exception-triple)")
    m = F.method("__len__", {}, INT)
    m.raises("RuntimeError", when="is_none(self.file_handles)")
    m.ensures("result == len(some(self.file_handles))")
    m = F.method("__getitem__", {"path": STR}, RefS("Handle"))
    m.raises("RuntimeError", when="is_none(self.file_handles)")
    m.raises("KeyError", when="not is_none(self.file_handles) and not (path in some(self.file_handles))")
    m.ensures("result == some(self.file_handles)[path]")
    m = F.method("__iter__", {}, SeqS(STR))
    m.reads("FilePool.file_handles")
    m.raises("RuntimeError", when="is_none(self.file_handles)")
    m.ensures("len(result) == len(some(self.file_handles)) and forall(t, 0, len(result), result[t] in some(self.file_handles))")
    for f in ("__init__", "__len__", "__getitem__", "__enter__", "create", "remove", "flush", "__exit__"):
        U.verify("TmpPool", f)
    for f in ("__init__", "open", "close", "__enter__", "__exit__", "__len__", "__getitem__", "__iter__"):
        U.verify("FilePool", f)
    U.assume("file system, tempfile, os.remove, multiprocessing.Manager: environment contracts (DESIGN §4); a manager list behaves as a local "
             "list and is shared with child processes (multi-process behaviour is covered by the bounded layer only)")
    U.assume("builtin open(path, mode): returns a new open handle or raises (environment contract); a handle that was opened when a later "
             "open() raises stays open - FilePool.open has no cleanup for that case, outside the property's statement (all paths are opened)")
    return U
