"""C11 + C18: line files read exactly the file's lines; a handle is only used by the process that opened it.

View of a line file: V[i] = fs().ltext[path_to][jidx[i]] where the ghost jidx[i] is the number of the line whose start offset is
_lines[i] (jidx[i] == i and len == nl for an index built by _index_file; any subset / permutation for a caller-supplied index).
C18: every seek / readline on a handle requires handle.owner == cur_pid() for an ARBITRARY current pid; the object state may have
been inherited from another process (_opened_in_process_with_id is arbitrary at entry)."""
from pyvc.dsl import *
from . import fileenv


LINE_ENT = UnionS(INT, STR)       # an entry of _lines in a mutable file: a byte offset (read through) or a text (in memory)


def unit_for(mmap, mutable=False):
    cls = "MemoryMappedRandomLineAccessFile" if mmap else "RandomLineAccessFile"
    U = Unit(("C12/Mutable" if mutable else "C11+C18/") + cls, "C12" if mutable else "C11")
    fileenv.declare(U)
    U.var("hh", RefS("Handle"))
    U.spec_fun("lineno_of", [STR, INT], INT)       # skolem function of 'this offset is the start of some line'
    M = U.module("windpyutils/files.py")
    B = M.cls("BaseRandomLineAccessFile", fields={"path_to": STR, "_dirty": BOOL, "_lines": SeqS(LINE_ENT if mutable else INT)},
              ghost={"jidx": SeqS(INT)})
    R = M.cls("RandomLineAccessFile", fields={"file": RefS("Handle"), "_opened_in_process_with_id": OptS(INT)})
    MM = M.cls("MemoryMappedRandomLineAccessFile", fields={"mm": RefS("Handle")})
    C = MM if mmap else R
    fkind = fileenv.KIND_BIN if mmap else fileenv.KIND_TEXT_LF
    rd = "self.mm" if mmap else "self.file"
    P = "self.path_to"
    if mutable:
        V = "ite(is_str(self._lines[%s]), as_str(self._lines[%s]), fs().ltext[self.path_to][self.jidx[%s]])"
        V = V.replace("%s", "%(i)s")
        Vf = lambda i: V % {"i": i}
        valid = ("len(self.jidx) == len(self._lines) and forall(i, 0, len(self._lines), implies(is_int(self._lines[i]), 0 <= self.jidx[i]"
                 " and self.jidx[i] < fs().nl[%s] and as_int(self._lines[i]) == fs().lstart[%s][self.jidx[i]]), trigger=self._lines[i])" % (P, P))
    else:
        V = "fs().ltext[self.path_to][self.jidx[%s]]"
        Vf = lambda i: V % i
        valid = ("len(self.jidx) == len(self._lines) and forall(i, 0, len(self._lines), 0 <= self.jidx[i] and self.jidx[i] < fs().nl[%s]"
                 " and self._lines[i] == fs().lstart[%s][self.jidx[i]], trigger=self._lines[i])" % (P, P))
    OFF = (lambda e: "as_int(%s)" % e) if mutable else (lambda e: e)
    ISOFF = (lambda e: "is_int(%s) and " % e) if mutable else (lambda e: "")
    LO = OptS(SeqS(LINE_ENT if mutable else INT))
    C.invariant("wf_file(%s)" % P, "file-content-model")
    C.invariant(valid, "every-index-entry-is-a-line-start")
    C.invariant("(self.file == None) == is_none(self._opened_in_process_with_id)", "pid-recorded-iff-open")
    C.invariant("implies(self.file != None, alive(self.file) and not self.file.closed and self.file.path == %s"
                " and self.file.owner == some(self._opened_in_process_with_id) and self.file.kind == %d)" % (P, fkind),
                "handle-belongs-to-the-recorded-pid")
    if mmap:
        C.invariant("(self.mm == None) == (self.file == None)")
        C.invariant("implies(self.mm != None, alive(self.mm) and not self.mm.closed and self.mm.path == %s"
                    " and self.mm.owner == some(self._opened_in_process_with_id) and self.mm.kind == 3 and self.mm != self.file)" % P,
                    "mmap-belongs-to-the-recorded-pid")
    # only the object's own handles are touched (a handle opened during the call is a fresh object and needs no frame entry)
    H = ["self.file", "self._opened_in_process_with_id", "self.file.pos", "self.file.closed"] + (["self.mm", "self.mm.pos", "self.mm.closed"] if mmap else [])
    usable = "%s != None and %s.owner == cur_pid()" % (rd, rd)

    m = B.method("__init__", {"path_to": STR, "lines": LO}, inv_pre=False, inv_post=False)
    m.modifies("self.path_to", "self._dirty", "self._lines")
    m.ensures("self.path_to == path_to and not self._dirty")
    m = B.method("dirty", {}, BOOL, kind="property", inv_pre=False, inv_post=False)
    m.ensures("result == self._dirty")

    init_mod = ["self.path_to", "self._dirty", "self._lines", "self.file", "self._opened_in_process_with_id", "self.jidx"] + (["self.mm"] if mmap else [])
    for K in ([R, MM] if mmap else [R]):
        m = K.method("__init__", {"path_to": STR, "line_offsets": LO}, inv_post=(K is C))
        m.requires("wf_file(path_to)")
        lo_i = OFF("some(line_offsets)[i]")
        m.requires("implies(not is_none(line_offsets), forall(i, 0, len(some(line_offsets)), %s0 <= lineno_of(path_to, %s)"
                   " and lineno_of(path_to, %s) < fs().nl[path_to]"
                   " and %s == fs().lstart[path_to][lineno_of(path_to, %s)]))" % (ISOFF("some(line_offsets)[i]"), lo_i, lo_i, lo_i, lo_i),
                   "a-caller-supplied-index-consists-of-line-starts")
        m.modifies(*init_mod)
        if K is R:
            m.ghost_exit("self.jidx = ite(is_none(line_offsets), self.jidx, mkseq(i, len(some(line_offsets)), lineno_of(path_to, %s)))" % lo_i)
        m.ensures("self.path_to == path_to and self.file == None and is_none(self._opened_in_process_with_id) and not self._dirty")
        m.ensures("len(self.jidx) == len(self._lines) and forall(i, 0, len(self._lines), %s0 <= self.jidx[i] and self.jidx[i] < fs().nl[path_to]"
                  " and %s == fs().lstart[path_to][self.jidx[i]], trigger=self._lines[i])" % (ISOFF("self._lines[i]"), OFF("self._lines[i]")))
        m.ensures("implies(is_none(line_offsets), len(self._lines) == fs().nl[path_to]"
                  " and forall(i, 0, len(self._lines), self.jidx[i] == i))", "built-index:len=number-of-lines,entry-i=line-i")
        m.ensures("implies(not is_none(line_offsets), self._lines == some(line_offsets))", "caller-supplied-index-honoured")

    m = R.method("_index_file", {}, inv_pre=False, inv_post=False, locals={"f": RefS("Handle")})
    m.requires("wf_file(%s)" % P)
    m.modifies("self._lines", "self.jidx")          # the handle it opens (and closes) is its own fresh object
    lp = m.loop(1)
    lp.invariant("f != None and fresh(f) and not f.closed and f.path == %s and f.kind == 0 and f.owner == cur_pid()" % P)
    lp.invariant("len(self._lines) >= 1 and len(self._lines) - 1 <= fs().nl[%s]" % P)
    lp.invariant("f.pos == fs().lstart[%s][len(self._lines) - 1]" % P)
    lp.invariant("forall(i, 0, len(self._lines), %s%s == fs().lstart[%s][i], trigger=self._lines[i])" % (ISOFF("self._lines[i]"), OFF("self._lines[i]"), P))
    lp.decreases("fs().nl[%s] - (len(self._lines) - 1)" % P)
    m.ghost_exit("self.jidx = mkseq(i, len(self._lines), i)")
    m.ensures("len(self._lines) == fs().nl[%s] and len(self.jidx) == len(self._lines)" % P,
              "len=number-of-lines(unterminated-last-line-counts,final-newline-adds-none,empty-file=0)")
    m.ensures("forall(i, 0, len(self._lines), %s%s == fs().lstart[%s][i] and self.jidx[i] == i, trigger=self._lines[i])"
              % (ISOFF("self._lines[i]"), OFF("self._lines[i]"), P), "entry-i=start-of-line-i")

    own = "(self.file == old(self.file) or fresh(self.file))" + (" and (self.mm == old(self.mm) or fresh(self.mm))" if mmap else "")
    m = C.method("open", {}, RefS(cls))
    m.modifies(*H)
    m.ensures(own, "handles-are-the-old-ones-or-newly-opened")
    m.ensures("result == self and self.file != None")
    m.ensures("implies(old(self.file) != None, self.file == old(self.file) and same(self._opened_in_process_with_id, old(self._opened_in_process_with_id)))",
              "already-open:no-op")
    m.ensures("implies(old(self.file) == None, some(self._opened_in_process_with_id) == cur_pid())", "opened-by-the-current-process")
    m = C.method("close", {})
    m.modifies(*H)
    m.ensures("self.file == None")
    m = R.method("reopen_if_needed", {})
    m.modifies(*H)
    m.ensures(own, "handles-are-the-old-ones-or-newly-opened")
    m.ensures("(self.file == None) == (old(self.file) == None)")
    m.ensures("implies(self.file != None, some(self._opened_in_process_with_id) == cur_pid())",
              "an-open-handle-now-belongs-to-the-current-process")
    m.ensures("implies(old(self.file) != None and old(some(self._opened_in_process_with_id)) == cur_pid(), self.file == old(self.file)"
              " and %s == old(%s) and %s.pos == old(%s.pos))" % (rd, rd, rd, rd), "already-owned:untouched")
    m = C.method("closed", {}, BOOL, kind="property")
    m.ensures("result == (self.file == None)")
    m = C.method("_file_seek", {"offset": INT}, inv_pre=True, inv_post=True)
    m.ensures(own, "handles-are-the-old-ones-or-newly-opened")
    m.requires("self.file != None", "file-open")
    m.modifies(*H)
    m.ensures("self.file != None and %s and %s.pos == offset" % (usable, rd), "positioned-on-a-handle-owned-by-this-process")
    m = C.method("_read_next_line", {}, STR, inv_pre=True, inv_post=True)
    m.ensures(own, "handles-are-the-old-ones-or-newly-opened")
    m.requires("self.file != None", "file-open")
    m.modifies(*H)
    m.ensures("self.file != None")
    m.ensures("forall(j, 0, fs().nl[%s], implies(old(%s) != None and old(%s.owner) == cur_pid() and old(%s.pos) == fs().lstart[%s][j],"
              " result == fs().ltext[%s][j]))" % (P, rd, rd, rd, P, P), "at-the-start-of-line-j:returns-line-j-without-terminator")
    m = C.method("_read_line", {"n": INT}, STR, inv_pre=True, inv_post=True)
    m.ensures(own, "handles-are-the-old-ones-or-newly-opened")
    m.requires("self.file != None")
    if mutable:
        m.requires("implies(-len(self._lines) <= n and n < len(self._lines), is_int(self._lines[ite(n < 0, n + len(self._lines), n)]))",
                   "entry-n-is-a-file-offset")
    m.raises("IndexError", when="not (-len(self._lines) <= n and n < len(self._lines))")
    m.modifies(*H)
    m.ensures("self.file != None")
    m.ensures("result == " + Vf("ite(n < 0, n + len(self._lines), n)"), "line-n-of-the-index=the-file's-line(negative-n-from-the-end)")
    m = B.method("_get_item", {"n": INT}, STR, inv_pre=True, inv_post=True)
    m.ensures(own, "handles-are-the-old-ones-or-newly-opened")
    m.requires("self.file != None")
    m.raises("IndexError", when="not (-len(self._lines) <= n and n < len(self._lines))")
    m.modifies(*H)
    m.ensures("self.file != None")
    m.ensures("result == " + Vf("ite(n < 0, n + len(self._lines), n)"), "f[i]=i-th-line(negative-i-from-the-end)")
    m = B.method("__getitem__", {"selector": INT}, STR)      # int selectors; slices / iterables of indices: bounded layer only
    m.ensures(own, "handles-are-the-old-ones-or-newly-opened")
    m.raises("RuntimeError", when="self.file == None")
    m.raises("IndexError", when="self.file != None and not (-len(self._lines) <= selector and selector < len(self._lines))")
    m.modifies(*H)
    m.ensures("result == " + Vf("ite(selector < 0, selector + len(self._lines), selector)"), "f[i]=i-th-line-without-terminator(negative-i-from-the-end)")
    # the same method with a sequence of indices as selector (f[[2, 0, -1]]): verified as a second typing of the parameter; the list
    # comprehension over the stateful _get_item is executed as the loop it abbreviates
    nrm = lambda e: "ite(%s < 0, %s + len(self._lines), %s)" % (e, e, e)
    inr = lambda e: "(-len(self._lines) <= %s and %s < len(self._lines))" % (e, e)
    mv = B.method_variant("__getitem__", "indices", {"selector": SeqS(INT)}, SeqS(STR), locals={"iter_over": SeqS(INT), "i": INT})
    mv.raises("RuntimeError", when="self.file == None")
    mv.raises("IndexError", when="self.file != None and exists(j, 0, len(selector), not %s)" % inr("selector[j]"), ensures=["self.file != None"])
    mv.modifies(*H)
    mv.ensures(own, "handles-are-the-old-ones-or-newly-opened")
    mv.ensures("len(result) == len(selector) and forall(j, 0, len(selector), result[j] == %s, trigger=result[j])" % Vf(nrm("selector[j]")),
               "f[indices]=the-selected-lines-in-the-order-of-the-indices")
    lc = mv.comprehension(1, elem=STR).with_class_invariant()
    lc.invariant("self.file != None and same(self._lines, old(self._lines)) and same(self.jidx, old(self.jidx)) and self.path_to == old(self.path_to)"
                 " and same(_seqc1, selector)")
    lc.invariant(own)
    lc.invariant("forall(hh, implies(old(alive(hh)) and hh != None and hh != old(self.file)%s, hh.pos == old(hh.pos) and hh.closed == old(hh.closed)))"
                 % (" and hh != old(self.mm)" if mmap else ""), "other-handles-untouched")
    lc.invariant("len(_acc1) == _ic1 and forall(j, 0, _ic1, %s and _acc1[j] == %s, trigger=_acc1[j])" % (inr("selector[j]"), Vf(nrm("selector[j]"))),
                 "collected-so-far=the-selected-lines")
    m = B.method("__len__", {}, INT)
    m.ensures("result == len(self._lines)")
    m = B.method("__iter__", {}, yields=STR)
    m.ensures(own, "handles-are-the-old-ones-or-newly-opened")
    m.raises("RuntimeError", when="self.file == None")
    m.modifies(*H)
    m.reads("BaseRandomLineAccessFile._lines")
    # random accesses / a second iteration between two yields move the shared cursor: havoc it at every yield
    m.at_yield(havoc=["%s.pos" % rd])
    lp = m.loop(1).with_class_invariant()
    lp.invariant("self.file != None and len(yielded) == _i1 and len(_seq1) == len(self._lines)")
    lp.invariant("same(self._lines, old(self._lines)) and same(self.jidx, old(self.jidx)) and self.path_to == old(self.path_to)")
    lp.invariant(own)
    lp.invariant("forall(hh, implies(old(alive(hh)) and hh != None and hh != old(self.file)%s, hh.pos == old(hh.pos) and hh.closed == old(hh.closed)))"
                 % (" and hh != old(self.mm)" if mmap else ""), "other-handles-untouched")
    lp.invariant("forall(t, 0, _i1, yielded[t] == " + Vf("t") + ", trigger=yielded[t])")
    m.ensures("len(yielded) == len(self._lines) and self.file != None")
    m.ensures("forall(t, 0, len(yielded), yielded[t] == " + Vf("t") + ", trigger=yielded[t])",
              "iteration=indexing(also-with-interleaved-accesses-moving-the-cursor)")
    return (U, C, cls) if not mutable else (U, C, cls, dict(B=B, R=R, MM=MM, M=M, H=H, Vf=Vf, P=P, rd=rd, valid=valid, own=own))


def finish(U, C, cls, mmap):
    targets = [("BaseRandomLineAccessFile", "__init__", cls), ("RandomLineAccessFile", "__init__", cls),
               ("RandomLineAccessFile", "_index_file", cls), (cls, "open", None), (cls, "close", None),
               ("RandomLineAccessFile", "reopen_if_needed", cls), (cls, "closed", None), (cls, "_file_seek", None),
               (cls, "_read_next_line", None), (cls, "_read_line", None), ("BaseRandomLineAccessFile", "_get_item", cls),
               ("BaseRandomLineAccessFile", "__getitem__", cls),
               ("BaseRandomLineAccessFile", "__len__", cls), ("BaseRandomLineAccessFile", "__iter__", cls)]
    if mmap:
        targets.insert(2, ("MemoryMappedRandomLineAccessFile", "__init__", None))
    for c, f, conc in targets:
        U.verify(c, f, conc)
    U.verify("BaseRandomLineAccessFile", "__getitem__", cls, variant="indices")
    U.assume("file model at line granularity (DESIGN §4): readline at a line start returns that line and moves to the next line start; "
             "text mode with newline='\\n' and binary/mmap split on '\\n' only; universal-newlines text mode only for lines without '\\r'")
    U.assume("os.getpid() is constant within a call; a handle's owner is the pid that opened it")
    U.assume("slice selectors and the index-file constructor are covered by the bounded layer only")
    return U


def unit():
    U, C, cls = unit_for(False)
    return finish(U, C, cls, False)


def unit_mmap():
    U, C, cls = unit_for(True)
    return finish(U, C, cls, True)


def unit_mapaccess():
    """C18 for MapAccessFile: the handle is only used by the process that opened it"""
    U = Unit("C18/MapAccessFile", "C18")
    fileenv.declare(U)
    M = U.module("windpyutils/files.py")
    C = M.cls("MapAccessFile", fields={"path_to": STR, "file": RefS("Handle"), "mapping": MapS(ANY, INT), "_opened_in_process_with_id": OptS(INT)})
    C.invariant("(self.file == None) == is_none(self._opened_in_process_with_id)", "pid-recorded-iff-open")
    C.invariant("implies(self.file != None, alive(self.file) and not self.file.closed and self.file.path == self.path_to"
                " and self.file.owner == some(self._opened_in_process_with_id))", "handle-belongs-to-the-recorded-pid")
    H = ["self.file", "self._opened_in_process_with_id", "self.file.pos", "self.file.closed"]
    own = "(self.file == old(self.file) or fresh(self.file))"
    m = C.method("open", {}, RefS("MapAccessFile"))
    m.modifies(*H)
    m.ensures(own)
    m.ensures("result == self and self.file != None")
    m.ensures("implies(old(self.file) == None, some(self._opened_in_process_with_id) == cur_pid())")
    m.ensures("implies(old(self.file) != None, self.file == old(self.file) and same(self._opened_in_process_with_id, old(self._opened_in_process_with_id)))")
    m = C.method("close", {})
    m.modifies(*H)
    m.ensures("self.file == None")
    m = C.method("reopen_if_needed", {})
    m.modifies(*H)
    m.ensures(own)
    m.ensures("(self.file == None) == (old(self.file) == None)")
    m.ensures("implies(self.file != None, some(self._opened_in_process_with_id) == cur_pid())", "an-open-handle-now-belongs-to-the-current-process")
    m = C.method("__len__", {}, INT)
    m.ensures("result == len(self.mapping)")
    m = C.method("__getitem__", {"k": ANY}, STR)
    m.raises("RuntimeError", when="self.file == None")
    # the handle may have been re-opened (after a fork) before the key is looked up: only the frame is promised on this exit
    m.raises("KeyError", when="self.file != None and not (k in self.mapping)", ensures=["self.file != None and self.file.owner == cur_pid()"])
    m.modifies(*H)
    m.ensures("self.file != None and self.file.owner == cur_pid()", "read-through-a-handle-owned-by-this-process")
    m.ensures("forall(j, 0, fs().nl[self.path_to], implies(self.mapping[k] == fs().lstart[self.path_to][j] and self.file.kind == 1,"
              " result == fs().raw[self.path_to][j]))", "returns-the-line-at-the-mapped-offset")
    for f in ("open", "close", "reopen_if_needed", "__len__", "__getitem__"):
        U.verify("MapAccessFile", f)
    U.assume("MapAccessFile.load_mapping (csv index) is not under contract")
    return U
