"""C03 (+ pool side of C04): FactoryFunctorPool - worker replacement, the stop token of the replace thread, consecutive calls.

What is proved here (deductively, for every order in which retirement notices and the stop token arrive):
  ReplaceWorkerThread.run   * only the stop token ends the thread, and it consumes exactly one stop token (none stays for the next call)
                            * every retirement notice is answered: the retired worker is JOINED before its slot is overwritten
                              (no started-and-not-joined worker ever leaves `procs`), a factory-made successor is initialised
                              (fresh wid, pool queues) and STARTED in the same slot: the number of workers never changes and every
                              slot always holds a started worker
                            * wids stay unique (ghost inverse map), so the notice always identifies exactly one worker: the
                              RuntimeError branch is unreachable
  ReplaceWorkerThread.stop / __exit__ / __init__, FactoryFunctorPool._init_process, FunctorPool._init_process
  FactoryFunctorPool.imap / imap_unordered   the replace thread is started before and stopped (token, join) after the base call, whose
                            contract (C01 unit: exact output, call-idle before => call-idle after) carries over unchanged.
Environment (trusted): a retirement notice on the replace queue is the wid of a current member of procs that has retired (posted by
that worker once, c04_worker: exactly when its quota is exhausted)."""
from pyvc.dsl import *
from . import c01_ownpools
from .poolenv import CHUNK


def declare(U):
    M, P, S, T = c01_ownpools.declare(U)
    c01_ownpools.consumer_contracts(U, P)
    E = U.modules["env:mp"]
    W = M.cls("BaseFunctorWorker", fields={"wid": OptS(INT), "work_queue": RefS("Queue"), "results_queue": RefS("Queue"),
                                           "results_queue_lock": RefS("Lock"), "replace_queue": RefS("ReplaceQueue"), "exitcode": OptS(INT)},
              ghost={"pstarted": BOOL, "pjoined": BOOL, "retired": BOOL, "owner": RefS("FunctorPool"), "running": BOOL})
    m = W.method("is_alive", {}, BOOL, trusted=True)          # observation of the process state (pure)
    m.ensures("result == self.running")
    m = W.method("start", {}, trusted=True)
    m.requires("not self.pstarted", "a-process-is-started-once")
    m.modifies("self.pstarted")
    m.ensures("self.pstarted")
    m = W.method("join", {"timeout": ANY}, trusted=True)
    m.requires("self.retired or not self.running or (self.owner != None and self.owner.served)",
               "owed@join:a-worker-is-joined-only-after-it-retired,has-ended,or-one-stop-token-per-running-worker-was-sent")
    m.modifies("self.pjoined", "self.exitcode")
    m.ensures("self.pjoined")
    F = E.cls("FunctorWorkerFactory", fields={})
    m = F.method("create", {}, RefS("BaseFunctorWorker"), trusted=True)
    m.ensures("result != None and fresh(result) and not result.pstarted and not result.pjoined and not result.retired and result.owner == None"
              " and is_none(result.wid) and result.work_queue == None and result.results_queue == None and result.results_queue_lock == None")
    RQ = E.cls("ReplaceQueue", fields={}, ghost={"stops_put": INT, "stops_taken": INT, "consumer": RefS("Thread"), "pool": RefS("FactoryFunctorPool")})
    m = RQ.method("put", {"item": OptS(INT)}, trusted=True)
    m.requires("implies(is_none(item), self.consumer != None)")
    m.modifies("self.stops_put", "self.consumer.done")
    m.ensures("implies(is_none(item), self.stops_put == old(self.stops_put) + 1 and self.consumer.done)"
              " and implies(not is_none(item), self.stops_put == old(self.stops_put) and self.consumer.done == old(self.consumer.done))")
    m = RQ.method("get", {}, OptS(INT), trusted=True)
    m.modifies("self.stops_taken")
    m.ensures("implies(is_none(result), self.stops_taken == old(self.stops_taken) + 1)"
              " and implies(not is_none(result), self.stops_taken == old(self.stops_taken))")
    # a retirement notice: the wid of a current member of procs that has retired (environment assumption, see module docstring)
    m.ensures("implies(not is_none(result) and self.pool != None, 0 <= self.pool.widslot[some(result)] and self.pool.widslot[some(result)] < len(self.pool.procs)"
              " and self.pool.procs[self.pool.widslot[some(result)]].wid == result and self.pool.procs[self.pool.widslot[some(result)]].retired"
              " and not self.pool.procs[self.pool.widslot[some(result)]].pjoined)", "env:a-notice-names-a-retired-member-of-procs")
    U.library("print", {"value": STR, "file": ANY}).ensures("True")

    FP = M.cls("FactoryFunctorPool", fields={"_workers_factory": RefS("FunctorWorkerFactory"), "_replace_queue": RefS("ReplaceQueue")},
               ghost={})
    return M, P, S, T, W, FP, RQ


POOLX_FIELDS = {"procs": SeqS(RefS("BaseFunctorWorker")), "_wid_counter": INT, "join_timeout": ANY, "verbose": BOOL}
POOLX_GHOST = {"widslot": ArrS(INT, INT), "slot": ArrS(RefS("BaseFunctorWorker"), INT), "served": BOOL}


def base(U, more_fields=None):
    c01_ownpools.POOL_FIELDS_EXTRA.update(POOLX_FIELDS)
    c01_ownpools.POOL_FIELDS_EXTRA.update(more_fields or {})
    c01_ownpools.POOL_GHOST_EXTRA.update(POOLX_GHOST)
    try:
        return declare(U)
    finally:
        c01_ownpools.POOL_FIELDS_EXTRA.clear()
        c01_ownpools.POOL_GHOST_EXTRA.clear()


def unit():
    U = Unit("C03/FactoryFunctorPool", "C03")
    M, P, S, T, W, FP, RQ = base(U)
    U.var("w", RefS("BaseFunctorWorker"))
    # workers(p): the worker table of pool p is well formed
    U.define("slots", ["p"],
             "p._wid_counter >= 0"
             " and forall(k, 0, len(p.procs), p.procs[k] != None and p.procs[k].pstarted and not p.procs[k].pjoined and p.procs[k].owner == p"
             "            and not is_none(p.procs[k].wid)"
             "            and 0 <= some(p.procs[k].wid) and some(p.procs[k].wid) < p._wid_counter and p.widslot[some(p.procs[k].wid)] == k"
             "            and p.slot[p.procs[k]] == k, trigger=p.procs[k])")
    # no started-and-not-joined worker of this pool is outside procs (join-before-replace: none is leaked)
    U.define("noleak", ["p"],
             "forall(w, implies(w != None and w.owner == p and w.pstarted and not w.pjoined,"
             "            0 <= p.slot[w] and p.slot[w] < len(p.procs) and p.procs[p.slot[w]] == w), trigger=w.pstarted)")
    U.define("workers", ["p"], "slots(p) and noleak(p)")

    m = P.method("_init_process", {"p": RefS("BaseFunctorWorker")})
    m.requires("p != None and wfpool(self) and self._wid_counter >= 0")
    m.modifies("p.wid", "p.work_queue", "p.results_queue", "p.results_queue_lock", "p.owner", "self._wid_counter")
    m.ghost_exit("p.owner = self")
    m.ensures("p.wid == old(self._wid_counter) and self._wid_counter == old(self._wid_counter) + 1", "fresh-wid")
    m.ensures("p.owner == self")
    m.ensures("implies(old(p.work_queue) == None, p.work_queue == self._work_queue) and implies(old(p.results_queue) == None, p.results_queue == self._results_queue)"
              " and implies(old(p.results_queue_lock) == None, p.results_queue_lock == self._results_queue_lock)", "pool-queues-by-default")
    m = FP.method("_init_process", {"p": RefS("BaseFunctorWorker")})
    m.requires("p != None and wfpool(self) and self._wid_counter >= 0")
    m.modifies("p.wid", "p.work_queue", "p.results_queue", "p.results_queue_lock", "p.owner", "p.replace_queue", "self._wid_counter")
    m.ensures("p.wid == old(self._wid_counter) and self._wid_counter == old(self._wid_counter) + 1", "fresh-wid")
    m.ensures("p.owner == self and p.replace_queue == self._replace_queue", "retirement-notices-go-to-the-pool's-replace-queue")
    m.ensures("implies(old(p.work_queue) == None, p.work_queue == self._work_queue) and implies(old(p.results_queue) == None, p.results_queue == self._results_queue)")

    R = M.cls("ReplaceWorkerThread", fields={"pool": RefS("FactoryFunctorPool"), "verbose": BOOL})
    m = R.method("__init__", {"pool": RefS("FactoryFunctorPool"), "verbose": BOOL}, kind="init")
    m.requires("pool != None and pool._replace_queue != None")
    m.modifies("self.stop_event", "self.run_event", "self.started", "self.done", "Event.isset[*]", "self.pool", "self.verbose",
               "pool._replace_queue.consumer")
    m.ghost_exit("pool._replace_queue.consumer = self")
    m.ensures("self.pool == pool and self.verbose == verbose and pool._replace_queue.consumer == self")
    m.ensures("self.stop_event != None and self.run_event != None and not self.started and not self.done and fresh(self.stop_event) and fresh(self.run_event)")

    m = R.method("stop", {})
    m.requires("self.stop_event != None and self.pool != None and self.pool._replace_queue != None and self.pool._replace_queue.consumer == self")
    m.modifies("self.stop_event.isset", "self.pool._replace_queue.stops_put", "self.done")
    m.ensures("self.pool._replace_queue.stops_put == old(self.pool._replace_queue.stops_put) + 1", "exactly-one-stop-token-per-call")
    m.ensures("self.stop_event.isset and self.done")
    m = R.method("__exit__", {"a": ANY, "b": ANY, "c": ANY})
    m.requires("self.stop_event != None and self.pool != None and self.pool._replace_queue != None and self.pool._replace_queue.consumer == self")
    m.modifies("self.stop_event.isset", "self.pool._replace_queue.stops_put", "self.done")
    m.ensures("self.pool._replace_queue.stops_put == old(self.pool._replace_queue.stops_put) + 1", "exactly-one-stop-token-per-call")

    m = R.method("run", {}, locals={"replace_id": OptS(INT), "i": INT, "p": RefS("BaseFunctorWorker"), "replace_index": INT})
    pl = "self.pool"
    m.requires("%s != None and wfpool(%s) and %s._replace_queue != None and %s._replace_queue.pool == %s and %s._workers_factory != None" % ((pl,) * 6))
    m.requires("workers(%s)" % pl)
    m.modifies("self.pool.procs", "self.pool._wid_counter", "self.pool.widslot", "self.pool.slot", "self.pool._replace_queue.stops_taken",
               "BaseFunctorWorker.wid[*]", "BaseFunctorWorker.work_queue[*]", "BaseFunctorWorker.results_queue[*]",
               "BaseFunctorWorker.results_queue_lock[*]", "BaseFunctorWorker.replace_queue[*]", "BaseFunctorWorker.owner[*]",
               "BaseFunctorWorker.pstarted[*]", "BaseFunctorWorker.pjoined[*]", "BaseFunctorWorker.exitcode[*]")
    l1 = m.loop(1).environment_driven()
    keep = ("same(self.pool, old(self.pool)) and wfpool(%s) and same(%s._replace_queue, old(%s._replace_queue)) and %s._replace_queue.pool == %s"
            " and same(%s._workers_factory, old(%s._workers_factory)) and %s._workers_factory != None"
            " and same(%s._work_queue, old(%s._work_queue)) and same(%s._results_queue, old(%s._results_queue))" % ((pl,) * 12))
    l1.invariant(keep)
    l1.invariant("slots(%s)" % pl, "every-slot-holds-a-started-and-not-yet-joined(live-or-retiring)-worker-of-this-pool-with-a-unique-wid")
    l1.invariant("noleak(%s)" % pl, "join-before-replace:no-started-and-unjoined-worker-ever-leaves-procs")
    l1.invariant("len(%s.procs) == old(len(%s.procs))" % (pl, pl), "the-pool-never-runs-out-of-workers(size-constant)")
    l1.invariant("%s._replace_queue.stops_taken == old(%s._replace_queue.stops_taken)" % (pl, pl), "no-stop-token-consumed-while-running")
    l1.ghost_at_end("self.pool.widslot = aset(self.pool.widslot, some(self.pool.procs[replace_index].wid), replace_index)")
    l1.ghost_at_end("self.pool.slot = aset(self.pool.slot, self.pool.procs[replace_index], replace_index)")
    l2 = m.loop(2)
    l2.invariant(keep)
    l2.invariant("workers(%s) and len(%s.procs) == old(len(%s.procs)) and not is_none(replace_id)" % (pl, pl, pl))
    l2.invariant("%s._replace_queue.stops_taken == old(%s._replace_queue.stops_taken)" % (pl, pl))
    l2.invariant("forall(k, 0, _i2, %s.procs[k].wid != replace_id, trigger=%s.procs[k])" % (pl, pl))
    l2.invariant("0 <= %s.widslot[some(replace_id)] and %s.widslot[some(replace_id)] < len(%s.procs)"
                 " and %s.procs[%s.widslot[some(replace_id)]].wid == replace_id and %s.procs[%s.widslot[some(replace_id)]].retired"
                 " and not %s.procs[%s.widslot[some(replace_id)]].pjoined" % ((pl,) * 9))
    m.ensures("%s._replace_queue.stops_taken == old(%s._replace_queue.stops_taken) + 1" % (pl, pl),
              "the-thread-ends-only-by-consuming-exactly-one-stop-token(no-token-stays-in-the-queue)")
    m.ensures("workers(%s) and len(%s.procs) == old(len(%s.procs))" % (pl, pl, pl),
              "every-slot-holds-a-started-worker;every-replaced-worker-was-joined-first")

    base_mod = c01_ownpools.SHARED + ["self._work_queue.chan.recv", "self._work_queue.chan.nrecv", "self.X", "self.feeder", "Event.isset[*]",
                                      "Thread.started[*]", "Thread.done[*]"]
    for name in ("imap", "imap_unordered"):
        m = FP.method(name, {"data": CHUNK, "chunk_size": INT}, yields=ANY)
        m.requires("chunk_size >= 1 and self._replace_queue != None")
        m.requires("idle(self)", "call-idle:the-previous-call-on-this-pool-was-fully-consumed")
        m.reads("Buffer._storage", "Buffer._waiting_for")
        m.modifies(*(base_mod + ["self._replace_queue.consumer", "self._replace_queue.stops_put", "ReplaceWorkerThread.pool[*]",
                                 "ReplaceWorkerThread.verbose[*]", "CMThread.stop_event[*]", "CMThread.run_event[*]"]))
        if name == "imap":
            m.ensures("len(yielded) == len(data) and forall(p, 0, len(data), yielded[p] == F(data[p]), trigger=yielded[p])",
                      "yields-exactly-f(x)-for-every-x-once-in-input-order")
        else:
            m.ensures("len(yielded) == g_uoff[chan(self).sent] and g_uoff[0] == 0 and self.coff[chan(self).sent] == len(data)",
                      "output-length=sum-of-the-chunk-sizes-in-arrival-order(details:FunctorPool.imap_unordered)")
        m.ensures("idle(self)", "call-idle-again:nothing-left-in-flight,feeder-done(consecutive-calls-are-independent)")
        m.ensures("self._replace_queue.stops_put == old(self._replace_queue.stops_put) + 1",
                  "exactly-one-stop-token-per-call(consumed-by-the-replace-thread-of-this-call:ReplaceWorkerThread.run)")
        U.verify("FactoryFunctorPool", name)
    for cls_, fn in (("FunctorPool", "_init_process"), ("FactoryFunctorPool", "_init_process"), ("ReplaceWorkerThread", "__init__"),
                     ("ReplaceWorkerThread", "stop"), ("ReplaceWorkerThread", "__exit__"), ("ReplaceWorkerThread", "run")):
        U.verify(cls_, fn)
    U.assume("a retirement notice on the replace queue is the wid of a current, retired, not yet joined member of procs (posted once by that "
             "worker: c04_worker proves the notice is sent exactly when the quota is exhausted)")
    U.assume("putting the stop token makes the replace thread finish (its run contract: the token ends the thread) - liveness of the queue")
    return U
