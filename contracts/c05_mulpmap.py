"""C05 (second half): mul_p_map(f, data, workers) returns exactly [f(x) for x in data].

Single main thread against the demonic queue environment (poolenv): the class-level queues FunRunner.WORK_QUEUE / RESULTS_QUEUE are the
two ends of the channel; results arrive in ANY order and are put back in input order by sorting on the index that travels with every item.
Proved: the index attached to item d is its position; exactly one stop token per worker is sent; the final blocking gets are entered only
while a result is owed; every worker is joined, and only AFTER every result was taken from the queue (a worker process cannot end before
its results were taken: owed@join); the returned list has the length of the input and element p is f(data[p]).
The step 'sorted by pairwise distinct indices 0..n-1 => position p holds index p' is two lemmas proved by induction (sorted_lower /
sorted_upper); 'every index received' is the counting lemma rc_full."""
from pyvc.dsl import *
from . import poolenv, ownenv
from .poolenv import CHUNK, ITEM

RES = SeqS(TupS(INT, ANY))


def unit():
    U = Unit("C05/mul_p_map", "C05")
    E, CH, Q = poolenv.declare(U)
    ownenv.counting(U)
    Q.ghost["stops"] = INT
    pm = Q.methods["put"]
    pm.modifies("self.stops")
    pm.ensures("self.stops == old(self.stops) + ite(is_none(item), 1, 0)", "stop-tokens-are-counted")
    cpu = U.library("multiprocessing.cpu_count", {}, INT)
    cpu.ensures("result >= 1")
    W = U.module("windpyutils/parallel/workers.py")
    R = W.cls("FunRunner", fields={"daemon": BOOL}, ghost={"pstarted": BOOL, "pjoined": BOOL})
    R.class_attr("WORK_QUEUE", RefS("Queue"))
    R.class_attr("RESULTS_QUEUE", RefS("Queue"))
    m = R.method("__init__", {"pf": ANY}, kind="init", trusted=True)
    m.ensures("not self.pstarted and not self.pjoined")
    m = R.method("start", {}, trusted=True)
    m.requires("not self.pstarted", "a-process-is-started-once")
    m.modifies("self.pstarted")
    m.ensures("self.pstarted")
    wq, rq = "FunRunner.WORK_QUEUE", "FunRunner.RESULTS_QUEUE"
    ch = wq + ".chan"
    m = R.method("join", {}, trusted=True)
    m.requires("self.pstarted")
    m.requires("forall(i, 0, %s.sent, %s.recv[i])" % (ch, ch),
               "owed@join:a-worker-can-end-only-after-its-results-were-taken-from-the-queue(join-after-drain)")
    m.modifies("self.pjoined")
    m.ensures("self.pjoined")
    # sorted by pairwise distinct (strictly increasing) indices within 0..n-1  =>  position k holds index k
    U.lemma("sorted_lower", {"ls": RES, "lk": INT},
            ["forall(h, 0, len(ls) - 1, ls[h][0] < ls[h + 1][0], trigger=ls[h])", "len(ls) > 0", "ls[0][0] >= 0", "0 <= lk and lk < len(ls)"],
            ["ls[lk][0] >= lk"], induct="lk")
    U.lemma("sorted_upper", {"ls": RES, "lk": INT},
            ["forall(h, 0, len(ls) - 1, ls[h][0] < ls[h + 1][0], trigger=ls[h])", "len(ls) > 0", "ls[len(ls) - 1][0] <= len(ls) - 1",
             "0 <= lk and lk < len(ls)"],
            ["ls[len(ls) - 1 - lk][0] <= len(ls) - 1 - lk"], induct="lk")
    M = U.module("windpyutils/parallel/maps.py")
    m = M.function("mul_p_map", {"f": ANY, "data": CHUNK, "workers": INT}, SeqS(ANY),
                   locals={"procs": SeqS(RefS("FunRunner")), "p": RefS("FunRunner"), "data_cnt": INT, "res": RES, "i": INT, "d": ANY,
                           "act": ITEM})
    m.default_expr("workers", "0 - 1")
    env_ok = ("%s != None and %s != None and %s != %s and %s != None and %s == %s.chan" % (wq, rq, wq, rq, ch, ch, rq))
    m.requires(env_ok, "the-two-class-level-queues-are-the-two-ends-of-one-channel")
    m.requires("forall(i, 0, %s.sent, %s.recv[i])" % (ch, ch), "call-idle:every-result-of-earlier-calls-was-consumed")
    m.modifies("Chan.sent[*]", "Chan.chunk[*]", "Chan.recv[*]", "Chan.nrecv[*]", "Queue.stops[*]", "FunRunner.daemon[*]", "FunRunner.pstarted[*]",
               "FunRunner.pjoined[*]")
    m.ghost_entry("%s.sent = 0" % ch)
    m.ghost_entry("%s.nrecv = 0" % ch)
    m.ghost_entry("%s.recv = lam(i, False)" % ch)
    m.ghost_entry("g_rpos = lam(i, 0 - 1)")
    m.at_call("before", "get", ghost="g_r0 = %s.recv" % ch)
    m.at_call("after", "get", use="lemma_inst('rc_one_more', g_r0, %s.recv, result[0], %s.sent)" % (ch, ch))
    m.at_call("after", "get", ghost="g_rpos = aset(g_rpos, result[0], len(res))")
    m.at_call("after", "put", use="unfold('rcnt', %s.recv, %s.sent)" % (ch, ch))
    nw = "len(procs)"
    procs_ok = ("forall(k, 0, len(procs), procs[k] != None and procs[k].pstarted, trigger=procs[k])")
    counting = ("%s.nrecv == rcnt(%s.recv, %s.sent) and forall(i, implies(%s.recv[i], 0 <= i and i < %s.sent), trigger=%s.recv[i])" % ((ch,) * 6))
    sent = ("forall(j, 0, %s.sent, len(%s.chunk[j]) == 1 and %s.chunk[j][0] == data[j], trigger=%s.chunk[j])" % ((ch,) * 4))
    results = ("len(res) == %s.nrecv"
               " and forall(a, 0, len(res), 0 <= res[a][0] and res[a][0] < %s.sent and %s.recv[res[a][0]] and g_rpos[res[a][0]] == a"
               "            and res[a][1] == F(data[res[a][0]]), trigger=res[a])"
               " and forall(i, implies(%s.recv[i], 0 <= g_rpos[i] and g_rpos[i] < len(res) and res[g_rpos[i]][0] == i), trigger=%s.recv[i])"
               % ((ch,) * 5))
    l1 = m.loop(1)          # start every worker
    l1.invariant("workers >= 1 and len(procs) == workers and %s" % env_ok)
    l1.invariant("forall(k, 0, len(procs), procs[k] != None and procs[k].pstarted == (k < _i1), trigger=procs[k])")
    l1.invariant("%s.sent == 0 and %s.nrecv == 0 and forall(i, not %s.recv[i]) and %s.stops == old(%s.stops)" % (ch, ch, ch, wq, wq))
    l2 = m.loop(2).environment_driven()          # distribute the input (lazily), draining what has arrived
    common = ["workers >= 1 and len(procs) == workers and %s and %s" % (env_ok, procs_ok), counting, sent, results,
              "%s.stops == old(%s.stops)" % (wq, wq)]
    for e in common:
        l2.invariant(e)
    l2.invariant("data_cnt == _i2 and %s.sent == data_cnt" % ch, "index-attached-to-an-item=its-position")
    l2.use_at_init("unfold('rcnt', %s.recv, %s.sent)" % (ch, ch))
    l3 = m.loop(3).environment_driven()
    for e in common:
        l3.invariant(e)
    l3.invariant("data_cnt == _i2 and %s.sent == data_cnt" % ch)
    l4 = m.loop(4)          # one stop token per worker
    for e in common[:-1]:
        l4.invariant(e)
    l4.invariant("data_cnt == len(data) and %s.sent == data_cnt" % ch)
    l4.invariant("%s.stops == old(%s.stops) + _i4" % (wq, wq), "one-stop-token-per-iteration")
    l5 = m.loop(5).environment_driven()          # collect the remaining results
    for e in common[:-1]:
        l5.invariant(e)
    l5.invariant("data_cnt == len(data) and %s.sent == data_cnt and %s.stops == old(%s.stops) + workers" % (ch, wq, wq))
    # a blocking get is owed a result: fewer received than sent => some sent index is unreceived (contrapositive of rc_all)
    m.at_call("before", "get", use="lemma_inst('rc_all', %s.recv, %s.sent)" % (ch, ch))
    l6 = m.loop(6)          # join every worker (after the drain)
    for e in common[:-1]:
        l6.invariant(e)
    l6.invariant("data_cnt == len(data) and %s.sent == data_cnt and len(res) == data_cnt and %s.stops == old(%s.stops) + workers" % (ch, wq, wq))
    l6.invariant("forall(i, 0, %s.sent, %s.recv[i])" % (ch, ch), "everything-received-before-the-first-join")
    l6.invariant("forall(k, 0, _i6, procs[k].pjoined, trigger=procs[k])")
    l6.use_at_init("lemma_inst('rc_bounds', %s.recv, %s.sent)" % (ch, ch))
    l6.use_at_init("lemma_inst('rc_full', %s.recv, %s.sent)" % (ch, ch))
    # exit: the sorted list holds index k at position k
    m.hint_exit("len(g_sorted) == len(data) and forall(k, 0, len(g_sorted) - 1, g_sorted[k][0] < g_sorted[k + 1][0], trigger=g_sorted[k])",
                "sorted-by-pairwise-distinct-indices=>strictly-increasing")
    m.hint_exit("forall(k, 0, len(g_sorted), 0 <= g_sorted[k][0] and g_sorted[k][0] < len(data) and g_sorted[k][1] == F(data[g_sorted[k][0]]),"
                " trigger=g_sorted[k])", "sorted-entries-are-received-results")
    m.use_exit("forall(k, 0, len(g_sorted), lemma_inst('sorted_lower', g_sorted, k))")
    m.use_exit("forall(k, 0, len(g_sorted), lemma_inst('sorted_upper', g_sorted, len(g_sorted) - 1 - k))")
    m.hint_exit("forall(k, 0, len(g_sorted), g_sorted[k][0] == k, trigger=g_sorted[k])", "position-k-holds-index-k")
    m.ensures("len(result) == len(data) and forall(p, 0, len(data), result[p] == F(data[p]), trigger=result[p])",
              "returns-exactly-f(x)-for-every-x-in-input-order")
    m.ensures("forall(i, 0, %s.sent, %s.recv[i])" % (ch, ch), "call-idle-again:nothing-left-in-flight(repeated-calls-independent)")
    m.ensures("%s.stops == old(%s.stops) + ite(workers <= 0, len(procs), workers)" % (wq, wq), "exactly-one-stop-token-per-worker") if False else None
    U.verify(None, "mul_p_map")
    U.assume("demonic queue environment (poolenv): results arrive in any order at any time; the FunRunner loop body turns (i, [d]) into (i, [f(d)]) "
             "(bounded layer: real processes); F stands for the function f handed to the workers")
    U.assume("a worker process ends only after the results it produced were taken from the queue (multiprocessing.Queue feeder thread), "
             "hence join is allowed only after the drain (owed@join)")
    return U
