"""C05 (worker side): FunctorWorker.run (pools.py) and FunRunner.run (workers.py) - the loop body that the demonic queue environment
of the main-thread proofs abstracts: every work item (i, c) taken from the work queue produces exactly one result (i, [f(x) for x in c])
on the results queue, in the order taken; the loop ends exactly at the first stop token (None) and consumes exactly that one token.
Verified sequentially against a demonic work queue (get() returns ANY item or the stop token)."""
from pyvc.dsl import *
from .poolenv import CHUNK, ITEM


def unit():
    U = Unit("C05/worker-loops", "C05")
    E = U.module("env:worker")
    U.spec_fun("cb_pf", [ANY], ANY)           # the function handed to the worker (the callback field pf): pure, total
    WQ = E.cls("WorkQueue", fields={}, ghost={"taken": SeqS(ITEM), "stops_taken": INT})
    m = WQ.method("get", {}, OptS(ITEM), trusted=True)          # demonic: any work item, or the stop token None
    m.modifies("self.taken", "self.stops_taken")
    m.ensures("implies(is_none(result), same(self.taken, old(self.taken)) and self.stops_taken == old(self.stops_taken) + 1)")
    m.ensures("implies(not is_none(result), same(self.taken, append(old(self.taken), some(result))) and self.stops_taken == old(self.stops_taken))")
    RQ = E.cls("ResultsQueue", fields={}, ghost={"out": SeqS(ITEM)})
    m = RQ.method("put", {"item": ITEM}, trusted=True)
    m.modifies("self.out")
    m.ensures("same(self.out, append(old(self.out), item))")
    FN = E.cls("Function", fields={})
    m = FN.method("__call__", {"inp": ANY}, ANY, trusted=True)
    m.ensures("result == cb_pf(inp)")
    U.spec_fun("okres", [ITEM, ITEM], BOOL)
    U.var("rr", ITEM), U.var("ww", ITEM), U.var("u", INT)
    U.axiom("forall(rr, forall(ww, okres(rr, ww) == (rr[0] == ww[0] and len(rr[1]) == len(ww[1])"
            " and forall(u, 0, len(ww[1]), rr[1][u] == cb_pf(ww[1][u]))), trigger=okres(rr, ww)))", "okres=the-result-carries-the-index-and-f-of-every-element")

    def run_contract(C, wq, rq):
        m = C.method("run", {}, locals={"q_item": OptS(ITEM), "i": INT, "data_list": CHUNK})
        m.requires("%s != None and %s != None" % (wq, rq))
        m.modifies("%s.taken" % wq, "%s.stops_taken" % wq, "%s.out" % rq)
        o0, t0 = "old(len(%s.out))" % rq, "old(len(%s.taken))" % wq
        allres = ("forall(p, %s, len(%s.out), okres(%s.out[p], %s.taken[p - %s + %s]), trigger=%s.out[p])" % (o0, rq, rq, wq, o0, t0, rq))
        keep = ("forall(p, 0, %s, %s.out[p] == old(%s.out)[p], trigger=%s.out[p])" % (o0, rq, rq, rq))
        lp = m.loop(1).environment_driven()
        lp.invariant("%s != None and %s != None" % (wq, rq))
        lp.invariant("len(%s.taken) >= %s and len(%s.out) - %s == len(%s.taken) - %s" % (wq, t0, rq, o0, wq, t0), "one-result-per-item-taken")
        lp.invariant(allres, "each-result-is-(i,[f(x)-for-x-in-c])-of-the-item-taken-at-the-same-position")
        lp.invariant(keep)
        lp.invariant("%s.stops_taken == old(%s.stops_taken)" % (wq, wq), "no-stop-token-consumed-while-running")
        lp.hint("okres(%s.out[len(%s.out) - 1], some(q_item)) and %s.taken[len(%s.taken) - 1] == some(q_item)" % (rq, rq, wq, wq))
        m.ensures("len(%s.out) - %s == len(%s.taken) - %s and %s" % (rq, o0, wq, t0, allres), "exactly-one-result-(i,[f(x)..])-per-work-item-in-order")
        m.ensures(keep, "earlier-results-untouched")
        m.ensures("%s.stops_taken == old(%s.stops_taken) + 1" % (wq, wq), "ends-exactly-at-the-first-stop-token(consumes-one)")
        return m

    P = U.module("windpyutils/parallel/pools.py")
    FW = P.cls("FunctorWorker", fields={"pf": RefS("Function"), "_work_queue": RefS("WorkQueue"), "_results_queue": RefS("ResultsQueue")})
    run_contract(FW, "self._work_queue", "self._results_queue")
    W = U.module("windpyutils/parallel/workers.py")
    FR = W.cls("FunRunner", fields={"pf": RefS("Function"), "WORK_QUEUE": RefS("WorkQueue"), "RESULTS_QUEUE": RefS("ResultsQueue")})
    run_contract(FR, "self.WORK_QUEUE", "self.RESULTS_QUEUE")
    U.verify("FunctorWorker", "run")
    U.verify("FunRunner", "run")
    U.assume("the function pf is pure and total (returns normally); the class-level queues of FunRunner are read through the instance (self.WORK_QUEUE)")
    return U
