"""C15 (part): Buffer and PrintBuffer emit every item exactly once, in ascending serial order."""
from pyvc.dsl import *


def buffer_invariants(C, store):
    C.invariant("self._waiting_for >= 0", "W>=0")
    C.invariant("forall(i, iff(i in self.%s, i in self.fed and i >= self._waiting_for))" % store, "held-back=fed-not-yet-emitted")
    C.invariant("forall(i, implies(i in self.%s, self.%s[i] == self.fed[i]))" % (store, store), "held-back-values")
    C.invariant("forall(i, 0, self._waiting_for, i in self.fed)", "emitted-prefix-was-fed")
    C.invariant("forall(i, implies(i in self.fed, 0 <= i and i < self.hi))", "fed-bounded")
    C.invariant("len(self.%s) == len(self.fed) - self._waiting_for" % store, "len=fed-emitted")


def declare_buffer(U, payload=ANY):
    """Buffer class + contracts in unit U (payload sort: ANY for C15, chunk lists for the pools)"""
    M = U.module("windpyutils/buffers.py")
    # ghost fed: every (serial -> item) fed since the last flush; hi: strict upper bound of the serials fed.
    # view: emitted = [fed[i] | i < _waiting_for]
    C = M.cls("Buffer", fields={"_storage": MapS(INT, payload), "_waiting_for": INT}, ghost={"fed": MapS(INT, payload), "hi": INT})
    buffer_invariants(C, "_storage")
    ANY_ = payload

    m = C.method("__init__", {})
    m.modifies("self._storage", "self._waiting_for", "self.fed", "self.hi")
    m.ghost_exit("self.fed = empty_like(self.fed)")
    m.ghost_exit("self.hi = 0")
    m.ensures("len(self.fed) == 0 and self._waiting_for == 0")
    m.ensures("forall(i, not (i in self.fed))", "nothing-fed-yet")

    m = C.method("waiting_for", {}, INT)
    m.ensures("result == self._waiting_for", "waiting_for=number-emitted")

    m = C.method("__len__", {}, INT)
    m.ensures("result == len(self._storage)")
    m.ensures("result == len(self.fed) - self._waiting_for", "len=number-held-back")

    m = C.method("__call__", {"i": INT, "x": ANY_}, RefS("Buffer"))
    m.raises("AttributeError", when="i < self._waiting_for")
    m.modifies("self._storage", "self.fed", "self.hi")
    m.ghost_exit("self.fed = mset(old(self.fed), i, x)")
    m.ghost_exit("self.hi = max(old(self.hi), i + 1)")
    m.ensures("result == self")
    m.ensures("same(self.fed, mset(old(self.fed), i, x))", "fed-extended")
    m.ensures("self._waiting_for == old(self._waiting_for)")

    m = C.method("__iter__", {}, yields=ANY_)
    m.reads("Buffer._storage", "Buffer._waiting_for")
    m.modifies("self._storage", "self._waiting_for")
    lp = m.loop(1).with_class_invariant()
    lp.invariant("old(self._waiting_for) <= self._waiting_for")
    lp.invariant("len(yielded) == self._waiting_for - old(self._waiting_for)")
    lp.invariant("forall(t, 0, len(yielded), yielded[t] == self.fed[old(self._waiting_for) + t], trigger=yielded[t])")
    lp.invariant("same(self.fed, old(self.fed)) and self.hi == old(self.hi)")
    lp.decreases("self.hi - self._waiting_for")
    m.ensures("same(self.fed, old(self.fed))", "fed-unchanged")
    m.ensures("old(self._waiting_for) <= self._waiting_for")
    m.ensures("forall(k, old(self._waiting_for), self._waiting_for, k in self.fed)", "emitted-only-consecutive-fed-serials")
    m.ensures("not (self._waiting_for in self.fed)", "stops-at-first-gap(nothing-before-its-predecessors)")
    m.ensures("implies(self._waiting_for > 0, (self._waiting_for - 1) in self.fed)", "last-emitted-serial-was-fed")
    m.ensures("len(yielded) == self._waiting_for - old(self._waiting_for)", "one-item-per-serial")
    m.ensures("forall(t, 0, len(yielded), yielded[t] == self.fed[old(self._waiting_for) + t], trigger=yielded[t])",
              "items-in-ascending-serial-order")
    m.ensures("forall(n, implies(n >= 0 and forall(i, iff(i in self.fed, 0 <= i and i < n)), self._waiting_for == n))",
              "all-of-0..n-1-fed-and-drained=>waiting_for==n")

    m = C.method("flush", {})
    m.modifies("self._storage", "self._waiting_for", "self.fed", "self.hi")
    m.ghost_exit("self.fed = empty_like(self.fed)")
    m.ghost_exit("self.hi = 0")
    m.ensures("len(self.fed) == 0 and self._waiting_for == 0")
    return M, C


def unit():
    U = Unit("C15/Buffer+PrintBuffer", "C15")
    M, C = declare_buffer(U)
    for f in ("__init__", "waiting_for", "__len__", "__call__", "__iter__", "flush"):
        U.verify("Buffer", f)

    # ------------------------------------------------------------------ PrintBuffer
    # environment: the output stream; ghost `written` = the values handed to print(), in order (one element per call)
    ENV = U.module("env:io")
    OS_ = ENV.cls("OutStream", fields={}, ghost={"written": SeqS(STR)})
    pr = U.library("print", {"value": STR, "file": RefS("OutStream"), "flush": BOOL, "end": STR})
    pr.modifies("file.written")
    pr.ensures("same(file.written, append(old(file.written), value))")
    # fill(m, w): the map m completed to the domain [0, w) (definitional; gives the ghost state after PrintBuffer.flush,
    # which treats every serial below the new waiting_for as done)
    U.spec_fun("fill", [MapS(INT, STR), INT], MapS(INT, STR))
    U.var("m", MapS(INT, STR))
    U.axiom("forall(m, forall(w, forall(i, iff(i in fill(m, w), 0 <= i and i < w))))", "fill-domain")
    U.axiom("forall(m, forall(w, forall(i, implies(i in m and 0 <= i and i < w, fill(m, w)[i] == m[i]))))", "fill-values")
    U.axiom("forall(m, forall(w, implies(w >= 0, len(fill(m, w)) == w)))", "fill-size")

    P = M.cls("PrintBuffer", fields={"_waiting_for": INT, "_buffer": MapS(INT, STR), "fileOut": RefS("OutStream"),
                                     "printFlush": BOOL, "end": STR}, ghost={"fed": MapS(INT, STR), "hi": INT})
    buffer_invariants(P, "_buffer")
    P.invariant("not (self._waiting_for in self.fed)", "printing-is-eager")
    P.invariant("self.fileOut != None")

    m = P.method("__init__", {"file_out": RefS("OutStream"), "print_flush": BOOL, "end": STR})
    m.requires("file_out != None")
    m.modifies("self._waiting_for", "self._buffer", "self.fileOut", "self.printFlush", "self.end", "self.fed", "self.hi")
    m.ghost_exit("self.fed = empty_like(self.fed)")
    m.ghost_exit("self.hi = 0")
    m.ensures("self.fileOut == file_out and len(self.fed) == 0 and self._waiting_for == 0")

    m = P.method("_print", {"value": STR}, inv_pre=False, inv_post=False)
    m.requires("self.fileOut != None")
    m.modifies("self.fileOut.written")
    m.ensures("same(self.fileOut.written, append(old(self.fileOut.written), value))", "one-value-printed")

    m = P.method("waiting_for", {}, INT, kind="property")
    m.ensures("result == self._waiting_for")

    m = P.method("__len__", {}, INT)
    m.ensures("result == len(self._buffer)")
    m.ensures("result == len(self.fed) - self._waiting_for", "len=number-held-back")

    m = P.method("print", {"serial_number": INT, "value": STR}, BOOL)
    m.requires("serial_number >= self._waiting_for and not (serial_number in self.fed)", "unique-serial-not-yet-printed")
    m.modifies("self._waiting_for", "self._buffer", "self.fileOut.written", "self.fed", "self.hi")
    m.ghost_entry("self.fed = mset(self.fed, serial_number, value)")
    m.ghost_entry("self.hi = max(self.hi, serial_number + 1)")
    lp = m.loop(1)
    lp.invariant("self._waiting_for > old(self._waiting_for)")
    lp.invariant("forall(i, iff(i in self._buffer, i in self.fed and i >= self._waiting_for and i != serial_number))")
    lp.invariant("forall(i, implies(i in self._buffer, self._buffer[i] == self.fed[i]))")
    lp.invariant("forall(i, 0, self._waiting_for, i in self.fed)")
    lp.invariant("forall(i, implies(i in self.fed, 0 <= i and i < self.hi))")
    lp.invariant("len(self._buffer) == len(self.fed) - self._waiting_for")
    lp.invariant("self.fileOut == old(self.fileOut) and self.fileOut != None")
    lp.invariant("same(self.fed, mset(old(self.fed), serial_number, value)) and self.hi == max(old(self.hi), serial_number + 1)")
    lp.invariant("len(self.fileOut.written) == old(len(self.fileOut.written)) + self._waiting_for - old(self._waiting_for)")
    lp.invariant("forall(t, 0, self._waiting_for - old(self._waiting_for), self.fileOut.written[old(len(self.fileOut.written)) + t]"
                 " == self.fed[old(self._waiting_for) + t])")
    lp.invariant("forall(t, 0, old(len(self.fileOut.written)), self.fileOut.written[t] == old(self.fileOut.written)[t])")
    lp.decreases("self.hi - self._waiting_for")
    m.ensures("result == (serial_number == old(self._waiting_for))", "True-iff-printed")
    m.ensures("same(self.fed, mset(old(self.fed), serial_number, value))")
    m.ensures("implies(serial_number != old(self._waiting_for), self._waiting_for == old(self._waiting_for)"
              " and same(self.fileOut.written, old(self.fileOut.written)))", "out-of-order-item-held-back-nothing-printed")
    m.ensures("forall(k, old(self._waiting_for), self._waiting_for, k in self.fed)", "printed-only-consecutive-fed-serials")
    m.ensures("len(self.fileOut.written) == old(len(self.fileOut.written)) + self._waiting_for - old(self._waiting_for)",
              "one-line-per-serial")
    m.ensures("forall(t, 0, self._waiting_for - old(self._waiting_for), self.fileOut.written[old(len(self.fileOut.written)) + t]"
              " == self.fed[old(self._waiting_for) + t])", "printed-in-ascending-serial-order")
    m.ensures("forall(t, 0, old(len(self.fileOut.written)), self.fileOut.written[t] == old(self.fileOut.written)[t])",
              "earlier-output-untouched")

    m = P.method("flush", {}, locals={"serial_number": INT})
    m.modifies("self._waiting_for", "self._buffer", "self.fileOut.written", "self.fed", "self.hi")
    lp = m.loop(1)
    lp.invariant("implies(_i1 == 0, serial_number == old(self._waiting_for) - 1)")
    lp.invariant("implies(_i1 > 0, serial_number == _seq1[_i1 - 1])")
    lp.invariant("self.fileOut == old(self.fileOut) and self.fileOut != None and self._waiting_for == old(self._waiting_for)")
    lp.invariant("forall(i, iff(i in self._buffer, i in old(self._buffer) and g_pinv(g_kidx(i)) >= _i1))")
    lp.invariant("forall(i, implies(i in self._buffer, self._buffer[i] == old(self._buffer)[i]))")
    lp.invariant("len(self._buffer) == old(len(self._buffer)) - _i1")
    lp.invariant("len(self.fileOut.written) == old(len(self.fileOut.written)) + _i1")
    lp.invariant("forall(t, 0, _i1, self.fileOut.written[old(len(self.fileOut.written)) + t] == old(self._buffer)[_seq1[t]])")
    lp.invariant("forall(t, 0, old(len(self.fileOut.written)), self.fileOut.written[t] == old(self.fileOut.written)[t])")
    m.ghost_exit("self.fed = fill(old(self.fed), self._waiting_for)")
    m.ghost_exit("self.hi = self._waiting_for")
    m.ensures("len(self._buffer) == 0", "buffer-emptied")
    m.ensures("implies(old(len(self._buffer)) == 0, self._waiting_for == old(self._waiting_for))", "empty-buffer:waiting_for-unchanged")
    m.ensures("implies(old(len(self._buffer)) > 0, (self._waiting_for - 1) in old(self._buffer)"
              " and forall(i, implies(i in old(self._buffer), i < self._waiting_for)))", "waiting_for=max-stored-serial+1")
    m.ensures("len(self.fileOut.written) == old(len(self.fileOut.written)) + old(len(self._buffer))", "every-stored-item-printed-once")
    m.ensures("forall(t, 0, old(len(self.fileOut.written)), self.fileOut.written[t] == old(self.fileOut.written)[t])",
              "earlier-output-untouched")

    m = P.method("clear", {})
    m.modifies("self._waiting_for", "self._buffer", "self.fed", "self.hi")
    m.ghost_exit("self.fed = empty_like(self.fed)")
    m.ghost_exit("self.hi = 0")
    m.ensures("len(self._buffer) == 0 and self._waiting_for == 0 and same(self.fileOut.written, old(self.fileOut.written))",
              "cleared-without-printing")

    for f in ("__init__", "_print", "waiting_for", "__len__", "print", "flush", "clear"):
        U.verify("PrintBuffer", f)
    U.assume("print(v, file=h, end=e): appends exactly one value to the stream h (environment contract)")
    U.assume("sorted(): stable ascending permutation (library contract)")
    U.assume("dict: lookup / membership / del / len as a finite map (size +-1 exactly on new-key insert / present-key delete)")
    U.assume("a drain is a full consumption of Buffer.__iter__ (abandoned generators are outside the quantifier)")
    return U
