"""C05: FunctorMap(f)(data, chunk_size) yields exactly f(x) for every x of the input, once, in input order.

Single main thread: the demonic queue environment (poolenv) covers every interleaving of the worker processes - the index returned by
each get() is universally quantified.  Output order is restored by the reorder Buffer (C15 contracts, by contract only)."""
from pyvc.dsl import *
from . import poolenv, c15_buffers
from .poolenv import CHUNK, ITEM


def chunking_contract(M, qual, cs="chunk_size", free=None):
    """nested generator chunking(d): consecutive non-empty chunks of size `cs` (last one possibly shorter) covering d.
    free: the free (closure) variables of the nested function with their sorts"""
    params = {"d": CHUNK}
    params.update(free or {"chunk_size": INT})
    m = M.function(qual, params, yields=CHUNK, locals={"ch": CHUNK})
    m.requires("%s >= 1" % cs)
    m.witness("coff", ArrS(INT, INT), bound_to="g_off")
    m.ghost_entry("g_off = lam(i, 0)")
    lp = m.loop(1)
    k = "len(yielded)"
    lp.invariant("len(ch) < %s and g_off[%s] + len(ch) == _i1 and g_off[0] == 0" % (cs, k))
    lp.invariant("forall(t, 0, len(ch), ch[t] == d[g_off[%s] + t], trigger=ch[t])" % k)
    lp.invariant("forall(j, 0, %s, len(yielded[j]) == %s and g_off[j + 1] == g_off[j] + %s"
                 " and forall(t, 0, %s, yielded[j][t] == d[g_off[j] + t]), trigger=yielded[j])" % (k, cs, cs, cs))
    lp.ghost_at_end("g_off = aset(g_off, len(yielded), _i1 - len(ch))")
    m.ghost_exit("g_off = aset(g_off, len(yielded), len(d))")
    m.ensures("coff[0] == 0 and coff[len(yielded)] == len(d)", "chunks-cover-the-input-exactly")
    m.ensures("forall(j, 0, len(yielded), 1 <= len(yielded[j]) and len(yielded[j]) <= %s and coff[j + 1] == coff[j] + len(yielded[j])"
              " and forall(t, 0, len(yielded[j]), yielded[j][t] == d[coff[j] + t]), trigger=yielded[j])" % cs, "consecutive-non-empty-chunks")
    return m


def context_contracts(U, Q, W, C):
    """FunctorMap.__init__ / __enter__ / __exit__: the two queues share one channel, every worker is started exactly once, exactly one stop
    token per worker is sent and every worker is joined - only when nothing is in flight any more (owed@join)"""
    Q.ghost["stops"] = INT
    pm = Q.methods["put"]
    pm.modifies("self.stops")
    pm.ensures("self.stops == old(self.stops) + ite(is_none(item), 1, 0)", "stop-tokens-are-counted")
    m = Q.method("__init__", {"maxsize": INT}, kind="init", trusted=True)
    m.default_expr("maxsize", "0")
    m.modifies("self.chan", "self.stops")
    m.ensures("self.chan != None and fresh(self.chan) and self.chan.sent == 0 and self.chan.nrecv == 0 and forall(i, not self.chan.recv[i]) and self.stops == 0")
    cpu = U.library("multiprocessing.cpu_count", {}, INT)
    cpu.ensures("result >= 1")
    W.ghost["pstarted"] = BOOL
    W.ghost["pjoined"] = BOOL
    W.fields["daemon"] = BOOL
    m = W.method("__init__", {"pf": ANY, "work_queue": RefS("Queue"), "results_queue": RefS("Queue")}, kind="init", trusted=True)
    m.ensures("self._work_queue == work_queue and self._results_queue == results_queue and not self.pstarted and not self.pjoined")
    m = W.method("start", {}, trusted=True)
    m.requires("not self.pstarted", "a-process-is-started-once")
    m.modifies("self.pstarted")
    m.ensures("self.pstarted")
    m = W.method("join", {}, trusted=True)
    m.requires("self.pstarted and self._work_queue != None and self._work_queue.chan != None")
    m.requires("forall(i, 0, self._work_queue.chan.sent, self._work_queue.chan.recv[i])",
               "owed@join:a-worker-can-end-only-after-its-results-were-taken-from-the-queue")
    m.modifies("self.pjoined")
    m.ensures("self.pjoined")
    workers_ok = ("forall(k, 0, len(self.procs), self.procs[k] != None and self.procs[k]._work_queue == self._work_queue"
                  " and self.procs[k]._results_queue == self._results_queue, trigger=self.procs[k])"
                  " and forall(a, 0, len(self.procs), forall(b, a + 1, len(self.procs), self.procs[a] != self.procs[b]))")
    m = C.method("__init__", {"pf": ANY, "workers": INT}, kind="init")
    m.default_expr("workers", "0 - 1")
    m.modifies("self._work_queue", "self._results_queue", "self.procs")
    m.ghost_exit("self._results_queue.chan = self._work_queue.chan")
    m.ensures("len(self.procs) >= 1 and implies(workers > 0, len(self.procs) == workers)", "one-worker-object-per-requested-worker")
    m.ensures(workers_ok, "every-worker-uses-the-map's-two-queues;worker-objects-are-distinct")
    m.ensures("forall(k, 0, len(self.procs), not self.procs[k].pstarted, trigger=self.procs[k])")
    m.ensures("self._work_queue.chan.sent == 0 and forall(i, not self._work_queue.chan.recv[i]) and self._work_queue.stops == 0", "nothing-in-flight")
    m = C.method("__enter__", {}, RefS("FunctorMap"), locals={"p": RefS("FunctorWorker")})
    m.requires(workers_ok)
    m.requires("forall(k, 0, len(self.procs), not self.procs[k].pstarted, trigger=self.procs[k])", "entered-once")
    m.modifies("FunctorWorker.daemon[*]", "FunctorWorker.pstarted[*]")
    lp = m.loop(1)
    lp.invariant("same(self.procs, old(self.procs)) and same(self._work_queue, old(self._work_queue)) and same(self._results_queue, old(self._results_queue))")
    lp.invariant(workers_ok)
    lp.invariant("forall(k, 0, len(self.procs), self.procs[k].pstarted == (k < _i1), trigger=self.procs[k])")
    m.ensures("result == self and forall(k, 0, len(self.procs), self.procs[k].pstarted, trigger=self.procs[k])", "every-worker-started-exactly-once")
    m = C.method("__exit__", {"exc_type": ANY, "exc_val": ANY, "exc_tb": ANY}, locals={"p": RefS("FunctorWorker")})
    m.requires(workers_ok)
    m.requires("forall(k, 0, len(self.procs), self.procs[k].pstarted, trigger=self.procs[k])")
    m.requires("forall(i, 0, self._work_queue.chan.sent, self._work_queue.chan.recv[i])", "call-idle:every-result-was-consumed")
    m.modifies("self._work_queue.stops", "FunctorWorker.pjoined[*]")
    keep = ("same(self.procs, old(self.procs)) and same(self._work_queue, old(self._work_queue)) and same(self._results_queue, old(self._results_queue))"
            " and same(self._work_queue.chan, old(self._work_queue.chan)) and self._work_queue.chan.sent == old(self._work_queue.chan.sent)"
            " and same(self._work_queue.chan.chunk, old(self._work_queue.chan.chunk))")
    l1 = m.loop(1)
    l1.invariant(keep)
    l1.invariant("self._work_queue.stops == old(self._work_queue.stops) + _i1", "one-stop-token-per-iteration")
    l2 = m.loop(2)
    l2.invariant(keep)
    l2.invariant(workers_ok)
    l2.invariant("self._work_queue.stops == old(self._work_queue.stops) + len(self.procs)")
    l2.invariant("forall(k, 0, len(self.procs), self.procs[k].pstarted, trigger=self.procs[k])")
    l2.invariant("forall(k, 0, _i2, self.procs[k].pjoined, trigger=self.procs[k])")
    m.ensures("self._work_queue.stops == old(self._work_queue.stops) + len(self.procs)", "exactly-one-stop-token-per-worker")
    m.ensures("forall(k, 0, len(self.procs), self.procs[k].pjoined, trigger=self.procs[k])", "every-worker-joined(none-left-running)")


def unit():
    U = Unit("C05/FunctorMap", "C05")
    E, CH, Q = poolenv.declare(U)
    c15_buffers.declare_buffer(U, CHUNK)
    M = U.module("windpyutils/parallel/pools.py")
    chunking_contract(M, "FunctorMap.__call__.<chunking>")
    W = M.cls("FunctorWorker", fields={"_work_queue": RefS("Queue"), "_results_queue": RefS("Queue")})
    C = M.cls("FunctorMap", fields={"_work_queue": RefS("Queue"), "_results_queue": RefS("Queue"), "procs": SeqS(RefS("FunctorWorker"))})
    C.invariant("self._work_queue != None and self._results_queue != None and self._work_queue != self._results_queue"
                " and self._work_queue.chan != None and self._work_queue.chan == self._results_queue.chan", "two-queues-one-channel")
    ch = "self._work_queue.chan"
    binv = ("buffer != None and buffer._waiting_for >= 0"
            " and forall(i, iff(i in buffer._storage, (i in buffer.fed) and i >= buffer._waiting_for))"
            " and forall(i, implies(i in buffer._storage, buffer._storage[i] == buffer.fed[i]))"
            " and forall(i, 0, buffer._waiting_for, i in buffer.fed)"
            " and forall(i, implies(i in buffer.fed, 0 <= i and i < buffer.hi))"
            " and len(buffer._storage) == len(buffer.fed) - buffer._waiting_for")
    m = C.method("__call__", {"data": CHUNK, "chunk_size": INT}, yields=ANY,
                 locals={"buffer": RefS("Buffer"), "data_cnt": INT, "finished_cnt": INT, "i": INT, "chunk": CHUNK, "res_i": INT, "res_chunk": CHUNK,
                         "ch": CHUNK, "x": ANY})
    m.requires("chunk_size >= 1")
    m.reads("Buffer._storage", "Buffer._waiting_for")
    m.modifies("Chan.sent[*]", "Chan.chunk[*]", "Chan.recv[*]", "Chan.nrecv[*]")
    # call boundary (repeated calls are independent): nothing of an earlier call is in flight, so the per-call ghost protocol state restarts
    m.requires("forall(i, 0, %s.sent, %s.recv[i])" % (ch, ch), "call-idle:every-result-of-earlier-calls-was-consumed")
    m.ghost_entry("%s.sent = 0" % ch)
    m.ghost_entry("%s.nrecv = 0" % ch)
    m.ghost_entry("%s.recv = lam(i, False)" % ch)
    CHS = "_seq1"                    # the chunk stream of chunking(data), enumerated: _seq1[j] == (j, chunk_j)
    common = [
        ("same(self._work_queue, old(self._work_queue)) and same(self._results_queue, old(self._results_queue))"
         " and self._work_queue.stops == old(self._work_queue.stops)", "queues-unchanged,no-stop-token-sent-by-a-call"),
        (binv, "reorder-buffer-invariant"),
        ("finished_cnt == buffer._waiting_for and data_cnt == %s.sent and 0 <= data_cnt" % ch, "counters"),
        ("forall(i, iff(i in buffer.fed, %s.recv[i])) and forall(i, implies(%s.recv[i], 0 <= i and i < %s.sent"
         " and buffer.fed[i] == mapF(%s.chunk[i])))" % (ch, ch, ch, ch), "buffer-holds-exactly-the-received-results"),
        ("forall(j, 0, %s.sent, %s.chunk[j] == %s[j][1])" % (ch, ch, CHS), "chunk-j-was-sent-under-index-j"),
        ("len(%s) == len(g_ys_chunking) and forall(j, 0, len(%s), %s[j][0] == j and %s[j][1] == g_ys_chunking[j])" % (CHS, CHS, CHS, CHS), "enumerated-chunk-stream"),
    ]
    out_upto = lambda w: ("len(yielded) == g_coff[%s] and forall(p, 0, len(yielded), yielded[p] == F(data[p]), trigger=yielded[p])" % w)
    # loop 1: feeding
    l1 = m.loop(1).environment_driven()
    for e, l in common:
        l1.invariant(e, l)
    l1.invariant("data_cnt == _i1 and finished_cnt <= data_cnt")
    l1.invariant("not (buffer._waiting_for in buffer.fed)", "every-arrival-is-followed-by-a-full-drain")
    l1.invariant(out_upto("finished_cnt"), "output-so-far=map-f-over-the-first-emitted-chunks")
    # loops 2-4 (drain while feeding) and 5-7 (tail) share the same structure
    for (lw, ld, lx, feeding) in ((2, 3, 4, True), (5, 6, 7, False)):
        lW = m.loop(lw).environment_driven()
        for e, l in common:
            lW.invariant(e, l)
        lW.invariant("finished_cnt <= data_cnt" + (" and data_cnt == _i1" if feeding else " and data_cnt == len(%s)" % CHS))
        lW.invariant("not (buffer._waiting_for in buffer.fed)", "every-arrival-is-followed-by-a-full-drain")
        lW.invariant(out_upto("finished_cnt"), "output-so-far=map-f-over-the-first-emitted-chunks")
        lD = m.loop(ld)
        drained = "_seq%d" % ld
        for e, l in common[:1] + common[4:]:
            lD.invariant(e, l)
        # during a drain the buffer has already advanced past the whole drained run; finished_cnt catches up chunk by chunk
        lD.invariant("g_w0 + len(%s) == buffer._waiting_for and finished_cnt == g_w0 + _i%d and data_cnt == %s.sent" % (drained, ld, ch))
        lD.invariant(binv)
        lD.invariant("buffer._waiting_for <= data_cnt" + (" and data_cnt == _i1" if feeding else " and data_cnt == len(%s)" % CHS))
        lD.invariant("forall(t, 0, len(%s), %s[t] == mapF(%s.chunk[g_w0 + t]))" % (drained, drained, ch), "drained-run=results-of-consecutive-chunks")
        lD.invariant("forall(i, iff(i in buffer.fed, %s.recv[i])) and forall(i, implies(%s.recv[i], 0 <= i and i < %s.sent"
                     " and buffer.fed[i] == mapF(%s.chunk[i])))" % (ch, ch, ch, ch))
        lD.invariant(out_upto("finished_cnt"))
        lX = m.loop(lx)
        cur = "_seq%d" % lx
        for e, l in common[:1] + common[4:]:
            lX.invariant(e, l)
        lX.invariant("%s == mapF(%s.chunk[finished_cnt - 1]) and 1 <= finished_cnt and finished_cnt <= data_cnt and data_cnt == %s.sent" % (cur, ch, ch))
        lX.invariant("len(yielded) == g_coff[finished_cnt - 1] + _i%d and forall(p, 0, len(yielded), yielded[p] == F(data[p]), trigger=yielded[p])" % lx)
        lX.invariant("g_w0 + len(%s) == buffer._waiting_for and finished_cnt == g_w0 + _i%d" % (drained, ld))
        lX.invariant(binv)
        lX.invariant("buffer._waiting_for <= data_cnt" + (" and data_cnt == _i1" if feeding else " and data_cnt == len(%s)" % CHS))
        lX.invariant("forall(t, 0, len(%s), %s[t] == mapF(%s.chunk[g_w0 + t]))" % (drained, drained, ch))
        lX.invariant("forall(i, iff(i in buffer.fed, %s.recv[i])) and forall(i, implies(%s.recv[i], 0 <= i and i < %s.sent"
                     " and buffer.fed[i] == mapF(%s.chunk[i])))" % (ch, ch, ch, ch))
    m.at_call("before", "__iter__", ghost="g_w0 = buffer._waiting_for")
    m.ensures("len(yielded) == len(data) and forall(p, 0, len(data), yielded[p] == F(data[p]), trigger=yielded[p])",
              "yields-exactly-f(x)-for-every-x-once-in-input-order")
    m.ensures("forall(i, 0, %s.sent, %s.recv[i])" % (ch, ch), "call-idle-again:nothing-left-in-flight(repeated-calls-independent)")
    context_contracts(U, Q, W, C)
    U.verify(None, "FunctorMap.__call__.<chunking>")
    U.verify("FunctorMap", "__call__")
    U.verify("FunctorMap", "__init__")
    U.verify("FunctorMap", "__enter__")
    U.verify("FunctorMap", "__exit__")
    U.assume("demonic queue environment (poolenv): any arrival order / timing / number of workers / queue bounds; queues deliver every item "
             "exactly once; the worker loop body (verified separately) turns (i, c) into exactly one (i, [f(x) for x in c])")
    U.assume("f is pure and total (returns normally); the input iterable is a finite sequence evaluated lazily by chunking only")
    return U
