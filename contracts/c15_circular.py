"""C15 (part): CircularBuffer presents exactly the last min(k, c) items put since the last clear."""
from pyvc.dsl import *


def unit():
    U = Unit("C15/CircularBuffer", "C15")
    M = U.module("windpyutils/structures/circular_buffer.py")
    S = U.module("stdlib:_collections_abc")
    C = M.cls("CircularBuffer", fields={"_buffer": SeqS(ANY), "_size": INT, "_offset": INT},
              ghost={"H": SeqS(ANY)})     # H: everything put since the last clear (the history the property talks about)
    U.define("slot", ["b", "t"],
             "ite(b._offset - len(b.H) + t < 0, b._offset - len(b.H) + t + len(b._buffer), b._offset - len(b.H) + t)")
    C.invariant("len(self._buffer) > 0", "capacity-positive")
    C.invariant("self._size == min(len(self.H), len(self._buffer))", "size-is-min(k,c)")
    C.invariant("0 <= self._offset and self._offset < len(self._buffer)", "offset-in-range")
    C.invariant("forall(t, len(self.H) - self._size, len(self.H), self._buffer[slot(self, t)] == self.H[t], trigger=self.H[t])",
                "ring-holds-history-tail")

    m = C.method("__init__", {"max_size": INT})
    m.raises("AssertionError", when="max_size <= 0")
    m.modifies("self._buffer", "self._size", "self._offset", "self.H")
    m.ghost_exit("self.H = empty_like(self.H)")
    m.ensures("len(self._buffer) == max_size", "capacity")
    m.ensures("len(self.H) == 0", "empty-history")

    m = C.method("max_size", {}, INT, kind="property")
    m.ensures("result == len(self._buffer)")

    m = C.method("__len__", {}, INT)
    m.ensures("result == self._size")
    m.ensures("result == min(len(self.H), len(self._buffer))", "len-is-min(k,c)")

    m = C.method("__getitem__", {"offset": INT}, ANY)
    m.raises("IndexError", when="offset >= self._size or offset < 0")
    m.ensures("result == self.H[len(self.H) - self._size + offset]", "item-is-history-tail[offset]")

    m = C.method("put", {"e": ANY})
    m.modifies("self._buffer", "self._offset", "self._size", "self.H")
    m.ghost_exit("self.H = append(old(self.H), e)")
    m.ensures("same(self.H, append(old(self.H), e))", "history-extended")
    m.ensures("len(self._buffer) == old(len(self._buffer))", "capacity-unchanged")

    m = C.method("clear", {})
    m.modifies("self._size", "self._offset", "self.H")
    m.ghost_exit("self.H = empty_like(self.H)")
    m.ensures("len(self.H) == 0", "history-reset")
    m.ensures("len(self._buffer) == old(len(self._buffer))", "capacity-unchanged")

    # list(b): the stdlib Sequence.__iter__ mixin, verified from the running interpreter's real source
    Q = S.cls("Sequence")
    m = Q.method("__iter__", {}, yields=ANY, locals={"i": INT, "v": ANY})
    lp = m.loop(1).environment_driven()
    lp.invariant("0 <= i and i <= self._size")
    lp.invariant("len(yielded) == i")
    lp.invariant("forall(t, 0, i, yielded[t] == self.H[len(self.H) - self._size + t], trigger=yielded[t])")
    m.ensures("len(yielded) == self._size", "yields-size-items")
    m.ensures("forall(t, 0, self._size, yielded[t] == self.H[len(self.H) - self._size + t], trigger=yielded[t])",
              "yields-history-tail-oldest-first")

    for f in ("__init__", "max_size", "__len__", "__getitem__", "put", "clear"):
        U.verify("CircularBuffer", f)
    U.verify("Sequence", "__iter__", "CircularBuffer")
    U.assume("int is mathematical; the ring's payloads are an uninterpreted sort")
    return U
