"""Environment model for files at LINE granularity (trusted, DESIGN §4).

Ghost file system object fs(): for every path p
    nl[p]            number of '\\n'-delimited lines (an unterminated last line counts, a final '\\n' adds none)
    lstart[p][j]     byte offset of the start of line j (j <= nl; lstart[p][nl] == size[p]); strictly increasing
    rawb[p][j]       the bytes of line j including its terminator (what a binary / mmap readline() returns)
    raw[p][j]        the same decoded (what a text-mode readline() returns with newline='\\n')
    ltext[p][j]      line j without its terminator: the property's reference line  (== strip_nl(raw[p][j]))
    has_cr[p][j]     line j contains a carriage return (universal-newlines text mode would split it)
These are definitional over the byte content; `wf_file(p)` states their defining relations.
Handles carry ghost path / kind / pos / owner (pid that opened it) / closed.  kind: 0 binary, 1 text newline='\\n',
2 text universal newlines, 3 mmap, 4 writer."""
from pyvc.dsl import *

KIND_BIN, KIND_TEXT_LF, KIND_TEXT_UNIV, KIND_MMAP, KIND_WRITER = 0, 1, 2, 3, 4


def declare(U):
    E = U.module("env:files")
    FS = E.cls("FileSystem", fields={}, ghost={"nl": ArrS(STR, INT), "size": ArrS(STR, INT), "lstart": ArrS(STR, ArrS(INT, INT)),
                                               "rawb": ArrS(STR, ArrS(INT, STR)), "raw": ArrS(STR, ArrS(INT, STR)),
                                               "ltext": ArrS(STR, ArrS(INT, STR)), "has_cr": ArrS(STR, ArrS(INT, BOOL))})
    U.spec_fun("fs", [], RefS("FileSystem"))
    U.spec_fun("cur_pid", [], INT)          # the process executing the code under verification (constant within a call)
    U.spec_fun("strip_nl", [STR], STR)      # s.rstrip("\\n")
    U.spec_fun("dec", [STR], STR)           # bytes.decode()
    U.spec_fun("fd_path", [INT], STR)       # path behind a file descriptor number
    U.axiom("fs() != None", "the-file-system-object")
    U.define("wf_file", ["p"],
             "fs().nl[p] >= 0 and fs().lstart[p][0] == 0 and fs().lstart[p][fs().nl[p]] == fs().size[p]"
             " and forall(j, 0, fs().nl[p], fs().lstart[p][j] < fs().lstart[p][j + 1] and fs().rawb[p][j] != ''"
             "            and dec(fs().rawb[p][j]) == fs().raw[p][j] and fs().raw[p][j] != ''"
             "            and strip_nl(fs().raw[p][j]) == fs().ltext[p][j], trigger=fs().lstart[p][j])"
             " and forall(j, 0, fs().nl[p] + 1, forall(j2, j + 1, fs().nl[p] + 1, fs().lstart[p][j] < fs().lstart[p][j2]))")
    H = E.cls("Handle", fields={"path": STR, "kind": INT, "pos": INT, "owner": INT, "closed": BOOL})
    op = U.library("open", {"file": STR, "mode": STR, "newline": OptS(STR)}, RefS("Handle"))
    op.defaults = {}
    op.default_expr("mode", "'r'")
    op.default_expr("newline", "None")
    op.ensures("result != None and fresh(result) and result.path == file and result.pos == 0 and result.owner == cur_pid() and not result.closed")
    op.ensures("result.kind == ite(mode == 'rb', 0, ite(mode == 'w' or mode == 'a', 4, ite(is_none(newline), 2, ite(some(newline) == '\\n', 1, 2))))",
               "handle-kind-from-mode-and-newline")
    m = H.method("__enter__", {}, RefS("Handle"), trusted=True)
    m.ensures("result == self")
    m = H.method("__exit__", {"a": ANY, "b": ANY, "c": ANY}, trusted=True)
    m.modifies("self.closed")
    m.ensures("self.closed")
    m = H.method("close", {}, trusted=True)
    m.modifies("self.closed")
    m.ensures("self.closed")
    m = H.method("tell", {}, INT, trusted=True)
    m.requires("not self.closed")
    m.ensures("result == self.pos")
    m = H.method("seek", {"offset": INT}, trusted=True)
    m.requires("not self.closed", "handle-open")
    m.requires("self.owner == cur_pid()", "owner@call:handle-used-only-by-the-process-that-opened-it")
    m.modifies("self.pos")
    m.ensures("self.pos == offset")
    m = H.method("fileno", {}, INT, trusted=True)
    m.requires("not self.closed")
    m.ensures("fd_path(result) == self.path")
    m = H.method("readline", {}, STR, trusted=True)
    m.requires("not self.closed", "handle-open")
    m.requires("self.owner == cur_pid()", "owner@call:handle-used-only-by-the-process-that-opened-it")
    m.modifies("self.pos")
    p_, f_ = "old(self.path)", "fs()"
    m.ensures("forall(j, 0, %s.nl[%s], implies(old(self.pos) == %s.lstart[%s][j], self.pos == %s.lstart[%s][j + 1]"
              " and implies(self.kind == 0 or self.kind == 3, result == %s.rawb[%s][j])"
              " and implies(self.kind == 1 or (self.kind == 2 and not %s.has_cr[%s][j]), result == %s.raw[%s][j])))"
              % (f_, p_, f_, p_, f_, p_, f_, p_, f_, p_, f_, p_), "at-a-line-start:returns-that-line-and-moves-to-the-next-line-start")
    m.ensures("implies(old(self.pos) == %s.size[%s], result == '' and self.pos == old(self.pos))" % (f_, p_), "at-end-of-file:empty")
    mm = U.library("mmap.mmap", {"fileno": INT, "length": INT, "access": ANY}, RefS("Handle"))
    mm.ensures("result != None and fresh(result) and result.path == fd_path(fileno) and result.kind == 3 and result.pos == 0"
               " and result.owner == cur_pid() and not result.closed")
    gp = U.library("os.getpid", {}, INT)
    gp.ensures("result == cur_pid()")
    U.spec_fun("cur_ppid", [], INT)
    gpp = U.library("os.getppid", {}, INT)          # not used by the code; known to the environment so that uses of it are decided
    gpp.ensures("result == cur_ppid()")
    U.library("multiprocessing.parent_process", {}, ANY)      # None in a main / plainly forked process, a handle otherwise: unconstrained
    rs = U.library("str.rstrip", {"s": STR, "chars": STR}, STR)
    rs.requires("chars == '\\n'")
    rs.ensures("result == strip_nl(s)")
    dc = U.library("str.decode", {"s": STR}, STR)
    dc.ensures("result == dec(s)")
    return E
