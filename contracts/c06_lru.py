"""C06: LRUCache is a bounded mapping that evicts exactly the least recently used key.

Abstract view M = the (key, value) pairs along the recency list, most recently used first:
M[i] = self.list.s[i].data.  Coupling invariant: the dict has exactly the keys of M and maps each key to its node.
Reference operations (an ordered dict with move-to-front) are stated over M for the five primitives; the stdlib
Mapping / MutableMapping mixins (real source of the running interpreter) are verified through those contracts."""
from pyvc.dsl import *
from . import c08_lists
from .c08_lists import NODE

LIST_FRAME = ["self.list.head", "self.list.tail", "self.list.size", "self.list.s", "self.list.pos",
              NODE + ".next_node[*]", NODE + ".prev_node[*]"]


def cache_macros(U):
    U.var("k", ANY)
    U.define("listinv", ["L"], "ends_ok(L) and elems_ok(L) and adjacent_ok(L) and L.size == len(L.s)")
    U.define("entry", ["C", "i"], "C.list.s[i].data")


def mapping_frame(prefix):
    return [x.replace("self.", prefix) for x in LIST_FRAME]


def _lru_key_at(c, t):
    return "entry(%s, %s)[0]" % (c, t)


def _lru_val_at(c, t):
    return "entry(%s, %s)[1]" % (c, t)


def declare_views(U, cache_cls, inv_macro, value_of, key_at=_lru_key_at, val_at=_lru_val_at, item_frame=()):
    """stdlib mapping views + mixins over a cache class whose invariant is the macro `inv_macro(C)`;
    value_of(C, k): expression for the value stored under key k; key_at/val_at(C, t): key / value of the t-th entry in list order"""
    S = U.module("stdlib:_collections_abc")
    MV = S.cls("MappingView", fields={"_mapping": RefS(cache_cls)})
    m = MV.method("__init__", {"mapping": RefS(cache_cls)})
    m.modifies("self._mapping")
    m.ensures("self._mapping == mapping")
    m = MV.method("__len__", {}, INT, inv_pre=False, inv_post=False)
    m.requires("self._mapping != None and %s(self._mapping)" % inv_macro)
    m.ensures("result == len(self._mapping.cache)", "len(view)=number-of-entries")
    for vc in ("KeysView", "ItemsView", "ValuesView"):
        S.cls(vc)
    frame = mapping_frame("self._mapping.") + list(item_frame)
    common_pre = "self._mapping != None and %s(self._mapping)" % inv_macro
    # keys(): yield from the mapping's own iterator
    m = S.classes["KeysView"].method("__iter__", {}, yields=ANY, inv_pre=False, inv_post=False)
    m.requires(common_pre)
    m.ensures("len(yielded) == len(self._mapping.cache)", "one-key-per-entry")
    m.ensures("forall(t, 0, len(yielded), yielded[t] == %s, trigger=yielded[t])" % key_at("self._mapping", "t"), "keys-in-iteration-order")
    # values() / items(): look every key up through __getitem__ (which, for the caches, reorders the list being described)
    for vc, elt, what in (("ValuesView", "%s", "value"), ("ItemsView", "tup(_seq1[t], %s)", "(key,value)")):
        m = S.classes[vc].method("__iter__", {}, yields=ANY if vc == "ValuesView" else TupS(ANY, ANY), inv_pre=False, inv_post=False)
        m.requires(common_pre)
        m.modifies(*frame)
        lp = m.loop(1)
        lp.invariant("self._mapping == old(self._mapping) and %s(self._mapping)" % inv_macro)
        lp.invariant("same(self._mapping.cache, old(self._mapping.cache))")
        lp.invariant("len(yielded) == _i1")
        lp.invariant("forall(t, 0, _i1, yielded[t] == " + (elt % value_of("self._mapping", "_seq1[t]")) + ", trigger=yielded[t])")
        m.ensures("len(yielded) == len(self._mapping.cache)", "one-%s-per-entry(terminates)" % what)
        m.ensures("forall(t, 0, len(yielded), yielded[t] == "
                  + (elt.replace("_seq1[t]", "old(%s)" % key_at("self._mapping", "t")) % ("old(%s)" % val_at("self._mapping", "t")))
                  + ", trigger=yielded[t])", "%ss-agree-with-content-in-iteration-order" % what)
        m.ensures("same(self._mapping.cache, old(self._mapping.cache)) and %s(self._mapping)" % inv_macro, "content-unchanged")
    return S


def declare_mixins(U, S, cache_cls, value_of, item_frame):
    MP = S.cls("Mapping")
    MM = S.cls("MutableMapping", fields={"_MutableMapping__marker": ANY, "__marker": ANY})
    frame = LIST_FRAME + item_frame
    m = MP.method("get", {"key": ANY, "default": ANY}, ANY)
    m.modifies(*frame)
    m.ensures("result == ite(key in old(self.cache), %s, default)" % ("old(%s)" % value_of("self", "key")), "get=value-or-default")
    m.ensures("same(self.cache, old(self.cache))")
    m = MP.method("__contains__", {"key": ANY}, BOOL)
    m.modifies(*frame)
    m.ensures("result == (key in old(self.cache))", "membership-agrees-with-content")
    m.ensures("same(self.cache, old(self.cache))")
    for nm, vc in (("keys", "KeysView"), ("values", "ValuesView"), ("items", "ItemsView")):
        m = MP.method(nm, {}, RefS(vc))
        m.ensures("fresh(result) and result != None and result._mapping == self")
    m = MM.method("pop", {"key": ANY, "default": ANY}, ANY)
    m.raises("KeyError", when="not (key in self.cache) and default == self.__marker")
    m.modifies("self.cache", *frame)
    m.ensures("result == ite(key in old(self.cache), %s, default)" % ("old(%s)" % value_of("self", "key")), "pop=value-or-default")
    m.ensures("same(self.cache, mdel(old(self.cache), key)) or (not (key in old(self.cache)) and same(self.cache, old(self.cache)))"
              if False else "forall(k, iff(k in self.cache, k in old(self.cache) and k != key))", "exactly-the-key-removed")
    m.ensures("forall(k, implies(k in self.cache, %s == old(%s)))" % (value_of("self", "k"), value_of("self", "k")), "other-values-kept")
    m = MM.method("popitem", {}, TupS(ANY, ANY))
    m.raises("KeyError", when="len(self.cache) == 0")
    m.modifies("self.cache", *frame)
    m.ensures("result[0] in old(self.cache) and result[1] == old(%s)" % value_of("self", "result[0]"), "returns-a-stored-pair")
    m.ensures("forall(k, iff(k in self.cache, k in old(self.cache) and k != result[0]))", "exactly-that-key-removed")
    m.ensures("len(self.cache) == old(len(self.cache)) - 1")
    m = MM.method("clear", {})
    m.modifies("self.cache", *frame)
    lp = m.loop(1).with_class_invariant()
    lp.decreases("len(self.cache)")
    m.ensures("len(self.cache) == 0", "cleared(terminates)")
    # update(pairs): the stdlib loop of stores; for every finite sequence of pairs it terminates, keeps the class invariant (capacity
    # included) and the pair stored last is afterwards the stored value of its key; nothing but keys of the old content or of the pairs
    # is present.  (Which of the earlier entries survive is the fold of the store contract - exhaustively enumerated by the bounded layer.)
    m = MM.method("update", {"other": SeqS(TupS(ANY, ANY)), "kwds": MapS(ANY, ANY)})
    m.requires("len(kwds) == 0", "no-keyword-arguments")
    m.modifies("self.cache", NODE + ".data[*]", *frame)
    m.loop(1), m.loop(2)
    lp = m.loop(3).with_class_invariant()
    lp.invariant("implies(_i3 >= 1, (other[_i3 - 1][0] in self.cache) and %s == other[_i3 - 1][1])" % value_of("self", "other[_i3 - 1][0]"),
                 "the-pair-stored-last-is-present")
    lp.invariant("forall(k, implies(k in self.cache, (k in old(self.cache)) or exists(j, 0, _i3, other[j][0] == k)))", "no-foreign-key")
    lp4 = m.loop(4).with_class_invariant()
    post = [("implies(len(other) >= 1, (other[len(other) - 1][0] in self.cache) and %s == other[len(other) - 1][1])"
             % value_of("self", "other[len(other) - 1][0]"), "last-pair-stored(terminates)"),
            ("forall(k, implies(k in self.cache, (k in old(self.cache)) or exists(j, 0, len(other), other[j][0] == k)))", "no-foreign-key")]
    for e, l in post:
        lp4.invariant(e, l)
        m.ensures(e, l)
    m = MM.method("setdefault", {"key": ANY, "default": ANY}, ANY)
    m.modifies("self.cache", NODE + ".data[*]", *frame)
    m.ensures("result == ite(key in old(self.cache), %s, default)" % ("old(%s)" % value_of("self", "key")))
    m.ensures("key in self.cache and %s == result" % value_of("self", "key"), "key-present-afterwards")
    return MP, MM


def unit():
    U = Unit("C06/LRUCache", "C06")
    c08_lists.declare(U, TupS(ANY, ANY))
    cache_macros(U)
    M = U.module("windpyutils/structures/caches.py")
    B = M.cls("Cache", fields={"max_size": INT})
    m = B.method("__init__", {"max_size": INT}, inv_pre=False, inv_post=False)
    m.modifies("self.max_size")
    m.ensures("self.max_size == max_size")
    C = M.cls("LRUCache", fields={"cache": MapS(ANY, RefS(NODE)), "list": RefS("DoublyLinkedList")})
    U.define("lruinv", ["C"],
             "C.list != None and alive(C.list) and listinv(C.list) and C.max_size >= 1"
             " and len(C.cache) == len(C.list.s) and len(C.cache) <= C.max_size"
             " and forall(k, implies(k in C.cache, inlist(C.list, C.cache[k]) and C.cache[k].data[0] == k))"
             " and forall(i, 0, len(C.list.s), (C.list.s[i].data[0] in C.cache) and C.cache[C.list.s[i].data[0]] == C.list.s[i],"
             "            trigger=C.list.s[i])")
    C.invariant("self.list != None and alive(self.list) and listinv(self.list)", "recency-list-well-formed")
    C.invariant("self.max_size >= 1", "capacity>=1")
    C.invariant("len(self.cache) == len(self.list.s)", "dict-and-list-same-size")
    C.invariant("len(self.cache) <= self.max_size", "never-more-than-max_size-entries")
    C.invariant("forall(k, implies(k in self.cache, inlist(self.list, self.cache[k]) and self.cache[k].data[0] == k))",
                "dict-maps-each-key-to-its-node")
    C.invariant("forall(i, 0, len(self.list.s), (self.list.s[i].data[0] in self.cache)"
                " and self.cache[self.list.s[i].data[0]] == self.list.s[i], trigger=self.list.s[i])", "every-list-entry-is-in-the-dict")

    m = C.method("__init__", {"max_size": INT})
    m.requires("max_size >= 1", "capacity>=1")
    m.modifies("self.max_size", "self.cache", "self.list", NODE + ".next_node[*]", NODE + ".prev_node[*]")
    m.ensures("len(self.list.s) == 0 and self.max_size == max_size", "empty-cache")

    m = C.method("__getitem__", {"k": ANY}, ANY)
    m.raises("KeyError", when="not (k in self.cache)")
    m.modifies(*LIST_FRAME)
    j = "old(self.list.pos[self.cache[k]])"
    m.ensures("result == old(self.cache[k].data[1])", "lookup-returns-the-stored-value")
    m.ensures("same(self.cache, old(self.cache)) and self.list == old(self.list)")
    m.ensures("len(self.list.s) == old(len(self.list.s))")
    m.ensures("entry(self, 0)[0] == k and entry(self, 0)[1] == result", "hit-becomes-most-recent")
    m.ensures("forall(i, 1, %s + 1, entry(self, i) == old(entry(self, i - 1)))" % j, "entries-before-the-hit-shift-by-one")
    m.ensures("forall(i, %s + 1, len(self.list.s), entry(self, i) == old(entry(self, i)))" % j, "entries-after-the-hit-keep-their-place")

    m = C.method("__len__", {}, INT)
    m.ensures("result == len(self.cache) and result == len(self.list.s)", "len=number-of-entries")

    m = C.method("__iter__", {}, SeqS(ANY))       # an iterator over a snapshot: reads nothing lazily
    m.ensures("len(result) == len(self.list.s)")
    m.ensures("forall(t, 0, len(result), result[t] == entry(self, t)[0] and (result[t] in self.cache), trigger=result[t])",
              "keys-from-most-to-least-recently-used")

    m = C.method("__setitem__", {"k": ANY, "v": ANY})
    m.modifies("self.cache", NODE + ".data[*]", *LIST_FRAME)
    n = "old(len(self.list.s))"
    m.ensures("entry(self, 0)[0] == k and entry(self, 0)[1] == v", "stored-pair-is-most-recent")
    m.ensures("k in self.cache")
    m.ensures("implies(old(k in self.cache), len(self.list.s) == %s"
              " and forall(i, 1, %s + 1, entry(self, i) == old(entry(self, i - 1)))"
              " and forall(i, %s + 1, %s, entry(self, i) == old(entry(self, i))))" % (n, j, j, n), "existing-key:value-replaced-moved-to-front")
    m.ensures("implies(not old(k in self.cache) and %s < self.max_size, len(self.list.s) == %s + 1"
              " and forall(i, 1, %s + 1, entry(self, i) == old(entry(self, i - 1))))" % (n, n, n), "new-key-not-full:prepended")
    m.ensures("implies(not old(k in self.cache) and %s >= self.max_size, len(self.list.s) == %s"
              " and forall(i, 1, %s, entry(self, i) == old(entry(self, i - 1))))" % (n, n, n),
              "new-key-full:exactly-the-least-recently-used-entry-leaves")

    m = C.method("__delitem__", {"v": ANY})
    m.raises("KeyError", when="not (v in self.cache)")
    m.modifies("self.cache", *LIST_FRAME)
    jv = "old(self.list.pos[self.cache[v]])"
    m.ensures("len(self.list.s) == %s - 1" % n)
    m.ensures("forall(i, 0, %s, entry(self, i) == old(entry(self, i)))" % jv, "entries-before-keep-their-place")
    m.ensures("forall(i, %s, len(self.list.s), entry(self, i) == old(entry(self, i + 1)))" % jv, "entries-after-shift-by-one")
    m.ensures("forall(k, iff(k in self.cache, k in old(self.cache) and k != v))", "exactly-the-key-removed")

    def value_of(c, k):
        return "%s.cache[%s].data[1]" % (c, k)
    S = declare_views(U, "LRUCache", "lruinv", value_of)
    declare_mixins(U, S, "LRUCache", value_of, [])
    for f in ("__init__", "__getitem__", "__len__", "__iter__", "__setitem__", "__delitem__"):
        U.verify("LRUCache", f)
    U.verify("Cache", "__init__")
    for f in ("get", "__contains__", "keys", "values", "items"):
        U.verify("Mapping", f, "LRUCache")
    for f in ("pop", "popitem", "clear", "setdefault", "update"):
        U.verify("MutableMapping", f, "LRUCache")
    U.verify("MappingView", "__init__", "ValuesView")
    U.verify("MappingView", "__len__", "ValuesView")
    for vc in ("KeysView", "ValuesView", "ItemsView"):
        U.verify(vc, "__iter__")
    U.assume("DoublyLinkedList contracts (verified for an uninterpreted payload in C08) are used here with payload sort (key, value): "
             "the list code is parametric in its payload (never inspects it)")
    U.assume("keys are an uninterpreted sort with equality; hashing is consistent with ==")
    U.assume("not verified deductively (bounded layer only): MutableMapping.update, Mapping.__eq__ (dict() construction from pairs)")
    return U
