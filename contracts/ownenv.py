"""Environment of own_proc_pools (trusted): the demonic queue environment of poolenv extended with what FunctorPool uses -
get(block, timeout), qsize(), the results-queue lock, threading.Event and Thread.start/join.

Thread model (DESIGN §5): every thread is verified sequentially against its RELY (the environment step of the other threads,
applied before each read of a field another thread writes and before each environment call) and must establish its GUARANTEE
after each write of a shared field.  Liveness is not claimed: the `owed@` preconditions are the safety surrogates of C02
(an unbounded blocking call is entered only when what it waits for is owed)."""
from pyvc.dsl import *
from . import poolenv
from .poolenv import CHUNK, ITEM


def declare(U):
    E, CH, Q = poolenv.declare(U)
    g = Q.methods["get"]
    # get(block=True, timeout=None): with a timeout (or non-blocking) the call may give up with queue.Empty at any time; only the
    # unbounded blocking form needs a result to be owed
    g.params["timeout"] = OptS(REAL)
    g.default_expr("timeout", "None")
    g.requires_l[:] = [r for r in g.requires_l if "owed@get" not in r[1]]
    g.requires("implies(block and is_none(timeout), exists(i, 0, self.chan.sent, not self.chan.recv[i]))",
               "owed@get:an-unbounded-blocking-get-is-entered-only-while-a-sent-item-is-still-unreceived")
    g.raises_l[:] = []
    g.raises("Empty", when="not block or not is_none(timeout)", iff=False)
    # pigeonhole facts of the channel model (each get takes a distinct sent index): assumed, see DESIGN §4
    g.ensures("self.chan.nrecv <= self.chan.sent", "model:received<=sent")
    g.ensures("implies(self.chan.nrecv == self.chan.sent, forall(i, 0, self.chan.sent, self.chan.recv[i]))", "model:all-received-when-counts-agree")
    # stop tokens (None) put on the work queue: counted (ghost)
    Q.ghost["stops"] = INT
    pm = Q.methods["put"]
    pm.modifies("self.stops")
    pm.ensures("self.stops == old(self.stops) + ite(is_none(item), 1, 0)", "stop-tokens-are-counted")
    m = Q.method("qsize", {}, INT, trusted=True)       # advisory only: any non-negative number
    m.ensures("result >= 0")
    LK = E.cls("Lock", fields={})
    LK.method("__enter__", {}, RefS("Lock"), trusted=True)
    LK.method("__exit__", {"a": ANY, "b": ANY, "c": ANY}, trusted=True)
    EV = E.cls("Event", fields={}, ghost={"isset": BOOL})
    m = EV.method("__init__", {}, trusted=True)
    m.modifies("self.isset")
    m.ensures("not self.isset")
    m = EV.method("clear", {}, trusted=True)
    m.modifies("self.isset")
    m.ensures("not self.isset")
    m = EV.method("set", {}, trusted=True)
    m.modifies("self.isset")
    m.ensures("self.isset")
    m = EV.method("is_set", {}, BOOL, trusted=True)
    m.ensures("result == self.isset")
    # wait(): returns once the flag is set (by another thread; liveness of the setter is not claimed); with a timeout it may give up
    m = EV.method("wait", {"timeout": OptS(REAL)}, BOOL, trusted=True)
    m.default_expr("timeout", "None")
    m.modifies("self.isset")
    m.ensures("implies(is_none(timeout), self.isset) and result == self.isset")
    m = U.library("threading.Event", {}, RefS("Event"))
    m.ensures("result != None and fresh(result) and not result.isset")
    TH = E.cls("Thread", fields={}, ghost={"started": BOOL, "done": BOOL})
    m = TH.method("__init__", {}, trusted=True)
    m.modifies("self.started", "self.done")
    m.ensures("not self.started and not self.done")
    m = TH.method("start", {}, trusted=True)
    m.requires("not self.started", "a-thread-is-started-once")
    m.modifies("self.started")
    m.ensures("self.started")
    m = TH.method("join", {}, trusted=True)
    m.requires("self.done", "owed@join:join-is-called-only-when-the-thread-has-finished-or-was-given-what-makes-it-finish")
    return E, CH, Q
