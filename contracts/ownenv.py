"""Environment of own_proc_pools (trusted): the demonic queue environment of poolenv extended with what FunctorPool uses -
get(block, timeout), qsize(), the results-queue lock, threading.Event and Thread.start/join.

Thread model (DESIGN §5): every thread is verified sequentially against its RELY (the environment step of the other threads,
applied before each read of a field another thread writes and before each environment call) and must establish its GUARANTEE
after each write of a shared field.  Liveness is not claimed: the `owed@` preconditions are the safety surrogates of C02
(an unbounded blocking call is entered only when what it waits for is owed)."""
from pyvc.dsl import *
from . import poolenv
from .poolenv import CHUNK, ITEM


def counting(U):
    """rcnt(a, k) = number of received indices below k.  The pigeonhole facts of the channel model (received <= sent; all received
    when the counts agree) are LEMMAS proved by induction over this definition, not assumptions."""
    RA = ArrS(INT, BOOL)
    U.spec_fun("rcnt", [RA, INT], INT)
    U.rec_def("rcnt", ["a", "k"], "implies(k <= 0, rcnt(a, k) == 0) and implies(k >= 1, rcnt(a, k) == rcnt(a, k - 1) + ite(a[k - 1], 1, 0))")
    ua, ub = "unfold('rcnt', la, lk)", "unfold('rcnt', lb, lk)"
    U.lemma("rc_bounds", {"la": RA, "lk": INT}, [], ["0 <= rcnt(la, lk) and rcnt(la, lk) <= max(lk, 0)"], induct="lk", unfold=[ua])
    U.lemma("rc_one_more", {"la": RA, "lb": RA, "lg": INT, "lk": INT},
            ["lg >= 0", "not la[lg]", "lb[lg]", "forall(h, 0, lk, implies(h != lg, la[h] == lb[h]))"],
            ["rcnt(lb, lk) == rcnt(la, lk) + ite(lg < lk, 1, 0)"], induct="lk", unfold=[ua, ub])
    U.lemma("rc_full", {"la": RA, "lk": INT}, ["lk >= 0", "rcnt(la, lk) == lk"], ["forall(h, 0, lk, la[h])"], induct="lk",
            unfold=[ua, "lemma_inst('rc_bounds', la, lk - 1)"])
    U.lemma("rc_all", {"la": RA, "lk": INT}, ["lk >= 0", "forall(h, 0, lk, la[h])"], ["rcnt(la, lk) == lk"], induct="lk", unfold=[ua])
    U.var("h", INT)


def declare(U):
    E, CH, Q = poolenv.declare(U)
    g = Q.methods["get"]
    # get(block=True, timeout=None): with a timeout (or non-blocking) the call may give up with queue.Empty at any time; only the
    # unbounded blocking form needs a result to be owed
    g.params["timeout"] = OptS(REAL)
    g.default_expr("timeout", "None")
    g.requires_l[:] = [r for r in g.requires_l if "owed@get" not in r[1]]
    g.requires("implies(block and is_none(timeout), exists(i, 0, self.chan.sent, not self.chan.recv[i]))",
               "owed@get:an-unbounded-blocking-get-is-entered-only-while-a-sent-item-is-still-unreceived")
    g.raises_l[:] = []
    g.raises("Empty", when="not block or not is_none(timeout)", iff=False)
    counting(U)
    # stop tokens (None) put on the work queue: counted (ghost); put(item, timeout=t) may give up with queue.Full (nothing is put then)
    Q.ghost["stops"] = INT
    pm = Q.methods["put"]
    pm.params["timeout"] = OptS(REAL)
    pm.default_expr("timeout", "None")
    pm.raises("Full", when="not is_none(timeout)", iff=False)
    pm.modifies("self.stops")
    pm.ensures("self.stops == old(self.stops) + ite(is_none(item), 1, 0)", "stop-tokens-are-counted")
    m = Q.method("qsize", {}, INT, trusted=True)       # advisory only: any non-negative number
    m.ensures("result >= 0")
    LK = E.cls("Lock", fields={})
    LK.method("__enter__", {}, RefS("Lock"), trusted=True)
    LK.method("__exit__", {"a": ANY, "b": ANY, "c": ANY}, trusted=True)
    EV = E.cls("Event", fields={}, ghost={"isset": BOOL})
    m = EV.method("__init__", {}, trusted=True)
    m.modifies("self.isset")
    m.ensures("not self.isset")
    m = EV.method("clear", {}, trusted=True)
    m.modifies("self.isset")
    m.ensures("not self.isset")
    m = EV.method("set", {}, trusted=True)
    m.modifies("self.isset")
    m.ensures("self.isset")
    m = EV.method("is_set", {}, BOOL, trusted=True)
    m.ensures("result == self.isset")
    # wait(): returns once the flag is set (by another thread; liveness of the setter is not claimed); with a timeout it may give up
    m = EV.method("wait", {"timeout": OptS(REAL)}, BOOL, trusted=True)
    m.default_expr("timeout", "None")
    m.modifies("self.isset")
    m.ensures("implies(is_none(timeout), self.isset) and result == self.isset")
    m = U.library("threading.Event", {}, RefS("Event"))
    m.ensures("result != None and fresh(result) and not result.isset")
    TH = E.cls("Thread", fields={}, ghost={"started": BOOL, "done": BOOL})
    m = TH.method("__init__", {}, trusted=True)
    m.modifies("self.started", "self.done")
    m.ensures("not self.started and not self.done")
    m = TH.method("start", {}, trusted=True)
    m.requires("not self.started", "a-thread-is-started-once")
    m.modifies("self.started")
    m.ensures("self.started")
    m = TH.method("join", {}, trusted=True)
    m.requires("self.done", "owed@join:join-is-called-only-when-the-thread-has-finished-or-was-given-what-makes-it-finish")
    return E, CH, Q
