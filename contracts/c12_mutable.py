"""C12: mutable line files act as a Python list of lines; save writes them; the source file is untouched.

View V of a mutable file: V[i] = the text held in memory if _lines[i] is a str, else the file's line whose start offset is
_lines[i] (C11's model).  Each primitive (__setitem__, __delitem__, insert) is the list operation on V; the stdlib
MutableSequence mixins (append, extend, pop, reverse, __iadd__) are verified from the running interpreter's real source through
the primitives' contracts.  `save` hands exactly strip_nl(V[i]) + line_ending per line to the output stream; no file-system
state is in any modifies clause of the mutators (source untouched)."""
from pyvc.dsl import *
from . import c11_linefiles, fileenv


def unit_for(mmap):
    U, C, cls, X = c11_linefiles.unit_for(mmap, mutable=True)
    M, B, H, Vf, P, own = X["M"], X["B"], X["H"], X["Vf"], X["P"], X["own"]
    conc = "MutableMemoryMappedRandomLineAccessFile" if mmap else "MutableRandomLineAccessFile"
    BM = M.cls("BaseMutableRandomLineAccessFile")
    MC = M.cls(conc)
    S = U.module("stdlib:_collections_abc")
    MS = S.cls("MutableSequence")
    U.spec_fun("cat", [STR, STR], STR)
    U.define("norm", ["i", "n"], "ite(i < 0, i + n, i)")
    U.define("clampi", ["i", "n"], "ite(i < 0, max(i + n, 0), min(i, n))")
    n_ = "len(self._lines)"
    inrange = lambda i: "(-%s <= %s and %s < %s)" % (n_, i, i, n_)
    oldV = lambda i: "old(%s)" % Vf(i)
    same_except = lambda lo, hi, shift: None

    m = BM.method("_get_item", {"n": INT}, STR, inv_pre=True, inv_post=True)
    m.requires("self.file != None")
    m.raises("IndexError", when="not " + inrange("n"))
    m.modifies(*H)
    m.ensures(own, "handles-are-the-old-ones-or-newly-opened")
    m.ensures("self.file != None and same(self._lines, old(self._lines)) and same(self.jidx, old(self.jidx))")
    m.ensures("result == " + Vf("norm(n, %s)" % n_), "f[i]=i-th-element-of-the-list-view")
    # item access of the sequence (int selectors)
    g = B.methods["__getitem__"]
    g.ensures("same(self._lines, old(self._lines)) and same(self.jidx, old(self.jidx)) and self._dirty == old(self._dirty)")
    g.ensures("self.file != None", "still-open-after-a-read")

    m = BM.method("__setitem__", {"i": INT, "content": STR})
    m.raises("IndexError", when="not " + inrange("i"), ensures=["same(self._lines, old(self._lines))"])
    m.modifies("self._dirty", "self._lines")
    k = "norm(i, old(%s))" % n_
    m.ensures("self._dirty", "dirty-after-a-change")
    m.ensures("%s == old(%s) and %s == content" % (n_, n_, Vf(k)), "V'[i]=content")
    m.ensures("forall(t, 0, %s, implies(t != %s, %s == %s))" % (n_, k, Vf("t"), oldV("t")), "other-items-unchanged")

    m = BM.method("__delitem__", {"n": INT})
    m.raises("IndexError", when="not " + inrange("n"), ensures=["same(self._lines, old(self._lines))"])
    m.modifies("self._dirty", "self._lines", "self.jidx")
    k = "norm(n, old(%s))" % n_
    m.ghost_exit("self.jidx = remove_at(old(self.jidx), %s)" % k)
    m.ensures("self._dirty", "dirty-after-a-change")
    m.ensures("%s == old(%s) - 1" % (n_, n_))
    m.ensures("forall(t, 0, %s, %s == %s)" % (k, Vf("t"), oldV("t")), "items-before-keep-their-place")
    m.ensures("forall(t, %s, %s, %s == %s)" % (k, n_, Vf("t"), oldV("t + 1")), "items-after-shift-down")

    m = BM.method("insert", {"index": INT, "content": STR})
    m.modifies("self._dirty", "self._lines", "self.jidx")
    k = "clampi(index, old(%s))" % n_
    m.ghost_exit("self.jidx = insert_at(old(self.jidx), %s, 0)" % k)
    m.ensures("self._dirty", "dirty-after-a-change")
    m.ensures("%s == old(%s) + 1 and %s == content" % (n_, n_, Vf(k)), "V'=insert(V,index,content)")
    m.ensures("forall(t, 0, %s, %s == %s)" % (k, Vf("t"), oldV("t")), "items-before-keep-their-place")
    m.ensures("forall(t, %s + 1, %s, %s == %s)" % (k, n_, Vf("t"), oldV("t - 1")), "items-after-shift-up")

    # ---- stdlib MutableSequence mixins (real source of the running interpreter)
    m = MS.method("append", {"value": STR})
    m.modifies("self._dirty", "self._lines", "self.jidx")
    m.ensures("%s == old(%s) + 1 and %s == value and self._dirty" % (n_, n_, Vf("old(%s)" % n_)), "V'=V+[value]")
    m.ensures("forall(t, 0, old(%s), %s == %s)" % (n_, Vf("t"), oldV("t")), "earlier-items-unchanged")
    m = MS.method("pop", {"index": INT}, STR)
    m.default_expr("index", "-1")
    m.raises("RuntimeError", when="self.file == None")
    m.raises("IndexError", when="self.file != None and not " + inrange("index"))          # no ensures: nothing at all changes
    m.modifies("self._dirty", "self._lines", "self.jidx", *H)
    k = "norm(index, old(%s))" % n_
    m.ensures(own, "handles-are-the-old-ones-or-newly-opened")
    m.ensures("result == " + oldV(k), "returns-the-removed-item")
    m.ensures("self.file != None", "still-open-after-a-read")
    m.ensures("%s == old(%s) - 1 and self._dirty" % (n_, n_))
    m.ensures("forall(t, 0, %s, %s == %s)" % (k, Vf("t"), oldV("t")), "items-before-keep-their-place")
    m.ensures("forall(t, %s, %s, %s == %s)" % (k, n_, Vf("t"), oldV("t + 1")), "items-after-shift-down")
    m = MS.method("extend", {"values": SeqS(STR)})
    m.modifies("self._dirty", "self._lines", "self.jidx")
    lp = m.loop(1).with_class_invariant()
    lp.invariant("%s == old(%s) + _i1 and self.file == old(self.file)" % (n_, n_))
    lp.invariant("forall(t, 0, old(%s), %s == %s)" % (n_, Vf("t"), oldV("t")))
    lp.invariant("forall(t, 0, _i1, %s == values[t])" % Vf("old(%s) + t" % n_))
    lp.invariant("implies(_i1 > 0, self._dirty) and implies(_i1 == 0, self._dirty == old(self._dirty))")
    m.ensures("%s == old(%s) + len(values)" % (n_, n_))
    m.ensures("forall(t, 0, old(%s), %s == %s)" % (n_, Vf("t"), oldV("t")), "earlier-items-unchanged")
    m.ensures("forall(t, 0, len(values), %s == values[t])" % Vf("old(%s) + t" % n_), "V'=V+values")
    m = MS.method("__iadd__", {"values": SeqS(STR)}, RefS(conc))
    m.modifies("self._dirty", "self._lines", "self.jidx")
    m.ensures("result == self and %s == old(%s) + len(values)" % (n_, n_))
    m.ensures("forall(t, 0, old(%s), %s == %s)" % (n_, Vf("t"), oldV("t")), "earlier-items-unchanged")
    m.ensures("forall(t, 0, len(values), %s == values[t])" % Vf("old(%s) + t" % n_), "V'=V+values")


    # ---- more stdlib mixins: index / remove / reverse / clear (real source of the running interpreter, through the primitives' contracts)
    SQ = S.cls("Sequence")
    first_at = lambda r: ("0 <= %s and %s < %s and %s == value and forall(t, 0, %s, %s != value)" % (r, r, n_, Vf(r), r, Vf("t")))
    present = "exists(t, 0, %s, %s == value)" % (n_, Vf("t"))
    m = SQ.method("index", {"value": STR, "start": INT, "stop": NONE}, INT, locals={"i": INT, "v": STR})
    m.requires("start == 0")
    m.raises("RuntimeError", when="self.file == None")
    m.raises("ValueError", when="self.file != None and not " + present, ensures=["same(self._lines, old(self._lines)) and same(self.jidx, old(self.jidx))"])
    m.modifies(*H)
    lp = m.loop(1).with_class_invariant()
    lp.invariant("implies(i > 0, self.file != None) and same(self._lines, old(self._lines)) and same(self.jidx, old(self.jidx)) and self._dirty == old(self._dirty)")
    lp.invariant("0 <= i and i <= %s and forall(t, 0, i, %s != value)" % (n_, Vf("t")), "no-occurrence-before-i")
    lp.decreases("%s - i + 1" % n_)
    m.ensures(own, "handles-are-the-old-ones-or-newly-opened")
    m.ensures("same(self._lines, old(self._lines)) and same(self.jidx, old(self.jidx)) and self._dirty == old(self._dirty) and self.file != None")
    m.ensures(first_at("result"), "index-of-the-first-occurrence")
    # `x in f` (Sequence.__contains__: a scan through __iter__): True exactly when some item equals x; the list view is not changed
    m = SQ.method("__contains__", {"value": STR}, BOOL, locals={"v": STR})
    m.raises("RuntimeError", when="self.file == None")
    m.modifies(*H)
    lp = m.loop(1).with_class_invariant()
    lp.invariant("self.file != None", "still-open")
    lp.invariant("same(self._lines, old(self._lines)) and same(self.jidx, old(self.jidx))", "lines-kept")
    lp.invariant("self._dirty == old(self._dirty)", "dirty-kept")
    lp.invariant(own)
    lp.invariant("len(_seq1) == %s and forall(t, 0, len(_seq1), _seq1[t] == %s, trigger=_seq1[t])" % (n_, Vf("t")))
    lp.invariant("forall(t, 0, _i1, %s != value)" % Vf("t"), "no-occurrence-so-far")
    m.ensures(own, "handles-are-the-old-ones-or-newly-opened")
    m.ensures("same(self._lines, old(self._lines)) and same(self.jidx, old(self.jidx)) and self._dirty == old(self._dirty)", "list-view-unchanged")
    m.ensures("result == " + present, "x-in-f<=>some-item-equals-x")
    m = MS.method("remove", {"value": STR})
    m.raises("RuntimeError", when="self.file == None")
    m.raises("ValueError", when="self.file != None and not " + present, ensures=["same(self._lines, old(self._lines))"])
    m.modifies("self._dirty", "self._lines", "self.jidx", *H)
    m.witness("k", INT, bound_to="g_k")
    m.at_call("after", "index", ghost="g_k = result")
    m.ensures(own, "handles-are-the-old-ones-or-newly-opened")
    m.ensures("0 <= k and k < old(%s) and %s == value and forall(t, 0, k, %s != value)" % (n_, oldV("k"), oldV("t")), "k=the-first-occurrence")
    m.ensures("%s == old(%s) - 1 and self._dirty" % (n_, n_))
    m.ensures("forall(t, 0, k, %s == %s)" % (Vf("t"), oldV("t")), "items-before-keep-their-place")
    m.ensures("forall(t, k, %s, %s == %s)" % (n_, Vf("t"), oldV("t + 1")), "items-after-shift-down")
    m = MS.method("reverse", {}, locals={"n": INT, "i": INT})
    m.raises("RuntimeError", when="self.file == None and %s >= 2" % n_)
    m.modifies("self._dirty", "self._lines", *H)
    lp = m.loop(1).with_class_invariant()
    lp.invariant("n == old(%s) and %s == n and implies(_i1 > 0, self.file != None) and same(self.jidx, old(self.jidx))" % (n_, n_))
    lp.invariant("forall(t, 0, _i1, %s == %s and %s == %s)" % (Vf("t"), oldV("n - 1 - t"), Vf("n - 1 - t"), oldV("t")), "swapped-so-far")
    lp.invariant("forall(t, _i1, n - _i1, %s == %s)" % (Vf("t"), oldV("t")), "middle-untouched")
    lp.invariant("implies(_i1 > 0, self._dirty) and implies(_i1 == 0, self._dirty == old(self._dirty))")
    m.ensures(own, "handles-are-the-old-ones-or-newly-opened")
    m.ensures("%s == old(%s) and forall(t, 0, %s, %s == %s)" % (n_, n_, n_, Vf("t"), oldV("old(%s) - 1 - t" % n_)), "V'=reversed(V)")
    m = MS.method("clear", {})
    m.raises("RuntimeError", when="self.file == None", ensures=["self.file == None"])
    m.modifies("self._dirty", "self._lines", "self.jidx", *H)
    lp = m.loop(1).with_class_invariant()
    lp.invariant("(self.file == None) == (old(self.file) == None) and %s <= old(%s)" % (n_, n_))
    lp.invariant(own)
    lp.invariant("forall(hh, implies(old(alive(hh)) and hh != None and hh != old(self.file)%s, hh.pos == old(hh.pos) and hh.closed == old(hh.closed)))"
                 % (" and hh != old(self.mm)" if mmap else ""), "other-handles-untouched")
    lp.invariant("implies(%s < old(%s), self._dirty) and implies(%s == old(%s), self._dirty == old(self._dirty))" % (n_, n_, n_, n_))
    lp.decreases(n_)
    m.ensures(own, "handles-are-the-old-ones-or-newly-opened")
    m.ensures("%s == 0 and implies(old(%s) > 0, self._dirty)" % (n_, n_), "V'=[]")

    # ---- save
    E = U.module("env:files")
    E.classes["Handle"].ghost["written"] = SeqS(STR)
    pr = U.library("print", {"value": STR, "file": RefS("Handle"), "end": STR})
    pr.requires("file != None and not file.closed and file.kind == 4")
    pr.modifies("file.written")
    pr.ensures("file.written == append(old(file.written), cat(value, end))", "one-piece-appended-to-the-stream")
    U.library("nullcontext", {}, RefS("Handle"))
    op = U.env["open"]
    op.ensures("len(result.written) == 0")
    m = BM.method("_save_from_iter", {"lines": RefS(conc), "out": STR, "line_ending": STR}, kind="static", inv_pre=False, inv_post=False,
                  locals={"line": STR, "f": RefS("Handle"), "opened_f": RefS("Handle")}, returns=NONE)
    m.requires("lines != None and lines.file != None")
    for e, l in U.classes[conc].invariants + C.invariants:
        pass
    inv_lines = " and ".join("(%s)" % e.replace("self.", "lines.") for e, l in c11_linefiles_invs(U, conc))
    m.requires(inv_lines, "the-file-object-is-consistent")
    m.modifies("lines.file", "lines._opened_in_process_with_id", "lines.file.pos", "lines.file.closed",
               *(["lines.mm", "lines.mm.pos", "lines.mm.closed"] if mmap else []))
    m.witness_fun("sink", [], RefS("Handle"), bound_to="g_sink") if False else None
    lp = m.loop(1)
    Vl = lambda i: Vf(i).replace("self.", "lines.")
    lp.invariant("f != None and fresh(f)")
    lp.invariant("not f.closed")
    lp.invariant("f.kind == 4 and f.path == out")
    lp.invariant("f != lines.file" + (" and f != lines.mm" if mmap else ""))
    lp.invariant("len(f.written) == _i1 and forall(t, 0, _i1, f.written[t] == cat(strip_nl(%s), line_ending), trigger=f.written[t])" % Vl("t"))
    lp.invariant("len(_seq1) == len(lines._lines) and forall(t, 0, len(_seq1), _seq1[t] == %s, trigger=_seq1[t])" % Vl("t"))
    m.ghost_exit("g_sink = f")
    m.ensures("g_sink != None and fresh(g_sink) and g_sink.path == out and g_sink.closed", "output-opened-for-writing-and-closed")
    m.ensures("len(g_sink.written) == len(lines._lines) and forall(t, 0, len(lines._lines),"
              " g_sink.written[t] == cat(strip_nl(%s), line_ending), trigger=g_sink.written[t])" % Vl("t"),
              "exactly-the-lines-each-followed-by-the-line-ending")
    targets = [("BaseMutableRandomLineAccessFile", "_get_item", conc), ("BaseRandomLineAccessFile", "__getitem__", conc),
               ("BaseMutableRandomLineAccessFile", "__setitem__", conc), ("BaseMutableRandomLineAccessFile", "__delitem__", conc),
               ("BaseMutableRandomLineAccessFile", "insert", conc), ("MutableSequence", "append", conc), ("MutableSequence", "pop", conc),
               ("MutableSequence", "extend", conc), ("MutableSequence", "__iadd__", conc),
               ("Sequence", "index", conc), ("Sequence", "__contains__", conc), ("MutableSequence", "remove", conc), ("MutableSequence", "reverse", conc),
               ("MutableSequence", "clear", conc),
               ("BaseRandomLineAccessFile", "__iter__", conc), ("BaseRandomLineAccessFile", "__len__", conc),
               ("BaseMutableRandomLineAccessFile", "_save_from_iter", conc),
               ("RandomLineAccessFile", "__init__", conc), (cls, "_read_line", conc), ("BaseRandomLineAccessFile", "dirty", conc)]
    for c, f, k in targets:
        U.verify(c, f, k)
    U.assume("content without line breaks; list semantics of the builtin list for _lines (insert clamps, IndexError ranges)")
    U.assume("print(x, file=h, end=e) appends exactly x+e to the stream (environment contract); that the bytes of the saved file are the "
             "concatenation of the pieces and that reopening gives the same list is checked by the bounded layer only")
    U.assume("Sequence.count / __contains__ / __reversed__ and slice operations: bounded layer only")
    return U


def c11_linefiles_invs(U, conc):
    from pyvc import engine
    eng = engine.Engine(U)
    return eng.invariants_of(conc)


def unit():
    return unit_for(False)


def unit_mmap():
    return unit_for(True)
