"""C07: LFUCache evicts a least frequently used key and keeps the latest stored value.

View: for every key k of the dict, value(k) = cache[k].data.value and count(k) = cache[k].data.meta; list order = iteration order.
Invariant: dict<->list coupling as for the LRU cache, every entry has its own Item, counts >= 1 and non-decreasing along the list."""
from pyvc.dsl import *
from . import c08_lists, c06_lru
from .c08_lists import NODE
from .c06_lru import LIST_FRAME

ITEM_FRAME = ["Item.meta[*]"]


def unit():
    U = Unit("C07/LFUCache", "C07")
    c08_lists.declare(U, RefS("Item"))
    c06_lru.cache_macros(U)
    M = U.module("windpyutils/structures/caches.py")
    I = M.cls("Item", fields={"key": ANY, "value": ANY, "meta": INT}, ghost={"owner": RefS(NODE)},
              dataclass_fields=["key", "value", "meta"])
    B = M.cls("Cache", fields={"max_size": INT})
    m = B.method("__init__", {"max_size": INT}, inv_pre=False, inv_post=False)
    m.modifies("self.max_size")
    m.ensures("self.max_size == max_size")
    C = M.cls("LFUCache", fields={"cache": MapS(ANY, RefS(NODE)), "list": RefS("DoublyLinkedList")})
    U.define("cnt_at", ["C", "i"], "C.list.s[i].data.meta")
    U.define("key_at", ["C", "i"], "C.list.s[i].data.key")
    U.define("val_at", ["C", "i"], "C.list.s[i].data.value")
    pieces = [
        ("C.list != None and alive(C.list) and listinv(C.list)", "frequency-list-well-formed"),
        ("C.max_size >= 1", "capacity>=1"),
        ("len(C.cache) == len(C.list.s)", "dict-and-list-same-size"),
        ("len(C.cache) <= C.max_size", "never-more-than-max_size-entries"),
        ("forall(k, implies(k in C.cache, inlist(C.list, C.cache[k]) and C.cache[k].data.key == k))", "dict-maps-each-key-to-its-node"),
        ("forall(i, 0, len(C.list.s), C.list.s[i].data != None and alive(C.list.s[i].data) and C.list.s[i].data.owner == C.list.s[i]"
         " and (C.list.s[i].data.key in C.cache) and C.cache[C.list.s[i].data.key] == C.list.s[i], trigger=C.list.s[i])",
         "every-list-entry-has-its-own-item-and-is-in-the-dict"),
        ("forall(i, 0, len(C.list.s), C.list.s[i].data.meta >= 1, trigger=C.list.s[i])", "use-counts>=1"),
        ("forall(i, 0, len(C.list.s), forall(j, i, len(C.list.s), C.list.s[i].data.meta <= C.list.s[j].data.meta))",
         "use-counts-non-decreasing-along-the-list"),
    ]
    U.define("lfuinv", ["C"], " and ".join("(%s)" % e for e, _ in pieces))
    for e, l in pieces:
        C.invariant(e.replace("C.", "self."), l)

    def value_of(c, k):
        return "%s.cache[%s].data.value" % (c, k)

    def count_of(c, k):
        return "%s.cache[%s].data.meta" % (c, k)
    same_keys = "same(self.cache, old(self.cache))"
    others = ("forall(k, implies(k in old(self.cache) and k != %s, (k in self.cache) and " + value_of("self", "k") + " == old(" + value_of("self", "k")
              + ") and " + count_of("self", "k") + " == old(" + count_of("self", "k") + ")))")

    m = C.method("__init__", {"max_size": INT})
    m.requires("max_size >= 1", "capacity>=1")
    m.modifies("self.max_size", "self.cache", "self.list", NODE + ".next_node[*]", NODE + ".prev_node[*]")
    m.ensures("len(self.list.s) == 0 and self.max_size == max_size", "empty-cache")

    m = C.method("_inc_freq", {"node": RefS(NODE), "by": INT}, inv_pre=False, inv_post=False, locals={"swap_with": RefS(NODE)})
    m.requires("lfuinv(self) and inlist(self.list, node) and by >= 1")
    m.modifies("node.data.meta", *LIST_FRAME)
    m.ghost_entry("g_p = self.list.pos[node]")
    lp = m.loop(1)
    lp.invariant("old(self.list.pos[node]) <= g_p and g_p < len(self.list.s) and swap_with == self.list.s[g_p]")
    lp.invariant("forall(q, old(self.list.pos[node]) + 1, g_p + 1, self.list.s[q].data.meta < node.data.meta)")
    lp.ghost_at_end("g_p = g_p + 1")
    lp.decreases("len(self.list.s) - g_p")
    m.ensures("lfuinv(self)", "order-by-use-count-restored")
    m.ensures(same_keys + " and self.list == old(self.list)")
    m.ensures("node.data == old(node.data) and node.data.meta == old(node.data.meta) + by", "count-increased")

    m = C.method("__getitem__", {"k": ANY}, ANY)
    m.raises("KeyError", when="not (k in self.cache)")
    m.modifies("Item.meta[*]", *LIST_FRAME)
    m.ensures("result == old(%s)" % value_of("self", "k"), "lookup-returns-the-stored-value")
    m.ensures(same_keys + " and self.list == old(self.list)")
    m.ensures("%s == old(%s) + 1" % (count_of("self", "k"), count_of("self", "k")), "successful-lookup-counts-as-a-use")
    m.ensures(others % "k", "other-entries-unchanged")

    m = C.method("__len__", {}, INT)
    m.ensures("result == len(self.cache) and result == len(self.list.s)", "len=number-of-entries")

    m = C.method("__iter__", {}, SeqS(ANY))       # an iterator over a snapshot: reads nothing lazily
    m.ensures("len(result) == len(self.list.s)")
    m.ensures("forall(t, 0, len(result), result[t] == key_at(self, t) and (result[t] in self.cache), trigger=result[t])", "keys-in-list-order")
    m.ensures("forall(t, 0, len(result) - 1, cnt_at(self, t) <= cnt_at(self, t + 1))", "keys-in-non-decreasing-use-count")

    m = C.method("__setitem__", {"k": ANY, "v": ANY})
    m.modifies("self.cache", NODE + ".data[*]", "Item.key[*]", "Item.value[*]", "Item.meta[*]", "Item.owner[*]", *LIST_FRAME)
    m.ghost_exit("self.cache[k].data.owner = self.cache[k]")
    n = "old(len(self.list.s))"
    victim = "old(self.list.s[0].data.key)"
    m.ensures("(k in self.cache) and %s == v" % value_of("self", "k"), "lookup-after-store-returns-the-stored-value")
    m.ensures("implies(old(k in self.cache), %s == old(%s) + 1 and len(self.cache) == old(len(self.cache)))" % (count_of("self", "k"), count_of("self", "k")),
              "existing-key:store-counts-as-a-use")
    m.ensures("implies(not old(k in self.cache), %s == 1)" % count_of("self", "k"), "new-key:count-1")
    m.ensures("forall(k2, implies(k2 in self.cache, (k2 in old(self.cache)) or k2 == k))", "no-other-key-appears")
    m.ensures("implies(old(k in self.cache) or %s < self.max_size, %s)" % (n, others % "k"), "no-eviction:other-entries-unchanged")
    m.ensures("implies(not old(k in self.cache) and %s < self.max_size, len(self.cache) == old(len(self.cache)) + 1)" % n)
    m.ensures("implies(not old(k in self.cache) and %s >= self.max_size, len(self.cache) == old(len(self.cache))"
              " and not (%s in self.cache)"
              " and forall(k, implies(k in old(self.cache), old(%s) <= old(%s)))"
              " and forall(k, implies(k in old(self.cache) and k != %s, (k in self.cache) and %s == old(%s) and %s == old(%s))))"
              % (n, victim, count_of("self", victim.replace("old(", "").rstrip(")")) if False else "self.list.s[0].data.meta", count_of("self", "k"),
                 victim, value_of("self", "k"), value_of("self", "k"), count_of("self", "k"), count_of("self", "k")),
              "full:the-single-key-removed-has-the-smallest-use-count")

    m = C.method("__delitem__", {"k": ANY})
    m.raises("KeyError", when="not (k in self.cache)")
    m.modifies("self.cache", *LIST_FRAME)
    m.ensures("forall(k2, iff(k2 in self.cache, k2 in old(self.cache) and k2 != k))", "exactly-the-key-removed")
    m.ensures("len(self.cache) == old(len(self.cache)) - 1")
    m.ensures("forall(k2, implies(k2 in self.cache, %s == old(%s) and %s == old(%s)))"
              % (value_of("self", "k2"), value_of("self", "k2"), count_of("self", "k2"), count_of("self", "k2")), "other-entries-unchanged")
    U.var("k2", ANY)
    U.var("q", INT)

    S = c06_lru.declare_views(U, "LFUCache", "lfuinv", value_of, key_at=lambda c, t: "key_at(%s, %s)" % (c, t),
                              val_at=lambda c, t: "val_at(%s, %s)" % (c, t), item_frame=["Item.meta[*]"])
    c06_lru.declare_mixins(U, S, "LFUCache", value_of, ["Item.meta[*]"])
    U.classes["MutableMapping"].methods["setdefault"].modifies("Item.key[*]", "Item.value[*]", "Item.owner[*]")
    for f in ("__init__", "_inc_freq", "__getitem__", "__len__", "__iter__", "__setitem__", "__delitem__"):
        U.verify("LFUCache", f)
    for f in ("get", "__contains__", "keys", "values", "items"):
        U.verify("Mapping", f, "LFUCache")
    for f in ("pop", "popitem", "clear", "setdefault", "update"):
        U.verify("MutableMapping", f, "LFUCache")
    for vc in ("KeysView", "ValuesView", "ItemsView"):
        U.verify(vc, "__iter__")
    U.assume("DoublyLinkedList contracts (verified for an uninterpreted payload in C08) are used here with payload sort Ref[Item]")
    U.assume("keys are an uninterpreted sort with equality; hashing is consistent with ==")
    U.assume("not verified deductively (bounded layer only): Mapping.__eq__; which earlier entries survive an update() (the fold of the store contract)")
    return U
