"""Environment model of the pools (trusted, DESIGN §4 / §5.1): the DEMONIC QUEUE ENVIRONMENT.

A channel (ghost object Chan) stands for the pair work queue / result queue plus the workers behind them, for one call:
    sent        number of work items put so far (their indices are 0 .. sent-1: put requires the index to be the next one)
    chunk[i]    the chunk put under index i
    recv[i]     the result of index i has been taken from the result queue ; nrecv = number of results taken
`results.get()` returns (i, mapF(chunk[i])) for SOME sent index i that was not received before - any such i: this is the
universally quantified choice of the scheduler (arrival order, timing, number of workers, queue bounds never occur in a VC).
get(False) may in addition raise queue.Empty at any time (spuriously).  A blocking get REQUIRES that some sent index is still
unreceived (owed@get: the safety surrogate of 'never blocked on a result that will not come').
The other half - every work item (i, c) produces exactly one result (i, [f(x) for x in c]) - is the loop-body contract of the
real worker `run`, verified separately, composed with 'queues deliver every item exactly once' (assumption)."""
from pyvc.dsl import *

CHUNK = SeqS(ANY)
ITEM = TupS(INT, CHUNK)


def declare(U):
    E = U.module("env:mp")
    U.spec_fun("F", [ANY], ANY)                   # the functor / function applied by the workers: uninterpreted, pure
    U.spec_fun("mapF", [CHUNK], CHUNK)            # [F(x) for x in chunk]
    U.var("cq", CHUNK)
    U.axiom("forall(cq, len(mapF(cq)) == len(cq) and forall(t, 0, len(cq), mapF(cq)[t] == F(cq[t]), trigger=mapF(cq)[t]), trigger=mapF(cq))",
            "mapF=elementwise-F")
    CH = E.cls("Chan", fields={}, ghost={"sent": INT, "chunk": ArrS(INT, CHUNK), "recv": ArrS(INT, BOOL), "nrecv": INT})
    Q = E.cls("Queue", fields={}, ghost={"chan": RefS("Chan")})
    m = Q.method("put", {"item": OptS(ITEM)}, trusted=True)          # None is the stop sentinel for a worker
    m.requires("self.chan != None")
    m.requires("implies(not is_none(item), some(item)[0] == self.chan.sent)", "the-chunk-index-is-attached-to-the-work-item(next-index)")
    m.modifies("self.chan.sent", "self.chan.chunk")
    m.ensures("implies(is_none(item), self.chan.sent == old(self.chan.sent) and same(self.chan.chunk, old(self.chan.chunk)))")
    m.ensures("implies(not is_none(item), self.chan.sent == old(self.chan.sent) + 1"
              " and same(self.chan.chunk, aset(old(self.chan.chunk), old(self.chan.sent), some(item)[1])))")
    m = Q.method("get", {"block": BOOL}, ITEM, trusted=True)
    m.default_expr("block", "True")
    m.requires("self.chan != None")
    m.requires("implies(block, exists(i, 0, self.chan.sent, not self.chan.recv[i]))",
               "owed@get:a-blocking-get-is-entered-only-while-a-sent-item-is-still-unreceived")
    m.raises("Empty", when="not block", iff=False)
    m.modifies("self.chan.recv", "self.chan.nrecv")
    m.ensures("0 <= result[0] and result[0] < self.chan.sent and not old(self.chan.recv)[result[0]]", "some-sent-not-yet-received-index(any-order)")
    m.ensures("result[1] == mapF(self.chan.chunk[result[0]])", "carries-the-result-of-exactly-that-chunk")
    m.ensures("same(self.chan.recv, aset(old(self.chan.recv), result[0], True)) and self.chan.nrecv == old(self.chan.nrecv) + 1")
    return E, CH, Q
