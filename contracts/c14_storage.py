"""C14: TextFileStorage - what is stored under an id is what any process reads back.

View M : id -> text (ghost).  stored(g) := g < len(_index) and _index[g] is not None.
Monitor invariant (holds whenever the storage lock is free; checked at every outermost release, re-assumed together with the rely
at every outermost acquire and at every environment call made while the lock is free):
  _stored_cnt == number of stored ids (counting function cnt with inductively proved lemmas), _waiting_for == smallest id not
  stored, and K: for every stored id the writer's file holds the COMPLETE line M[g] at the recorded offset.
Rely (what other processes may do): index entries are only added, files are only appended to (and never the file of this
process), stored texts never change."""
from pyvc.dsl import *

ENT = OptS(TupS(INT, INT))        # (process identifier, file offset) or None
IDX = SeqS(ENT)


def counting(U):
    U.spec_fun("cnt", [IDX, INT], INT)        # number of stored ids below k
    U.var("cs", IDX)
    U.var("ck", INT)
    U.define("st", ["s", "g"], "0 <= g and g < len(s) and not is_none(s[g])")
    U.rec_def("cnt", ["s", "k"], "implies(k <= 0, cnt(s, k) == 0) and implies(k >= 1, cnt(s, k) == cnt(s, k - 1) + ite(st(s, k - 1), 1, 0))")
    P2 = {"la": IDX, "lb": IDX, "lk": INT}
    ua, ub = "unfold('cnt', la, lk)", "unfold('cnt', lb, lk)"
    U.lemma("cnt_bounds", {"la": IDX, "lk": INT}, [], ["0 <= cnt(la, lk) and cnt(la, lk) <= max(lk, 0)"], induct="lk", unfold=[ua])
    U.lemma("cnt_monotone", {"la": IDX, "lj": INT, "lk": INT}, ["lj <= lk"], ["cnt(la, lj) <= cnt(la, lk)"], induct="lk",
            unfold=[ua, "unfold('cnt', la, lj)", "lemma_inst('cnt_bounds', la, lj)"])
    U.lemma("cnt_agree", P2, ["forall(h, 0, lk, st(la, h) == st(lb, h))"], ["cnt(la, lk) == cnt(lb, lk)"], induct="lk", unfold=[ua, ub])
    U.lemma("cnt_one_more", {"la": IDX, "lb": IDX, "lg": INT, "lk": INT},
            ["lg >= 0", "not st(la, lg)", "st(lb, lg)", "forall(h, 0, lk, implies(h != lg, st(la, h) == st(lb, h)))"],
            ["cnt(lb, lk) == cnt(la, lk) + ite(lg < lk, 1, 0)"], induct="lk", unfold=[ua, ub])
    U.lemma("cnt_full_prefix", {"la": IDX, "lk": INT}, ["forall(h, 0, lk, st(la, h))"], ["cnt(la, lk) == max(lk, 0)"], induct="lk", unfold=[ua])
    U.lemma("cnt_beyond_len", {"la": IDX, "lk": INT}, ["lk >= len(la)"], ["cnt(la, lk) == cnt(la, len(la))"], induct="lk",
            unfold=[ua, "unfold('cnt', la, len(la))"])
    U.lemma("cnt_tail_empty", {"la": IDX, "lj": INT, "lk": INT}, ["0 <= lj and lj <= lk", "cnt(la, lk) == cnt(la, lj)"],
            ["forall(h, lj, lk, not st(la, h))"], induct="lk", unfold=[ua, "lemma_inst('cnt_monotone', la, lj, lk - 1)"])
    U.var("h", INT)


def unit_lemmas():
    U = Unit("C14/counting-lemmas", "C14")
    counting(U)
    return U


def environment(U):
    E = U.module("env:storage")
    FS = E.cls("FileSystem", fields={}, ghost={"lines": ArrS(STR, ArrS(INT, STR)), "complete": ArrS(STR, ArrS(INT, BOOL)),
                                               "size": ArrS(STR, INT), "exists": ArrS(STR, BOOL)})
    U.spec_fun("fs", [], RefS("FileSystem"))
    U.axiom("fs() != None", "the-file-system-object")
    U.spec_fun("linelen", [STR], INT)          # bytes written for one printed line (text + terminator)
    U.spec_fun("withnl", [STR], STR)           # text + "\\n"
    U.spec_fun("rstrip_nl", [STR], STR)
    U.spec_fun("rstrip_cr", [STR], STR)
    U.spec_fun("clean", [STR], BOOL)           # a single-line text (no line break, no trailing carriage return)
    U.spec_fun("path_of", [STR, STR, INT], STR)      # directory + "/" + prefix + "_" + str(identifier)
    U.var("tx", STR)
    U.axiom("forall(tx, linelen(tx) >= 1)", "a-printed-line-is-not-empty")
    U.axiom("forall(tx, implies(clean(tx), rstrip_cr(rstrip_nl(withnl(tx))) == tx))", "stripping-the-terminator-of-a-single-line-text")
    V = E.cls("Value", fields={"value": INT})
    L = E.cls("RLock", fields={}, ghost={"depth": INT, "store": RefS("TextFileStorage")})
    H = E.cls("FHandle", fields={"path": STR, "kind": INT, "pos": INT, "closed": BOOL})
    op = U.library("open", {"file": STR, "mode": STR}, RefS("FHandle"))
    op.modifies("FileSystem.size[*]", "FileSystem.complete[*]", "FileSystem.exists[*]")
    op.ensures("result != None and fresh(result) and result.path == file and not result.closed and result.pos == 0")
    op.ensures("result.kind == ite(mode == 'r', 0, 1)")
    op.ensures("implies(mode == 'w', fs().size[file] == 0 and fs().exists[file] and forall(o, not fs().complete[file][o]))", "'w'-truncates/creates")
    op.ensures("implies(mode != 'w', fs().size[file] == old(fs().size)[file] and same(fs().complete[file], old(fs().complete)[file])"
               " and fs().exists[file] == old(fs().exists)[file])")
    op.ensures("forall(tx, implies(tx != file, fs().size[tx] == old(fs().size)[tx] and same(fs().complete[tx], old(fs().complete)[tx])"
               " and fs().exists[tx] == old(fs().exists)[tx]))", "other-files-untouched")
    U.var("o", INT)
    m = H.method("tell", {}, INT, trusted=True)
    m.requires("not self.closed and self.kind == 1")
    m.ensures("result == fs().size[self.path]", "a-writer-is-positioned-at-the-end-of-its-file")
    m = H.method("seek", {"offset": INT}, trusted=True)
    m.requires("not self.closed and self.kind == 0")
    m.modifies("self.pos")
    m.ensures("self.pos == offset")
    m = H.method("readline", {}, STR, trusted=True)
    m.requires("not self.closed and self.kind == 0")
    m.modifies("self.pos")
    m.ensures("implies(fs().complete[self.path][old(self.pos)], result == withnl(fs().lines[self.path][old(self.pos)]))",
              "a-complete-line-at-the-position-is-returned-whole")
    m = H.method("close", {}, trusted=True)
    m.modifies("self.closed")
    m.ensures("self.closed")
    pr = U.library("print", {"value": STR, "file": RefS("FHandle"), "flush": BOOL})
    pr.requires("file != None and not file.closed and file.kind == 1")
    pr.modifies("FileSystem.lines[*]", "FileSystem.complete[*]", "FileSystem.size[*]")
    at = "old(fs().size)[file.path]"
    pr.ensures("fs().lines[file.path][%s] == value and fs().complete[file.path][%s]" % (at, at), "the-line-is-appended-completely(flush)")
    pr.ensures("fs().size[file.path] == %s + linelen(value)" % at)
    pr.ensures("forall(o, implies(o != %s, fs().lines[file.path][o] == old(fs().lines)[file.path][o]"
               " and fs().complete[file.path][o] == old(fs().complete)[file.path][o]))" % at, "append-only")
    pr.ensures("forall(tx, implies(tx != file.path, same(fs().lines[tx], old(fs().lines)[tx]) and same(fs().complete[tx], old(fs().complete)[tx])"
               " and fs().size[tx] == old(fs().size)[tx]))", "other-files-untouched")
    rm = U.library("os.remove", {"p": STR})
    rm.raises("FileNotFoundError", when="not fs().exists[p]")
    rm.modifies("FileSystem.exists[*]")
    rm.ensures("not fs().exists[p] and forall(tx, implies(tx != p, fs().exists[tx] == old(fs().exists)[tx]))")
    # str(n) of an integer and string concatenation (the writer's file name): two true facts about strings, stated as axioms
    U.spec_fun("istr", [INT], STR)
    U.var("ty", STR)
    U.var("tz", STR)
    U.var("na", INT)
    U.var("nb", INT)
    U.axiom("forall(na, forall(nb, implies(istr(na) == istr(nb), na == nb)))", "str(int)-is-injective")
    U.axiom("forall(tx, forall(na, forall(nb, implies(tx + istr(na) == tx + istr(nb), na == nb))))",
            "a-common-prefix-cancels:prefix+str(a)==prefix+str(b)=>a==b")
    si = U.library("str", {"x": INT}, STR)
    si.ensures("result == istr(x)")
    rs = U.library("str.rstrip", {"s": STR, "chars": STR}, STR)
    rs.ensures("result == ite(chars == '\\n', rstrip_nl(s), rstrip_cr(s))")
    return E, L, V, H


def unit():
    U = Unit("C14/TextFileStorage", "C14")
    U.var("tx", STR)
    counting(U)
    E, L, V, H = environment(U)
    M = U.module("windpyutils/parallel/storage.py")
    C = M.cls("TextFileStorage",
              fields={"_path": STR, "_file_prefix": STR, "_file_paths": SeqS(STR), "_file": RefS("FHandle"), "_process_identifier": OptS(INT),
                      "_index": IDX, "_stored_cnt": RefS("Value"), "_storage_lock": RefS("RLock"),
                      "_opened_files_for_reading": SeqS(RefS("FHandle")), "reader_only": BOOL, "_waiting_for": RefS("Value")},
              ghost={})
    U.define("stored", ["S", "g"], "st(S._index, g)")
    # the text stored under id g: the line at the recorded offset of the recorded writer's file (the view M of the design)
    U.define("text_of", ["S", "g"], "fs().lines[S._file_paths[some(S._index[g])[0]]][some(S._index[g])[1]]")
    # monitor invariant: what holds whenever the lock is free
    U.define("moninv", ["S"],
             "S._stored_cnt.value == cnt(S._index, len(S._index))"
             " and 0 <= S._waiting_for.value and S._waiting_for.value <= len(S._index)"
             " and forall(h, 0, S._waiting_for.value, st(S._index, h))"
             " and not st(S._index, S._waiting_for.value)"
             " and forall(i, 0, len(S._file_paths), S._file_paths[i] == S._path + '/' + S._file_prefix + '_' + istr(i))"
             " and forall(g, 0, len(S._index), implies(not is_none(S._index[g]),"
             "     0 <= some(S._index[g])[0] and some(S._index[g])[0] < len(S._file_paths)"
             "     and fs().complete[S._file_paths[some(S._index[g])[0]]][some(S._index[g])[1]]"
             "     and clean(fs().lines[S._file_paths[some(S._index[g])[0]]][some(S._index[g])[1]])))")
    U.var("g", INT)
    # structural facts that hold always (also while the lock is held)
    C.invariant("self._stored_cnt != None and self._waiting_for != None and self._storage_lock != None and self._stored_cnt != self._waiting_for",
                "shared-counters-and-lock-exist")
    C.invariant("self._storage_lock.store == self and self._storage_lock.depth >= 0", "lock-belongs-to-this-storage")
    C.invariant("implies(self._storage_lock.depth == 0, moninv(self))", "monitor-invariant-while-the-lock-is-free")
    C.invariant("implies(not is_none(self._process_identifier), 0 <= some(self._process_identifier)"
                " and some(self._process_identifier) < len(self._file_paths))", "own-writer-file-registered")
    C.invariant("implies(self._file != None, alive(self._file) and not self._file.closed and self._file.kind == 1"
                " and not is_none(self._process_identifier) and self._file.path == self._file_paths[some(self._process_identifier)])",
                "writer-handle-on-own-file")
    C.invariant("forall(i, 0, len(self._opened_files_for_reading), implies(self._opened_files_for_reading[i] != None,"
                " alive(self._opened_files_for_reading[i]) and not self._opened_files_for_reading[i].closed"
                " and self._opened_files_for_reading[i].kind == 0 and i < len(self._file_paths)"
                " and self._opened_files_for_reading[i].path == self._file_paths[i]))", "reader-handles-on-the-writers'-files")
    C.guarded("_index", "self._storage_lock.depth >= 1", "guarded-access(index-only-under-the-storage-lock)")
    shared = ["self._index", "self._file_paths", "self._stored_cnt.value", "self._waiting_for.value",
              "FileSystem.lines[*]", "FileSystem.complete[*]", "FileSystem.size[*]"]
    own = "self._file_paths[some(self._process_identifier)]"
    rely = [
        "len(self._index) >= len(old(self._index)) and forall(g, 0, len(old(self._index)), implies(not is_none(old(self._index)[g]),"
        " self._index[g] == old(self._index)[g]))",
        "len(self._file_paths) >= len(old(self._file_paths)) and forall(i, 0, len(old(self._file_paths)), self._file_paths[i] == old(self._file_paths)[i])",
        # what other processes do to FILES is promised for the registered writer files only (a first open() creates / truncates a file
        # whose name is not registered yet - whatever was under that name before is not the storage's)
        "forall(i, 0, len(old(self._file_paths)), forall(o, implies(old(fs().complete)[old(self._file_paths)[i]][o],"
        " fs().complete[old(self._file_paths)[i]][o] and fs().lines[old(self._file_paths)[i]][o] == old(fs().lines)[old(self._file_paths)[i]][o])))",
        "forall(i, 0, len(old(self._file_paths)), fs().size[old(self._file_paths)[i]] >= old(fs().size)[old(self._file_paths)[i]])",
        "implies(not is_none(self._process_identifier), fs().size[%s] == old(fs().size)[%s]"
        " and same(fs().complete[%s], old(fs().complete)[%s]) and same(fs().lines[%s], old(fs().lines)[%s]))" % ((own,) * 6),
        "moninv(self)",
        # a writer's identifier is its own: no other process records an entry under it (one writer file per process)
        "implies(not is_none(self._process_identifier), forall(g, 0, len(self._index), implies(st(self._index, g) and not st(old(self._index), g),"
        " some(self._index[g])[0] != some(self._process_identifier))))",
    ]
    U.interfere("TextFileStorage", when="self._storage_lock.depth == 0", modifies=shared, ensures=rely)
    unch = ("same(self._index, old(self._index)) and same(self._file_paths, old(self._file_paths)) and self._stored_cnt.value == old(self._stored_cnt.value)"
            " and self._waiting_for.value == old(self._waiting_for.value) and same(fs().lines, old(fs().lines))"
            " and same(fs().complete, old(fs().complete)) and same(fs().size, old(fs().size))")

    def env_effect(m):
        """what a caller sees of the shared state across a call: other processes may run (rely) iff the lock is free"""
        for r_ in rely[:5]:
            m.ensures("implies(old(self._storage_lock.depth) == 0, %s)" % r_)
        m.ensures("implies(old(self._storage_lock.depth) >= 1, %s)" % unch, "lock-held:shared-state-untouched")
    m = L.method("__enter__", {}, RefS("RLock"), trusted=True)
    m.modifies("self.depth")
    m.ensures("result == self and self.depth == old(self.depth) + 1")
    m = L.method("__exit__", {"a": ANY, "b": ANY, "c": ANY}, trusted=True)
    m.requires("self.depth >= 1")
    m.requires("implies(self.depth == 1, moninv(self.store))", "monitor-inv@release:readers-may-rely-on-it-as-soon-as-the-lock-is-free")
    m.modifies("self.depth")
    m.ensures("self.depth == old(self.depth) - 1")
    m.releases_lock = True

    m = C.method("__len__", {}, INT)
    m.ensures("result == self._stored_cnt.value")
    m.ensures("implies(self._storage_lock.depth == 0, result == cnt(self._index, len(self._index)))", "len=number-of-stored-ids")

    # open(): the FIRST open of a writer registers a new file (named after the number of files registered so far, under the lock) and
    # creates it with 'w'; every later open of the same writer APPENDS ('a').  No complete line of a registered file is lost either way:
    # the new name differs from every registered one (naming invariant + injectivity of str(int) / concatenation).
    U.define("wname", ["S", "i"], "S._path + '/' + S._file_prefix + '_' + istr(i)")
    m = C.method("open", {}, locals={"path": STR})
    m.at_call("after", "__enter__", ghost="g_n = len(self._file_paths)")
    m.at_call("after", "__enter__", ghost="g_idx1 = self._index")
    m.hint_exit("forall(i, 0, g_n, wname(self, i) != wname(self, g_n))", "the-new-name-differs-from-every-registered-one")
    m.hint_exit("forall(g, 0, len(g_idx1), implies(st(g_idx1, g), some(g_idx1[g])[0] < g_n))", "no-entry-under-the-new-identifier-when-it-was-assigned")
    m.hint_exit("forall(g, 0, len(self._index), implies(st(self._index, g), some(self._index[g])[0] != g_n))", "nor-afterwards")
    m.requires("self._storage_lock.depth == 0", "lock-not-held-by-the-caller")
    m.modifies("self._file", "self._process_identifier", "RLock.depth[*]", "FileSystem.exists[*]", *shared)
    m.ensures("implies(not self.reader_only, self._file != None)", "a-writer-has-its-file-open")
    m.ensures("implies(old(self._file) != None, self._file == old(self._file))")
    m.ensures("self._storage_lock.depth == 0")
    for r_ in rely[:4]:
        m.ensures(r_)
    m.ensures("implies(not is_none(old(self._process_identifier)), self._process_identifier == old(self._process_identifier)"
              " and fs().size[%s] == old(fs().size)[%s] and same(fs().complete[%s], old(fs().complete)[%s])"
              " and same(fs().lines[%s], old(fs().lines)[%s]))" % ((own,) * 6), "re-opening-appends:the-writer's-own-file-keeps-every-line")

    # close(): the writer handle and every reader handle of this object are closed and forgotten; nothing shared is touched
    m = C.method("close", {}, locals={"f": RefS("FHandle")})
    m.modifies("self._file", "self._opened_files_for_reading", "FHandle.closed[*]", *shared)
    lp = m.loop(1)
    lp.invariant("same(self._opened_files_for_reading, old(self._opened_files_for_reading)) and self._file == None"
                 " and self._storage_lock.depth == old(self._storage_lock.depth)")
    lp.invariant("forall(t, 0, _i1, implies(_seq1[t] != None, _seq1[t].closed))")
    lp.invariant("implies(old(self._file) != None, old(self._file).closed)")
    lp.invariant("implies(old(self._storage_lock.depth) >= 1, %s)" % unch)
    m.ensures("self._file == None and len(self._opened_files_for_reading) == 0", "no-handle-kept")
    m.ensures("implies(old(self._file) != None, old(self._file).closed)", "writer-handle-closed")
    m.ensures("forall(t, 0, len(old(self._opened_files_for_reading)), implies(old(self._opened_files_for_reading)[t] != None,"
              " old(self._opened_files_for_reading)[t].closed))", "every-reader-handle-closed")
    m.ensures("self._storage_lock.depth == old(self._storage_lock.depth)")
    env_effect(m)

    idx = "self._index"
    L_ = "len(self._index)"
    m = C.method("__setitem__", {"global_identifier": INT, "data": STR})
    m.requires("global_identifier >= 0 and clean(data) and not self.reader_only and self._storage_lock.depth == 0",
               "ids>=0,single-line-text,a-writer,lock-not-held-by-the-caller")
    m.raises("ValueError", when="True", iff=False, ensures=["st(self._index, global_identifier)"])
    m.modifies("self._file", "self._process_identifier", "RLock.depth[*]", "FileSystem.exists[*]", *shared)
    m.at_call("after", "__enter__", ghost="g_idx0 = self._index")
    m.at_call("after", "__enter__", ghost="g_cnt0 = self._stored_cnt.value")
    m.at_call("after", "__enter__", ghost="g_w0 = self._waiting_for.value")
    # on every release: the index may have been padded with None (count unchanged) and one entry set (count + 1)
    m.at_call("before", "__exit__", use="lemma_inst('cnt_beyond_len', g_idx0, len(self._index))")
    m.at_call("before", "__exit__", use="lemma_inst('cnt_agree', g_idx0, self._index, len(self._index))")
    m.at_call("before", "__exit__", use="lemma_inst('cnt_one_more', g_idx0, self._index, global_identifier, len(self._index))")
    m.at_call("before", "__exit__", use="lemma_inst('cnt_full_prefix', self._index, self._waiting_for.value)")
    m.at_call("before", "__exit__", use="lemma_inst('cnt_monotone', self._index, self._waiting_for.value, len(self._index))")
    m.at_call("before", "__exit__", use="lemma_inst('cnt_tail_empty', self._index, self._waiting_for.value, len(self._index))")
    m.at_call("before", "__exit__", use="lemma_inst('cnt_bounds', self._index, len(self._index))")
    lp = m.loop(1)
    lp.invariant("self._storage_lock.depth == 1 and self._stored_cnt.value == g_cnt0 + 1 and same(self._index, old_idx(self))" if False else
                 "self._storage_lock.depth == 1 and self._stored_cnt.value == g_cnt0 + 1")
    lp.invariant("g_w0 == global_identifier and global_identifier < self._waiting_for.value and self._waiting_for.value <= len(self._index)")
    lp.invariant("forall(h, 0, self._waiting_for.value, st(self._index, h))")
    lp.invariant("self._stored_cnt.value == cnt(self._index, len(self._index))")
    lp.decreases("len(self._index) - self._waiting_for.value")
    for u_ in ("lemma_inst('cnt_beyond_len', g_idx0, len(self._index))", "lemma_inst('cnt_agree', g_idx0, self._index, len(self._index))",
               "lemma_inst('cnt_one_more', g_idx0, self._index, global_identifier, len(self._index))",
               "lemma_inst('cnt_bounds', self._index, len(self._index))"):
        lp.use_at_init(u_)
    lp.use_at_end("lemma_inst('cnt_bounds', self._index, len(self._index))")
    m.ensures("st(self._index, global_identifier) and text_of(self, global_identifier) == data", "stored:a-later-read-of-this-id-returns-exactly-this-text")
    m.ensures("self._storage_lock.depth == 0")

    m = C.method("_is_file_open_for_read", {"process_identifier": INT}, BOOL, inv_pre=True, inv_post=True)
    m.requires("process_identifier >= 0")
    m.ensures("result == (process_identifier < len(self._opened_files_for_reading) and self._opened_files_for_reading[process_identifier] != None)")
    m = C.method("_open_file_for_read", {"process_identifier": INT}, inv_pre=True, inv_post=True)
    m.requires("0 <= process_identifier and process_identifier < len(self._file_paths)")
    m.modifies("self._opened_files_for_reading", "FileSystem.size[*]", "FileSystem.complete[*]", "FileSystem.exists[*]", *shared)
    m.ensures("process_identifier < len(self._opened_files_for_reading) and self._opened_files_for_reading[process_identifier] != None")
    m.ensures("self._storage_lock.depth == old(self._storage_lock.depth)")
    env_effect(m)

    m = C.method("__getitem__", {"global_identifier": INT}, STR)
    m.requires("global_identifier >= 0")
    m.requires("implies(self._storage_lock.depth >= 1, moninv(self))", "a-caller-holding-the-lock-kept-the-monitor-invariant")
    # other processes may have stored in the meantime (environment step at the lock): the state is NOT promised unchanged on these exits
    m.raises("IndexError", when="self._storage_lock.depth >= 1 and not st(self._index, global_identifier)",
             ensures=["self._storage_lock.depth == old(self._storage_lock.depth)",
                      "implies(old(self._storage_lock.depth) >= 1, %s)" % unch,
                      "implies(old(self._storage_lock.depth) >= 1, same(self._opened_files_for_reading, old(self._opened_files_for_reading)))"])
    m.raises("IndexError", when="self._storage_lock.depth == 0", iff=False, ensures=["self._storage_lock.depth == old(self._storage_lock.depth)"])
    m.modifies("self._opened_files_for_reading", "RLock.depth[*]", "FHandle.pos[*]", "FileSystem.exists[*]", *shared)
    m.ensures("self._storage_lock.depth == old(self._storage_lock.depth)")
    m.ensures("st(self._index, global_identifier) and result == text_of(self, global_identifier)",
              "returns-exactly-the-text-stored-under-the-id(never-empty-partial-or-another-id's)")
    m.ensures("implies(old(self._storage_lock.depth) >= 1, %s)" % unch, "lock-held:shared-state-untouched")

    m = C.method("is_contiguous", {}, BOOL)
    m.requires("self._storage_lock.depth == 0")
    n_ = "self._stored_cnt.value"
    m.use_exit("lemma_inst('cnt_full_prefix', self._index, self._waiting_for.value)")
    m.use_exit("lemma_inst('cnt_full_prefix', self._index, self._stored_cnt.value)")
    m.use_exit("lemma_inst('cnt_monotone', self._index, self._waiting_for.value, len(self._index))")
    m.use_exit("lemma_inst('cnt_monotone', self._index, self._stored_cnt.value, len(self._index))")
    m.use_exit("lemma_inst('cnt_tail_empty', self._index, self._stored_cnt.value, len(self._index))")
    m.use_exit("lemma_inst('cnt_tail_empty', self._index, self._waiting_for.value, len(self._index))")
    m.use_exit("lemma_inst('cnt_bounds', self._index, len(self._index))")
    m.use_exit("lemma_inst('cnt_bounds', self._index, self._waiting_for.value)")
    m.ensures("result == forall(h, 0, %s, st(self._index, h))" % n_, "True<=>the-stored-ids-are-exactly-0..len-1")

    m = C.method("flush", {})
    m.quiescent = True        # documented precondition: closed in all processes, nobody else uses the storage while it is flushed
    m.requires("self._storage_lock.depth == 0")
    m.requires("self._file == None and len(self._opened_files_for_reading) == 0", "storage-closed-before-flush(documented-precondition)")
    m.requires("forall(i, 0, len(self._file_paths), fs().exists[self._file_paths[i]])", "every-registered-storage-file-exists")
    m.modifies("self._process_identifier", "RLock.depth[*]", "FileSystem.exists[*]", *shared)
    m.requires("forall(i, 0, len(self._file_paths), forall(j, i + 1, len(self._file_paths), self._file_paths[i] != self._file_paths[j]))",
               "storage-files-distinct")
    lp = m.loop(1)
    lp.invariant("self._storage_lock.depth == 1 and _seq1 == self._file_paths and forall(t, 0, _i1, not fs().exists[_seq1[t]])")
    lp.invariant("forall(t, _i1, len(_seq1), fs().exists[_seq1[t]])")
    lp.invariant("same(self._file_paths, old_paths(self))" if False else "len(self._file_paths) == len(_seq1)")
    m.at_call("before", "__exit__", use="unfold('cnt', self._index, 0)")
    m.ensures("len(self._index) == 0 and self._stored_cnt.value == 0 and self._waiting_for.value == 0 and len(self._file_paths) == 0",
              "storage-reset")
    m.ensures("self._storage_lock.depth == 0")

    # __iter__: holds the lock for the whole iteration, yields the texts of the stored ids in ascending id order, skipping gaps
    m = C.method("__iter__", {}, yields=STR, locals={"i": INT})
    m.requires("self._storage_lock.depth == 0", "lock-not-held-by-the-caller")
    m.modifies("self._opened_files_for_reading", "RLock.depth[*]", "FHandle.pos[*]", "FileSystem.exists[*]", *shared)
    m.at_call("after", "__enter__", ghost="g_idx0 = self._index")
    m.at_call("after", "__enter__", ghost="g_paths0 = self._file_paths")
    m.at_call("after", "__enter__", ghost="g_lines0 = fs().lines")
    m.ghost_entry("g_src = lam(i, 0)")
    m.ghost_entry("g_dst = lam(i, 0)")
    m.ghost_entry("g_len0 = 0")
    m.ghost_entry("g_idx0 = self._index")
    m.ghost_entry("g_paths0 = self._file_paths")
    m.ghost_entry("g_lines0 = fs().lines")
    lp = m.loop(1)
    lp.invariant("self._storage_lock.depth == 1 and moninv(self) and same(self._index, g_idx0) and same(self._file_paths, g_paths0)"
                 " and same(fs().lines, g_lines0) and len(_seq1) == len(self._index) and forall(t, 0, len(_seq1), _seq1[t] == t, trigger=_seq1[t])",
                 "lock-held-for-the-whole-iteration:shared-state-frozen")
    lp.invariant("forall(k, 0, len(yielded), 0 <= g_src[k] and g_src[k] < _i1 and st(self._index, g_src[k]) and g_dst[g_src[k]] == k"
                 " and yielded[k] == text_of(self, g_src[k]), trigger=yielded[k])", "every-yielded-text-is-the-text-stored-under-some-id")
    lp.invariant("forall(k, 0, len(yielded), forall(k2, k + 1, len(yielded), g_src[k] < g_src[k2]))", "ascending-id-order,each-id-once")
    lp.invariant("forall(p, 0, _i1, implies(st(self._index, p), 0 <= g_dst[p] and g_dst[p] < len(yielded) and g_src[g_dst[p]] == p))",
                 "no-stored-id-below-the-cursor-was-skipped")
    lp.ghost_at_begin("g_len0 = len(yielded)")
    lp.ghost_at_end("g_src = ite(len(yielded) > g_len0, aset(g_src, len(yielded) - 1, _i1 - 1), g_src)")
    lp.ghost_at_end("g_dst = ite(len(yielded) > g_len0, aset(g_dst, _i1 - 1, len(yielded) - 1), g_dst)")
    m.witness("src", ArrS(INT, INT), bound_to="g_src")
    m.ensures("self._storage_lock.depth == 0", "lock-released-at-the-end")
    m.ensures("forall(k, 0, len(yielded), 0 <= src[k] and src[k] < len(self._index) and st(self._index, src[k])"
              " and yielded[k] == text_of(self, src[k]), trigger=yielded[k])", "yields-only-stored-texts")
    m.ensures("forall(k, 0, len(yielded), forall(k2, k + 1, len(yielded), src[k] < src[k2]))", "in-ascending-id-order,each-once")
    m.witness("dst", ArrS(INT, INT), bound_to="g_dst")
    m.witness("idx0", IDX, bound_to="g_idx0")           # the index as it was while the lock was held (other processes may store afterwards)
    m.ensures("forall(p, 0, len(idx0), implies(st(idx0, p), 0 <= dst[p] and dst[p] < len(yielded) and src[dst[p]] == p))",
              "every-id-stored-when-the-lock-was-taken-is-yielded(gaps-skipped)")
    m.ensures("len(idx0) >= len(old(self._index)) and forall(p, 0, len(old(self._index)), implies(st(old(self._index), p), st(idx0, p)))",
              "in-particular-every-id-stored-before-the-call")

    for f in ("__len__", "open", "close", "__setitem__", "_is_file_open_for_read", "_open_file_for_read", "__getitem__", "is_contiguous", "flush", "__iter__"):
        U.verify("TextFileStorage", f)
    U.assume("multiprocessing primitives (DESIGN §4): the RLock gives mutual exclusion and is re-entrant; manager list / Value behave as their "
             "local counterparts while the lock is held; print(..., flush=True) appends one complete line; files are append-only")
    U.assume("ids >= 0; texts are single lines without a trailing carriage return; one writer file per process")
    U.assume("string facts used for the writer's file name (axioms): str(int) is injective and a common prefix cancels; a writer's process "
             "identifier is its own (no other process records entries under it: one writer file per process); during an iteration the consumer "
             "of __iter__ does not modify the storage from the same thread (the re-entrant lock would let it)")
    return U
