"""Which verification units and which bounded module decide which property."""
PROPS = {
    "C15": {
        "units": ["contracts.c15_circular", "contracts.c15_buffers"],
        "bounded": True,
        "level": "proof",
        "trusted_base": ["pyvc VC generator (/verif/pyvc)", "z3 4.x/5.x", "Python semantics as listed in DESIGN.md §2.3",
                         "dict / list builtins as finite map / sequence"],
        "explanation": "",
        "level_text": "Every method of Buffer, PrintBuffer and CircularBuffer (and the stdlib Sequence.__iter__ mixin that list(ring) uses) is verified "
                      "against a ghost history (fed map / put history): class invariants + per-operation postconditions, unbounded in the number of "
                      "operations, serial numbers, capacities. 'For all arrival orders and drain points' follows by induction over the operation history.",
        "level_note": "Trusted: the pyvc VC generator and its Python semantics (DESIGN §2.3), z3; dict/list/sorted/print as finite map / sequence / stable "
                      "sort / append-to-stream (DESIGN §4). A drain = full consumption of the iterator. Bounded layer (permutations n<=5/6) is a stand-in "
                      "for replay only.",
    },
}

# properties not claimed, with the reason (everything else not in PROPS gets the generic "not built yet" reason)
NOT_APPLICABLE = {}
