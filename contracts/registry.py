"""Which verification units and which bounded module decide which property."""
PROPS = {
    "C15": {
        "units": ["contracts.c15_circular", "contracts.c15_buffers"],
        "bounded": True,
        "level": "proof",
        "trusted_base": ["pyvc VC generator (/verif/pyvc)", "z3 4.x/5.x", "Python semantics as listed in DESIGN.md §2.3",
                         "dict / list builtins as finite map / sequence"],
        "explanation": "",
        "level_text": "Every method of Buffer, PrintBuffer and CircularBuffer (and the stdlib Sequence.__iter__ mixin that list(ring) uses) is verified "
                      "against a ghost history (fed map / put history): class invariants + per-operation postconditions, unbounded in the number of "
                      "operations, serial numbers, capacities. 'For all arrival orders and drain points' follows by induction over the operation history.",
        "level_note": "Trusted: the pyvc VC generator and its Python semantics (DESIGN §2.3), z3; dict/list/sorted/print as finite map / sequence / stable "
                      "sort / append-to-stream (DESIGN §4). A drain = full consumption of the iterator. Bounded layer (permutations n<=5/6) is a stand-in "
                      "for replay only.",
    },
}
PROPS["C08"] = {
    "units": ["contracts.c08_lists"],
    "bounded": True,
    "level": "proof",
    "trusted_base": ["pyvc VC generator (/verif/pyvc)", "z3", "Python semantics as listed in DESIGN.md §2.3 (heap as field arrays, "
                     "dataclass __init__/__eq__ generated from the decorator)"],
    "level_text": "All 15 methods of DoublyLinkedList are verified in a field-array heap model against a ghost node sequence s (identities) with "
                  "inverse index pos: the class invariant (head/tail/end links, elements distinct and non-null, prev/next mutually consistent, "
                  "size == |s|) is preserved by every mutator and each mutator's s' equals the reference sequence operation; traversal yields s. "
                  "Unbounded in list length and history; payloads are uninterpreted (identity-only), dataclass == is unfolded one level and "
                  "must be decided by identity or a None/non-None link pair (structural-eq-bounded).",
    "level_note": "Trusted: pyvc and its Python semantics, z3. Node arguments are required to belong to the list (precondition). Iterable arguments "
                  "are finite sequences evaluated once. Bounded layer (histories <= 5/6 ops, equal and distinct payloads, 3000-equal-payload run) "
                  "is a stand-in for replay only.",
}
PROPS["C06"] = {
    "units": ["contracts.c06_lru", "contracts.c08_lists"],
    "bounded": True,
    "level": "proof",
    "trusted_base": ["pyvc VC generator (/verif/pyvc)", "z3", "Python semantics as listed in DESIGN.md §2.3",
                     "dict as a finite map (DESIGN §4)", "DoublyLinkedList contracts (proved in C08 for an uninterpreted payload)"],
    "level_text": "LRUCache's five primitives are verified against the abstract view M = (key,value) pairs along the recency list with the "
                  "dict<->list coupling invariant (same keys, each key mapped to its node, size <= max_size): lookup/store/delete are the "
                  "ordered-dict-with-move-to-front reference operations, and storing a new key into a full cache drops exactly the last "
                  "entry. The stdlib mixins get/__contains__/keys/values/items/pop/popitem/clear/setdefault and the view iterators are "
                  "verified from the running interpreter's _collections_abc.py through those contracts, with termination (decreases / "
                  "finite snapshot) and the iterator-stability frame condition that the original values()/items() violated.",
    "level_note": "Trusted: pyvc, z3, dict semantics. Mapping.__eq__ is covered by the bounded layer only "
                  "(dict() construction from an items view is outside the engine); its termination rests on ItemsView.__iter__, which is proved. "
                  "MutableMapping.update(pairs) is proved to terminate, keep the invariant (capacity), store the last pair and invent no key; which "
                  "earlier entries survive (the fold of the store contract) is enumerated by the bounded layer.",
}
PROPS["C07"] = {
    "units": ["contracts.c07_lfu", "contracts.c08_lists"],
    "bounded": True,
    "level": "proof",
    "trusted_base": ["pyvc VC generator (/verif/pyvc)", "z3", "Python semantics as listed in DESIGN.md §2.3",
                     "dict as a finite map (DESIGN §4)", "DoublyLinkedList contracts (proved in C08 for an uninterpreted payload)"],
    "level_text": "LFUCache's primitives and _inc_freq are verified against the view key -> (value, use count) with the coupling invariant and "
                  "the order invariant 'use counts >= 1 and non-decreasing along the list' (global form): a store replaces the value and counts "
                  "as a use, a successful lookup counts as a use, a new key gets count 1, and when a new key is stored into a full cache the "
                  "single key removed is the list head, whose count is minimal by the invariant. _inc_freq's loop invariant shows the moved "
                  "node lands behind exactly the entries with a smaller count. Stdlib mixins and view iterators as for C06.",
    "level_note": "Trusted: pyvc, z3, dict semantics. Mapping.__eq__ is covered by the bounded layer only; MutableMapping.update as for C06.",
}
PROPS["C09"] = {
    "units": ["contracts.c09_sorted", "contracts.c09_sorted:unit_map", "contracts.c09_sorted:unit_map_pairs",
              "contracts.c09_sorted:unit_map_update", "contracts.c09_sorted:unit_map_update_dict",
              "contracts.c09_sorted:unit_foreign", "contracts.c19_generic:unit_arg_sort"],
    "bounded": True,
    "level": "proof",
    "trusted_base": ["pyvc VC generator (/verif/pyvc)", "z3", "Python semantics as listed in DESIGN.md §2.3",
                     "library contracts (DESIGN §4): bisect.bisect_left, sorted (stable), dict(pairs) (last pair wins), list insert/del"],
    "level_text": "SortedSet and SortedMap are verified against the set / dict of their keys (SMT reals): storage strictly ascending is a class "
                  "invariant; insertions_index is the bisect_left point with flag <=> present; add/discard/remove/pop and "
                  "store/delete/lookup/get/in/pop/setdefault are the builtin set / dict operations on the view; the constructors give "
                  "set(init) / dict(init) for every finite initialiser (empty, unsorted, repeated keys - later pairs win); foreign-typed "
                  "probes report absent (False / KeyError) with no write to the structure (separate unit with a foreign key sort).",
    "level_note": "Trusted: pyvc, z3, the library contracts named in trusted_base; numeric keys are SMT reals (no NaN). MutableMapping."
                  "update(pairs) / update(dict) (dict.update: last pair of a key wins, other entries kept, nothing else added), popitem and clear are "
                  "verified from the stdlib source; update(**kwds) is excluded (string keys); the mapping views over SortedMap are covered by the bounded layer only.",
}
PROPS["C19"] = {
    "units": ["contracts.c19_generic:unit_arg_sort", "contracts.c19_generic:unit_subseq", "contracts.c19_generic:unit_batcher",
              "contracts.c19_generic:unit_compare"],
    "bounded": True,
    "level": "other",
    "trusted_base": ["pyvc VC generator (/verif/pyvc)", "z3", "Python semantics as listed in DESIGN.md §2.3", "sorted() library contract"],
    "explanation": "Deductive (unbounded) for arg_sort, sub_seq, search_sub_seq, Batcher (len / batch i), BatcherIter on a single iterable; "
                   "compare_pos_in_iterables = multiset equality (result <=> every value occurs equally often; the counting function and its five lemmas - bounds, absence, presence, monotonicity, deletion of one position - proved by induction); roman numerals by exhaustive "
                   "enumeration of the finite domain 1..3999 on the real code; BatcherIter with tuple inputs bounded only. "
                   "The bounded parts are reported under coverage.bounded and are not counted as proved.",
    "level_text": "Proof for the sequence helpers that are functions of unbounded inputs (arg_sort = the stable sorting permutation incl. reverse; "
                  "sub_seq / search_sub_seq = exactly the contiguous occurrences, overlapping ones included; Batcher: len = ceil(n/bs), batch i = "
                  "data[i*bs:(i+1)*bs] non-empty; BatcherIter: consecutive non-empty batches whose concatenation is the input, all full but the last); "
                  "exhaustive evaluation for the roman numerals (finite domain); bounded lock-step check for tuple batching.",
    "level_note": "Trusted: pyvc, z3, sorted(). Roman numerals: enumeration of 1..3999 (complete for the stated domain, not a VC).",
}
PROPS["C10"] = {
    "units": ["contracts.c10_spanset", "contracts.c10_spanset:unit_ops", "contracts.c10_spanset:unit_relations"],
    "bounded": True,
    "level": "proof",
    "trusted_base": ["pyvc VC generator (/verif/pyvc)", "z3", "Python semantics as listed in DESIGN.md §2.3",
                     "library contracts: itertools.chain = concatenation, filtered generator expression = order-preserving filter, zip, enumerate, all"],
    "level_text": "Every obligation is discharged for an UNINTERPRETED relation per set, so all 4x4 combinations of Exact / PartOf / Includes / "
                  "Overlaps (and any other relation) are covered at once: the constructors keep a span iff it is not already a member of the set "
                  "built so far (ghost provenance functions, both constructor forms, nested de-duplication loops with invariants); `in` is the "
                  "existential scan; <=, <, ==, !=, >=, >, issubset, issuperset, isdisjoint are literally the quantified membership statements; "
                  "A&B, A|B, A-B, A^B: result has the exact relation, every result span is a span of A or B satisfying the membership "
                  "formula, every such span of A and of B occurs, no span twice. The four shipped relations equal their definitions over reals.",
    "level_note": "Trusted: pyvc, z3, the library contracts named in trusted_base; span bounds are SMT reals (no NaN). copy() not under contract.",
}
PROPS["C16"] = {
    "units": ["contracts.c16_intervalmap", "contracts.c10_spanset", "contracts.c10_spanset:unit_relations"],
    "bounded": True,
    "level": "proof",
    "trusted_base": ["pyvc VC generator (/verif/pyvc)", "z3", "Python semantics as listed in DESIGN.md §2.3",
                     "library contracts: bisect.bisect_left, sorted (stable), dict.items()"],
    "level_text": "ImmutIntervalMap.__init__ is verified to raise KeyError exactly when some interval has start > end or two intervals share a "
                  "point (through SpanSet.__init__'s contract with the Overlaps relation, itself verified, and the same-length<=>nothing-"
                  "dropped lemma), and otherwise to establish the invariant (parallel arrays, start<=end, pairwise disjoint, sorted-ends "
                  "permutation with inverse, ends ascending). Lookup: from the bisect_left contract and disjointness the result is the "
                  "value of the unique interval containing the key, KeyError iff there is none - boundary cases are instances; `in` agrees; "
                  "len; iteration lists (interval, value) in ascending order.",
    "level_note": "Trusted: pyvc, z3, the library contracts named; keys and bounds are SMT reals (no NaN).",
}
PROPS["C17"] = {
    "units": ["contracts.c17_combinations", "contracts.c17_combinations:unit_stream"],
    "bounded": True,
    "level": "other",
    "trusted_base": ["pyvc VC generator (/verif/pyvc)", "z3", "Python semantics as listed in DESIGN.md §2.3",
                     "heapq (trusted): heapify / heappush / heappop keep the entries (rearranged), heappop returns an entry with the smallest key "
                     "(tuple order is lexicographic)",
                     "ASSUMED: completeness / exactly-once of the stream of sorted_combinations and termination of its while loop - bounded only"],
    "explanation": "Deductive (unbounded): (1) min_combinations_in_interval_iter_sorted against the stream contract of sorted_combinations - loop "
                   "invariant over the consumed prefix, soundness of both early exits, result = exactly the stream combinations with the "
                   "smallest sum in [i_start, i_end), [] iff none; (2) sorted_combinations itself, for every key that never decreases when an "
                   "element is appended: heap-order invariant (everything still in the heap has a key not smaller than the last yielded one; "
                   "every pushed extension has a key not smaller than its parent's), hence keys are yielded in non-decreasing order, each "
                   "with its key alongside, each combination non-empty and made of input elements. Bounded only (never counted as proved): "
                   "that the stream contains EVERY non-empty combination exactly once, as index-ordered tuples (a set-of-index-tuples "
                   "induction that SMT does not carry) and that the generator terminates; checked exhaustively for <= 6/7 elements against "
                   "itertools.",
    "level_text": "Proof of the interval search and of the ordering half of the stream contract; exhaustive bounded check (n <= 6/7, scores 0..3, "
                  "five monotone keys) for completeness / exactly-once.",
    "level_note": "Completeness of the combination stream is an ASSUMED callee contract, bounded-checked only (DESIGN §6 C17, §9).",
}
PROPS["C20"] = {
    "units": ["contracts.c20_pools"],
    "bounded": True,
    "level": "proof",
    "trusted_base": ["pyvc VC generator (/verif/pyvc)", "z3", "Python semantics as listed in DESIGN.md §2.3",
                     "environment contracts (DESIGN §4): ghost file system, tempfile.NamedTemporaryFile (never-returned-before path), os.remove, "
                     "multiprocessing.Manager / manager list as a shared local list, file handle close()", "builtin open(path, mode) returns a new open handle or raises"],
    "level_text": "TmpPool: create returns a path that was never handed out before and exists, appended to the pool (listed paths stay distinct); "
                  "remove(p) leaves p absent and unlisted on both paths (also when the file had already been deleted) and touches no other file; "
                  "flush (loop invariant: processed prefix absent, nothing else touched) leaves none of the listed files and an empty pool; "
                  "__exit__ establishes flush's postcondition for EVERY value of (exc_type, exc_val, exc_tb). FilePool: close and __exit__ (for "
                  "every exception triple) leave every handle of the pool closed; accessors raise RuntimeError iff the pool is not open.",
    "level_note": "Trusted: pyvc, z3 and the environment contracts above; that __exit__ runs however the with-body is left is the language "
                  "guarantee. FilePool.open (the dict comprehension over open() executed as the loop it abbreviates): every given path is mapped to a new open handle and no other path. TmpPool.__enter__ forgets no file created before the context was entered. Multi-process pools (manager list shared with children) are covered by the bounded layer only.",
}
PROPS["C11"] = {
    "units": ["contracts.c11_linefiles", "contracts.c11_linefiles:unit_mmap"],
    "bounded": True,
    "level": "other",
    "trusted_base": ["pyvc VC generator (/verif/pyvc)", "z3", "Python semantics as listed in DESIGN.md §2.3",
                     "file model at line granularity (DESIGN §4): open / readline / seek / tell / mmap / rstrip / decode, os.getpid"],
    "explanation": "Deductive (unbounded in file content and index): for RandomLineAccessFile and MemoryMappedRandomLineAccessFile - _index_file builds "
                   "exactly the line starts (len = number of lines incl. an unterminated last line, empty file = 0), a caller-supplied index of "
                   "line starts (subset / permutation) is honoured, f[i] (positive and negative int) is the i-th line of the index without its "
                   "terminator, iteration yields the same sequence as indexing even when the shared cursor is moved arbitrarily at every yield "
                   "(interleaved random accesses / second iteration), and both variants have the same postconditions (hence agree). "
                   "f[sequence of indices] returns the selected lines in the order of the indices (the list comprehension over the stateful _get_item is executed as the loop it abbreviates, under its own comprehension contract; second typing of the selector parameter). Bounded only: slice selectors, the index-file constructor, the "
                   "mutable and record subclasses while unmodified, long lines / multi-byte UTF-8 at byte level (the env model is at line level).",
    "level_text": "Proof over a line-level file model for the two read-only classes; bounded enumeration of small contents x classes x index "
                  "sources x interleavings for the rest.",
    "level_note": "The file model (readline at a line start returns that line; text mode newline='\\n' and binary/mmap split on \\n only) is an assumed "
                  "environment contract, conformance-tested by the bounded layer on real files.",
}
PROPS["C18"] = {
    "units": ["contracts.c11_linefiles", "contracts.c11_linefiles:unit_mmap", "contracts.c11_linefiles:unit_mapaccess"],
    "bounded": True,
    "level": "proof",
    "trusted_base": ["pyvc VC generator (/verif/pyvc)", "z3", "file / process environment contracts (DESIGN §4): a handle's owner is the pid that "
                     "opened it, os.getpid() constant within a call, every open() yields its own open file description, fork shares descriptions "
                     "opened before it"],
    "level_text": "For an ARBITRARY current pid and an object state possibly inherited from another process, every seek / readline on the file or "
                  "mmap handle of RandomLineAccessFile, MemoryMappedRandomLineAccessFile and MapAccessFile is proved to happen on a handle whose "
                  "owner is the current process (obligation owner@call at each use; class invariant: pid recorded iff open, handle owned by the "
                  "recorded pid; reopen_if_needed re-establishes ownership). With every process reading through a description it opened itself, "
                  "no read position is shared, so schedule independence is the OS assumption, not a VC.",
    "level_note": "Ownership is proved; that distinct open file descriptions do not interfere is the environment assumption. Stress runs with "
                  "forked children (bounded layer) are a stand-in only.",
}
PROPS["C12"] = {
    "units": ["contracts.c12_mutable", "contracts.c12_mutable:unit_mmap"],
    "bounded": True,
    "level": "other",
    "trusted_base": ["pyvc VC generator (/verif/pyvc)", "z3", "Python semantics as listed in DESIGN.md §2.3", "builtin list semantics for _lines",
                     "file model at line granularity and print-to-stream (DESIGN §4)"],
    "explanation": "Deductive (unbounded in content and edit history, by induction over the history): for MutableRandomLineAccessFile and "
                   "MutableMemoryMappedRandomLineAccessFile the primitives __setitem__ / __delitem__ / insert / __getitem__ (int) are the list "
                   "operations on the view V (in-memory text or the file's line), with IndexError ranges and unchanged view on failure, dirty "
                   "after every change and False after construction; the stdlib mixins append / pop / extend / += / index / remove / reverse "
                   "/ clear are verified from the real _collections_abc source through those contracts (index = first occurrence, remove "
                   "deletes exactly it, reverse = the reversed view, clear empties the list); iteration equals indexing; _save_from_iter hands exactly "
                   "strip_nl(V[i]) + line_ending per line, in order, to a freshly opened and finally closed output stream; no mutator has the "
                   "file system in its frame (source untouched). `x in f` (Sequence.__contains__ through __iter__) is membership in the list view. Bounded only: slices / count, the record "
                   "variants, byte-exactness of the saved file and 'reopening gives the same list'.",
    "level_text": "Proof of the list refinement for the two plain mutable variants over the line-level file model; bounded histories (<= 3/4 ops x 4 "
                  "variants, save + reopen, source bytes) for the rest.",
    "level_note": "Content without line breaks is a precondition. The file / stream model is an assumed environment contract.",
}
PROPS["C14"] = {
    "units": ["contracts.c14_storage"],
    "bounded": True,
    "level": "proof",
    "trusted_base": ["pyvc VC generator (/verif/pyvc)", "z3", "Python semantics as listed in DESIGN.md §2.3",
                     "environment contracts (DESIGN §4): re-entrant RLock = mutual exclusion, manager list / Value as local values under the lock, "
                     "print(flush=True) appends one complete line, readline at the offset of a complete line returns it, files append-only",
                     "string facts for the writer's file name (axioms: str(int) injective, a common prefix cancels); a writer's identifier is its own (rely)"],
    "level_text": "Thread-modular (monitor) proof: the monitor invariant - stored count = number of index entries (counting function with seven "
                  "lemmas proved by induction), _waiting_for = smallest id not stored, and K: every stored id's line is COMPLETE in its writer's "
                  "file at the recorded offset - is required at every outermost lock release (monitor-inv@release), re-assumed together with "
                  "the rely (entries only added, files only appended, own file untouched by others) at every environment call made while the "
                  "lock is free, i.e. for every interleaving at lock / IO granularity. __setitem__: ValueError only if the id is stored, else "
                  "a later read returns exactly the text; __getitem__: returns exactly the stored text (pair read under the lock is stable "
                  "under the rely) or IndexError; _index is only accessed under the lock (guarded-access); len; is_contiguous <=> ids are "
                  "0..len-1; flush resets everything (quiescent precondition).",
    "level_note": "Ids >= 0, single-line texts, one writer file per process. Attribute reads of the two shared counters are atomic snapshots. "
                  "__iter__ (generator holding the lock across yields): yields exactly the texts of the ids stored when the lock was taken, in ascending id order, each once, gaps skipped, and releases the lock; open (first open registers and creates a NEW file name under the lock - different from every registered name by the naming invariant; every later open appends; no complete line of a registered file is lost) and close (every handle of the object closed) are verified too; also exercised by the bounded layer.",
}
PROPS["C05"] = {
    "units": ["contracts.c05_functormap", "contracts.c05_mulpmap", "contracts.c05_workers", "contracts.c15_buffers"],
    "bounded": True,
    "level": "other",
    "trusted_base": ["pyvc VC generator (/verif/pyvc)", "z3", "Python semantics as listed in DESIGN.md §2.3",
                     "demonic queue environment (DESIGN §5.1): queues deliver every item exactly once, in any order, at any time",
                     "Buffer contracts (proved in C15)"],
    "explanation": "Deductive (unbounded, for EVERY arrival order / timing / worker count): FunctorMap.__call__ - all seven loops carry invariants "
                   "over the ghost channel (sent / received indices) and the reorder Buffer; the index attached to each work item is the next "
                   "one (pre@put), each blocking get is entered only while a sent item is unreceived (owed@get), the output is exactly "
                   "[f(x) for x in data] in input order, and at exit nothing is in flight (repeated calls independent); the nested chunking "
                   "generator cuts the input into consecutive non-empty chunks. mul_p_map (all six loops, class-level queues as the two ends "
                   "of the channel): the index attached to item d is its position, exactly one stop token per worker, blocking gets only "
                   "while a result is owed, every worker joined and only AFTER every result was taken from the queue (owed@join), and the "
                   "returned list is [f(x) for x in data]: 'sorted by pairwise distinct indices 0..n-1 => position p holds index p' and "
                   "'every index was received' are lemmas proved by induction. Worker side: FunctorWorker.run and FunRunner.run turn every item (i, c) taken from the "
                   "work queue into exactly one result (i, [f(x) for x in c]), in order, and end exactly at the first stop token. Context: "
                   "FunctorMap.__init__ (two queues, one channel, distinct worker objects wired to them), __enter__ (every worker started "
                   "once), __exit__ (one stop token per worker; every worker joined, only when nothing is in flight). Bounded in addition: "
                   "real-process runs incl. results bigger than a pipe.",
    "level_text": "Proof of the consumer/producer loop of FunctorMap under the demonic queue environment; bounded real-process runs for the rest.",
    "level_note": "Liveness proper is not claimed: owed@get is the safety surrogate (never blocked on a result that will not come), worker "
                  "progress is an assumption.",
}
PROPS["C04"] = {
    "units": ["contracts.c04_worker", "contracts.c04_pool", "contracts.c03_factory"],
    "bounded": True,
    "level": "other",
    "trusted_base": ["pyvc VC generator (/verif/pyvc)", "z3", "Python semantics as listed in DESIGN.md §2.3",
                     "demonic work queue; result / replace queues record what is put; begin / end / functor abstract (begin and the functor may raise)"],
    "explanation": "Deductive (unbounded in the number of work items, for every arrival of items / stop token and for an exception raised by begin() "
                   "or by the functor at any item): BaseFunctorWorker.run - ghost event log = begin, one event per processed chunk, end: begin "
                   "exactly once and first, end exactly once and last on the normal AND on every exceptional exit (try/finally), begin_finished "
                   "set only after begin() returned, processed + remaining quota = initial quota (at most k chunks), the wid is posted on the "
                   "replace queue exactly when the quota is exhausted, and exactly one result (i, [f(x) for x in c]) is put per work item "
                   "(i, c) on either branch of the queue.Full handling. Pool side: FunctorPool.__enter__ starts every worker exactly once, "
                   "until_all_ready returns only after every worker's begin_finished is set, __exit__ sends one stop token per worker that is "
                   "still running when the context is left (workers may end at any moment: environment step), retries a put on a full queue "
                   "only while somebody is still running, and joins every worker that had not already exited (owed@join: a join is entered "
                   "only on a worker that retired, has ended, or after one stop token per running worker was sent), and the replace thread joins a retired worker BEFORE its slot is overwritten (no "
                   "started and unjoined worker ever leaves procs): no worker is left running, replaced workers included. Bounded in "
                   "addition: real-process scenarios.",
    "level_text": "Proof of the worker's run() against its lifecycle / quota / result contract; bounded real-process scenarios for the pool side.",
    "level_note": "end() is assumed not to raise; max_chunks_per_worker = math.inf (no quota) is the bounded layer's case.",
}

_POOL_TRUST = ["pyvc VC generator (/verif/pyvc)", "z3", "Python semantics as listed in DESIGN.md §2.3",
               "demonic queue environment (DESIGN §5.1): queues deliver every item exactly once, in any order, at any time (the pigeonhole "
               "facts of the channel model - received <= sent, all received when the counts agree - are lemmas proved by induction)",
               "rely/guarantee composition (DESIGN §5.2): consumer verified against the feeder's step R applied before every read of a shared "
               "flag and every environment call; feeder verified to establish J and R after every shared write; sequentially consistent "
               "attribute reads/writes (GIL)",
               "worker loop body contract (proved in C04), Buffer contracts (proved in C15)",
               "threading.Event / Thread.start / join, Lock as environment contracts"]
PROPS["C01"] = {
    "units": ["contracts.c01_ownpools", "contracts.c03_factory", "contracts.c04_worker", "contracts.c15_buffers"],
    "bounded": True,
    "level": "other",
    "trusted_base": _POOL_TRUST,
    "explanation": "Deductive (unbounded; for EVERY interleaving of consumer, feeder and workers, every arrival order, chunk size, queue bound): "
                   "rely/guarantee proof over the real code of FunctorPool.imap, imap_unordered, _get_results, SendWorkThread.__init__/run (with "
                   "its nested chunking generator) and CMThread. The protocol invariant J ties the two unlocked flags to the ghost channel: the "
                   "chunks sent so far are consecutive non-empty slices of the input and, once _sending_work is False, _data_cnt is the number "
                   "of chunks sent and they cover the input. The consumer is verified with the feeder's step applied before every read of "
                   "_sending_work / _data_cnt (stale, torn and reordered observations included): imap yields exactly [f(x) for x in data] in "
                   "order; imap_unordered yields the concatenation of the f-mapped chunks in arrival order, the arrival order being a proved "
                   "bijection on the chunk indices; at exit nothing is in flight. The feeder establishes J after every write and attaches the "
                   "next index to every work item; SendWorkThread.__init__ establishes J before the feeder thread exists (no flag of an earlier "
                   "call is ever visible). FactoryFunctorPool.imap/imap_unordered inherit the result through the base contract. The worker "
                   "half (one result (i,[f(x)..]) per item (i,c)) is the C04 unit. Bounded: real-process runs and the controlled scheduler.",
    "level_text": "Thread-modular (rely/guarantee) proof of consumer and feeder under the demonic queue environment; bounded real runs in addition.",
    "level_note": "Full consumption of the generator is assumed (abandoned generators are outside the property's quantifier); f pure and total.",
}
PROPS["C03"] = {
    "units": ["contracts.c03_factory", "contracts.c01_ownpools"],
    "bounded": True,
    "level": "other",
    "trusted_base": _POOL_TRUST + ["a retirement notice on the replace queue names a current, retired, not yet joined member of procs (environment)"],
    "explanation": "Deductive: (1) consecutive calls - imap / imap_unordered require only 'call-idle' (feeder done, every sent result consumed) and "
                   "re-establish it, the per-call state (flags, ghost channel, fresh Buffer) is reset by SendWorkThread.__init__ in the calling "
                   "thread, so any sequence of fully consumed calls is a sequence of independent C01 instances; (2) replacement - "
                   "ReplaceWorkerThread.run ends only by consuming exactly one stop token (none stays for the next call; stop() puts exactly one "
                   "per call), every retirement notice is answered by joining the retired worker BEFORE its slot is overwritten (no started and "
                   "unjoined worker ever leaves procs), the successor gets a fresh unique wid, the pool's queues and the replace queue, and is "
                   "started in the same slot: the number of workers is constant and every slot always holds a started worker; the RuntimeError "
                   "branch is unreachable because wids stay unique. Bounded: histories of calls on real pools incl. retirement exactly at the "
                   "end of a call.",
    "level_text": "Proof of the call-boundary contract and of the replace thread's loop; bounded call histories on real pools.",
    "level_note": "That a worker which retired after the stop token was consumed is replaced at the start of the NEXT call follows from the "
                  "run contract (notices are never dropped) but 'work pending while all workers retired' is only covered by the bounded layer.",
}
PROPS["C02"] = {
    "units": ["contracts.c01_ownpools", "contracts.c03_factory"],
    "bounded": True,
    "level": "other",
    "trusted_base": _POOL_TRUST + ["progress of workers, queues and the scheduler (fairness) - termination proper is NOT proved"],
    "explanation": "Termination is a liveness property: contracts decide only its safety surrogates, deductively and for every schedule - "
                   "(T1) no unbounded blocking get: _get_results uses get(timeout=...) / get(block=False) only (owed@get is the precondition of "
                   "an unbounded get: none is reachable); (T2) the consumer leaves its loop exactly when the feeder is done and every sent chunk "
                   "was consumed (exit condition + J), and cannot leave earlier or stay with nothing owed; (T3) the feeder's early break is "
                   "unreachable in fully consumed calls; (T4) owed@join: every join (CMThread.stop/__exit__, worker join in the replace thread) "
                   "is called only on a thread that has finished or was given what makes it finish (feeder done; stop token put; worker "
                   "retired). The bounded layer explores real schedules with a watchdog / deadlock detection.",
    "level_text": "Safety surrogates of termination proved by contract (owed@ obligations); liveness itself only by bounded exploration.",
    "level_note": "Honest limit of the technique: fairness / progress cannot be expressed as a pre/postcondition; flow control (run_event) "
                  "waits are not covered deductively. F13 (retire-at-end-then-exit: __exit__ blocked on a bounded work queue nobody read) was repaired by fix: ff9fe0c.",
}

PROPS["C13"] = {
    "units": ["contracts.c13_records", "contracts.c13_records:unit_files", "contracts.c11_linefiles", "contracts.c11_linefiles:unit_mmap"],
    "bounded": True,
    "level": "other",
    "trusted_base": ["pyvc VC generator (/verif/pyvc)", "z3", "Python semantics as listed in DESIGN.md §2.3",
                     "AXIOMS about CPython's json / csv modules and int / float / str conversions (json.loads(json.dumps(d)) == d; "
                     "csv reader(writer(row)) == row for cells without line breaks and the same delimiter; t(str(v)) == v; the outputs have no "
                     "interior line break) - C code, exercised by the bounded layer only",
                     "dataclasses (asdict, generated __init__, fields): a record is its field map",
                     "io.StringIO: writing at position 0 into an empty buffer yields exactly what was written",
                     "line-file layer by contract (proved in C11 / C12)"],
    "explanation": "Deductive, for every record class (symbolic class object: field names, field types, delimiter) and every field map: "
                   "JsonRecord.load = the decoded object restricted to the field names, JsonRecord.save = json of the field map; "
                   "CSVRecord._dict_to_string returns exactly this record's row and re-establishes the invariant of the SHARED class-level "
                   "StringIO (empty and rewound between calls; the cached DictWriter of a class writes that class's field names with that "
                   "class's delimiter into that buffer) on both the cache-hit and the cache-miss path; CSVRecord.load zips names, types and "
                   "cells in declaration order with the class's own delimiter (TSVRecord = another delimiter); the two round trips "
                   "load(save(r)) == r are composition lemmas over those postconditions and the library axioms. Record files: "
                   "BaseRecordFile._get_item = load(i-th line of the list view), BaseMutableRecordFile.__setitem__ / insert store save(r) "
                   "through the C12 primitives and reject non-records. Bounded: the library axioms themselves (all short strings over the "
                   "delimiter / quote / escape alphabet, ints, floats, nested JSON), 10^3-10^4 consecutive saves through the shared buffer, "
                   "slices / iteration / save + reopen of record files.",
    "level_text": "Proof of the repository's glue code over stated library axioms; the axioms and the file round trip are bounded.",
    "level_note": "What json / csv do on every string is C code outside the verifier's reach: it enters as axioms (assumptions), never as proved. "
                  "BaseMutableRecordFile.save (lazy generator expression) is bounded only.",
}

# properties not claimed, with the reason (everything else not in PROPS gets the generic "not built yet" reason)
NOT_APPLICABLE = {}
