"""C16: ImmutIntervalMap returns the value of the one interval containing the key.
Uses SpanSet.__init__ by contract (verified in C10) with the Overlaps relation."""
from pyvc.dsl import *
from . import c10_spanset, c09_sorted

IV = TupS(REAL, REAL)


def unit():
    U = Unit("C16/ImmutIntervalMap", "C16")
    M10, R, S = c10_spanset.declare(U)
    c10_spanset.init_contract(S, pairs=False)
    m = S.method("__len__", {}, INT)
    m.ensures("result == len(self.starts)")
    OV = M10.cls("SpanSetOverlapsEqRelation")
    m = OV.method("__init__", {}, trusted=True)      # no __init__ in the source: plain object; its __call__ is verified in C10/relations
    m.ensures("forall(a, forall(b, forall(c, forall(d, relf(self, a, b, c, d) == (b >= c and d >= a)))))",
              "an-Overlaps-relation-object-relates-spans-that-share-a-point")
    b = U.library("bisect.bisect_left", {"a": SeqS(REAL), "x": REAL}, INT)
    b.requires("forall(i, 0, len(a), forall(j, i, len(a), a[i] <= a[j]))", "list-is-sorted")
    b.ensures("0 <= result and result <= len(a)")
    b.ensures("forall(j, 0, result, a[j] < x, trigger=a[j])")
    b.ensures("forall(j, result, len(a), a[j] >= x, trigger=a[j])")
    M = U.module("windpyutils/structures/maps.py")
    C = M.cls("ImmutIntervalMap", fields={"_interval_starts": SeqS(REAL), "_values": SeqS(ANY), "_sortedEnds": SeqS(REAL),
                                          "_sortedEndsIndices": SeqS(INT)},
              ghost={"ends": SeqS(REAL), "rank": ArrS(INT, INT)})
    U.var("k1", IV), U.var("k2", IV)
    n = "len(self._interval_starts)"
    C.invariant("len(self._values) == %s and len(self.ends) == %s and len(self._sortedEnds) == %s and len(self._sortedEndsIndices) == %s" % (n, n, n, n),
                "parallel-arrays")
    C.invariant("forall(i, 0, %s, self._interval_starts[i] <= self.ends[i])" % n, "every-interval-has-start<=end")
    C.invariant("forall(i, 0, %s, forall(j, 0, %s, implies(i != j, self.ends[i] < self._interval_starts[j] or self.ends[j] < self._interval_starts[i])))" % (n, n),
                "no-two-intervals-share-a-point")
    C.invariant("forall(p, 0, %s, 0 <= self._sortedEndsIndices[p] and self._sortedEndsIndices[p] < %s"
                " and self.rank[self._sortedEndsIndices[p]] == p and self._sortedEnds[p] == self.ends[self._sortedEndsIndices[p]],"
                " trigger=self._sortedEndsIndices[p])" % (n, n), "sorted-ends-index-is-a-permutation")
    C.invariant("forall(i, 0, %s, 0 <= self.rank[i] and self.rank[i] < %s and self._sortedEndsIndices[self.rank[i]] == i,"
                " trigger=self.rank[i], alt_trigger=self.ends[i], alt_trigger2=self._interval_starts[i])" % (n, n), "every-interval-is-indexed")
    C.invariant("forall(p, 0, %s, forall(q, p, %s, self._sortedEnds[p] <= self._sortedEnds[q]))" % (n, n), "ends-ascending")
    U.var("p", INT), U.var("q", INT)

    m = C.method("__init__", {"mapping": MapS(IV, ANY)},
                 locals={"interval_ends": SeqS(REAL), "start": REAL, "end": REAL, "value": ANY, "span_set": RefS("SpanSet"), "i": INT, "e": REAL})
    m.raises("KeyError", when="exists(k1, (k1 in mapping) and k1[0] > k1[1]) or exists(k1, exists(k2, (k1 in mapping) and (k2 in mapping)"
                              " and k1 != k2 and k1[1] >= k2[0] and k2[1] >= k1[0]))")
    m.modifies("self._interval_starts", "self._values", "self._sortedEnds", "self._sortedEndsIndices", "self.ends", "self.rank")
    lp = m.loop(1)
    lp.invariant("len(self._interval_starts) == _i1 and len(interval_ends) == _i1 and len(self._values) == _i1")
    lp.invariant("forall(t, 0, _i1, self._interval_starts[t] == _seq1[t][0][0] and interval_ends[t] == _seq1[t][0][1]"
                 " and self._values[t] == _seq1[t][1] and self._interval_starts[t] <= interval_ends[t])")
    lp2 = m.loop(2)
    lp2.invariant("len(self._sortedEnds) == _i2 and len(self._sortedEndsIndices) == _i2")
    lp2.invariant("forall(t, 0, _i2, self._sortedEndsIndices[t] == _seq2[t][0] and self._sortedEnds[t] == _seq2[t][1])")
    m.ghost_exit("self.ends = interval_ends")
    m.ghost_exit("self.rank = lam(i, g_pinv(i))")
    nn = "len(self._interval_starts)"
    # facts about the sorted ends first (they need the sorted() contract only; fewer hypotheses in their queries)
    m.hint_exit("forall(t, 0, %s, 0 <= g_perm(t) and g_perm(t) < %s and g_pinv(g_perm(t)) == t and self._sortedEndsIndices[t] == g_perm(t)"
                " and self._sortedEnds[t] == interval_ends[g_perm(t)])" % (nn, nn), "sorted-position-t-holds-interval-perm(t)")
    m.hint_exit("forall(i, 0, %s, 0 <= g_pinv(i) and g_pinv(i) < %s and g_perm(g_pinv(i)) == i)" % (nn, nn), "every-interval-has-a-sorted-position")
    m.hint_exit("forall(p, 0, %s, forall(q, p, %s, self._sortedEnds[p] <= self._sortedEnds[q]))" % (nn, nn), "sorted-ends-ascending")
    m.hint_exit("len(span_set.starts) == %s and span_set.in_n == %s" % (nn, nn), "nothing-was-dropped-by-the-disjointness-check")
    m.hint_exit("forall(i, 0, %s, span_set.kept[i])" % nn, "every-interval-kept")
    m.hint_exit("forall(i, 0, %s, span_set.in_s[i] == self._interval_starts[i] and span_set.in_e[i] == interval_ends[i])" % nn, "check-input=the-intervals")
    m.hint_exit("forall(j, 0, %s, 0 <= span_set.dst[j] and span_set.dst[j] < len(span_set.starts) and span_set.src[span_set.dst[j]] == j"
                " and span_set.starts[span_set.dst[j]] == self._interval_starts[j] and span_set.ends[span_set.dst[j]] == interval_ends[j])" % nn,
                "where-each-interval-sits-in-the-check-set")
    m.hint_exit("forall(i, 0, %s, forall(j, 0, i, not (interval_ends[i] >= self._interval_starts[j] and interval_ends[j] >= self._interval_starts[i])))" % nn,
                "an-interval-does-not-overlap-an-earlier-one")
    m.hint_exit("forall(i, 0, %s, forall(j, 0, %s, implies(i != j, interval_ends[i] < self._interval_starts[j] or interval_ends[j] < self._interval_starts[i])))" % (nn, nn),
                "pairwise-disjoint")
    m.hint_exit("forall(k1, implies(k1 in mapping, 0 <= g_kidx(k1) and g_kidx(k1) < len(self._interval_starts)"
                " and self._interval_starts[g_kidx(k1)] == k1[0] and self.ends[g_kidx(k1)] == k1[1]))", "where-each-interval-is-stored")
    m.hint_exit("forall(k1, forall(k2, implies((k1 in mapping) and (k2 in mapping) and k1 != k2, g_kidx(k1) != g_kidx(k2))))",
                "different-intervals-different-positions")
    m.hint_exit("forall(k1, implies(k1 in mapping, k1[0] <= k1[1]))", "every-key-interval-valid")
    m.hint_exit("forall(k1, forall(k2, implies((k1 in mapping) and (k2 in mapping) and k1 != k2, k1[1] < k2[0] or k2[1] < k1[0])))",
                "no-two-key-intervals-share-a-point")
    m.ensures("len(self._interval_starts) == len(mapping)", "len=number-of-intervals")
    m.ensures("forall(t, 0, len(self._interval_starts), (tup(self._interval_starts[t], self.ends[t]) in mapping)"
              " and self._values[t] == mapping[tup(self._interval_starts[t], self.ends[t])])", "stored-intervals-carry-their-values")
    m.ensures("forall(k1, implies(k1 in mapping, exists(t, 0, len(self._interval_starts), self._interval_starts[t] == k1[0] and self.ends[t] == k1[1])))",
              "every-interval-is-stored")

    inside = "self._interval_starts[i] <= key and key <= self.ends[i]"
    m = C.method("__getitem__", {"key": REAL}, ANY, locals={"searched_i": INT, "interval_index": INT, "interval_start": REAL})
    m.raises("KeyError", when="not exists(i, 0, %s, %s)" % (n, inside))
    m.ensures("exists(i, 0, %s, %s and result == self._values[i])" % (n, inside), "value-of-the-interval-containing-the-key")
    m.ensures("forall(i, 0, %s, implies(%s, result == self._values[i]))" % (n, inside), "that-interval-is-unique")

    m = C.method("__contains__", {"key": REAL}, BOOL)
    m.ensures("result == exists(i, 0, %s, %s)" % (n, inside), "in-agrees-with-lookup")

    m = C.method("__len__", {}, INT)
    m.ensures("result == %s" % n, "len=number-of-intervals")

    m = C.method("__iter__", {}, yields=TupS(IV, ANY))
    m.reads("ImmutIntervalMap._sortedEndsIndices", "ImmutIntervalMap._sortedEnds", "ImmutIntervalMap._interval_starts", "ImmutIntervalMap._values")
    lp = m.loop(1)
    lp.invariant("len(yielded) == _i1 and forall(t, 0, _i1, yielded[t] == tup(tup(self._interval_starts[self._sortedEndsIndices[t]],"
                 " self.ends[self._sortedEndsIndices[t]]), self._values[self._sortedEndsIndices[t]]), trigger=yielded[t])")
    m.ensures("len(yielded) == %s" % n, "every-interval-listed-once")
    m.ensures("forall(t, 0, len(yielded), yielded[t] == tup(tup(self._interval_starts[self._sortedEndsIndices[t]],"
              " self.ends[self._sortedEndsIndices[t]]), self._values[self._sortedEndsIndices[t]]), trigger=yielded[t])", "(interval,value)-pairs")
    m.ensures("forall(t, 0, len(yielded) - 1, yielded[t][0][1] < yielded[t + 1][0][0])", "ascending:each-interval-ends-before-the-next-starts")
    for f in ("__init__", "__getitem__", "__contains__", "__len__", "__iter__"):
        U.verify("ImmutIntervalMap", f)
    U.assume("interval bounds and keys are SMT reals (no NaN); dict.items() enumerates every key once")
    U.assume("bisect.bisect_left, sorted(): library contracts (DESIGN §4)")
    return U
