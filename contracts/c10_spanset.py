"""C10: SpanSet operators follow their membership-based definitions for EVERY relation.

The relation of a set is an uninterpreted predicate relf(relation object, xs, xe, ys, ye): every obligation below holds for all
4x4 combinations of the shipped relations (and any other relation) at once.  `x in S` == mem(S, x) == some stored span is related
to x by S's relation.  Construction is characterised by ghost provenance functions (src/dst/kept/wit): a span is kept iff it is
not already a member of the set built so far; the result is a subsequence of the input."""
from pyvc.dsl import *

REL = "SpanSetEqRelation"
SPAN = TupS(REAL, REAL)


def declare(U):
    M = U.module("windpyutils/structures/span_set.py")
    R = M.cls(REL)
    U.spec_fun("relf", [RefS(REL), REAL, REAL, REAL, REAL], BOOL)
    U.spec_fun("exact_rel", [], RefS(REL))
    U.var("a", REAL), U.var("b", REAL), U.var("c", REAL), U.var("d", REAL)
    U.axiom("exact_rel() != None and forall(a, forall(b, forall(c, forall(d, relf(exact_rel(), a, b, c, d) == (a == c and b == d)))))",
            "the-default-relation-is-exact-equality")
    m = R.method("__call__", {"x_start": REAL, "x_end": REAL, "y_start": REAL, "y_end": REAL}, BOOL, trusted=True)
    m.ensures("result == relf(self, x_start, x_end, y_start, y_end)")
    S = M.cls("SpanSet", fields={"starts": SeqS(REAL), "ends": SeqS(REAL), "eq_relation": RefS(REL)},
              ghost={"in_s": ArrS(INT, REAL), "in_e": ArrS(INT, REAL), "in_n": INT, "src": ArrS(INT, INT), "dst": ArrS(INT, INT),
                     "kept": ArrS(INT, BOOL), "wit": ArrS(INT, INT)})
    S.invariant("len(self.starts) == len(self.ends) and self.eq_relation != None", "starts-ends-parallel")
    U.define("mem", ["S", "xs", "xe"], "exists(j, 0, len(S.starts), relf(S.eq_relation, xs, xe, S.starts[j], S.ends[j]))")
    U.define("occurs", ["S", "xs", "xe"], "exists(j, 0, len(S.starts), S.starts[j] == xs and S.ends[j] == xe)")

    def dedup(n):
        return ("len(S.starts) == len(S.ends)"
                " and forall(j, 0, len(S.starts), 0 <= S.src[j] and S.src[j] < %(n)s and S.starts[j] == S.in_s[S.src[j]]"
                "            and S.ends[j] == S.in_e[S.src[j]] and S.kept[S.src[j]] and S.dst[S.src[j]] == j, trigger=S.src[j])"
                " and forall(j, 0, len(S.starts), forall(j2, j + 1, len(S.starts), S.src[j] < S.src[j2]))"
                " and forall(i, 0, %(n)s, implies(S.kept[i], 0 <= S.dst[i] and S.dst[i] < len(S.starts) and S.src[S.dst[i]] == i"
                "            and forall(j, 0, len(S.starts), implies(S.src[j] < i,"
                "                       not relf(S.eq_relation, S.in_s[i], S.in_e[i], S.starts[j], S.ends[j]))))"
                "            and implies(not S.kept[i], 0 <= S.wit[i] and S.wit[i] < len(S.starts) and S.src[S.wit[i]] < i"
                "                       and relf(S.eq_relation, S.in_s[i], S.in_e[i], S.starts[S.wit[i]], S.ends[S.wit[i]])),"
                "            trigger=S.kept[i])") % {"n": n}
    # the set is exactly the de-duplication of its input: a span of the input is kept iff it is not already in the set built so far
    U.define("dedup_upto", ["S", "n"], dedup("n"))
    U.define("dedup_ok", ["S"], dedup("S.in_n"))
    return M, R, S


def iter_and_contains(S):
    m = S.method("__len__", {}, INT)
    m.ensures("result == len(self.starts)")
    m = S.method("__iter__", {}, yields=SPAN)
    m.reads("SpanSet.starts", "SpanSet.ends")
    lp = m.loop(1)
    lp.invariant("len(yielded) == _i1 and forall(t, 0, _i1, yielded[t] == tup(self.starts[t], self.ends[t]), trigger=yielded[t])")
    m.ensures("len(yielded) == len(self.starts)")
    m.ensures("forall(t, 0, len(yielded), yielded[t] == tup(self.starts[t], self.ends[t]), trigger=yielded[t])", "spans-in-stored-order")
    m = S.method("__contains__", {"span": SPAN}, BOOL)
    lp = m.loop(1)
    lp.invariant("forall(j, 0, _i1, not relf(self.eq_relation, span[0], span[1], self.starts[j], self.ends[j]))")
    m.ensures("result == mem(self, span[0], span[1])", "x-in-S<=>some-stored-span-is-related-to-x")


def init_contract(S, pairs):
    loops = (3, 4) if pairs else (1, 2)
    if pairs:
        m = S.method("__init__", {"starts": SeqS(SPAN), "ends": OptS(SeqS(REAL)), "force_no_dup_check": BOOL, "eq_relation": RefS(REL)},
                     locals={"not_in": BOOL, "checkIn": INT, "s": REAL, "e": REAL, "investigatedSpanIndex": INT, "i": INT})
        m.requires("is_none(ends) and eq_relation != None")
        m.ghost_entry("self.in_s = lam(i, starts[i][0])")
        m.ghost_entry("self.in_e = lam(i, starts[i][1])")
        m.loop(1), m.loop(2)
        inner_idx = "checkIn"
    else:
        m = S.method("__init__", {"starts": SeqS(REAL), "ends": OptS(SeqS(REAL)), "force_no_dup_check": BOOL, "eq_relation": RefS(REL)},
                     locals={"not_in": BOOL, "checkIn": INT, "s": REAL, "e": REAL, "investigatedSpanIndex": INT, "i": INT})
        m.requires("not is_none(ends) and eq_relation != None")
        m.raises("AssertionError", when="len(starts) != len(some(ends))")
        m.ghost_entry("self.in_s = lam(i, starts[i])")
        m.ghost_entry("self.in_e = lam(i, some(ends)[i])")
        m.loop(3), m.loop(4)
        inner_idx = "investigatedSpanIndex"
    m.ghost_entry("self.in_n = len(starts)")
    m.default_expr("eq_relation", "exact_rel()")
    m.modifies("self.starts", "self.ends", "self.eq_relation", "self.in_s", "self.in_e", "self.in_n", "self.src", "self.dst", "self.kept", "self.wit")
    ko, ki = loops
    lo = m.loop(ko)
    cur = "_i%d" % ko
    lo.invariant("self.eq_relation == eq_relation and same(self.in_s, old_in_s(self))" if False else "self.eq_relation == eq_relation")
    lo.invariant("dedup_upto(self, %s)" % cur, "set-built-so-far=dedup-of-the-processed-prefix")
    lo.invariant("len(self.starts) <= %s and iff(len(self.starts) == %s, forall(i, 0, %s, self.kept[i]))" % (cur, cur, cur),
                 "nothing-dropped<=>as-many-stored-as-processed")
    lo.ghost_at_end("self.src = ite(not_in, aset(self.src, len(self.starts) - 1, %s - 1), self.src)" % cur)
    lo.ghost_at_end("self.dst = ite(not_in, aset(self.dst, %s - 1, len(self.starts) - 1), self.dst)" % cur)
    lo.ghost_at_end("self.wit = ite(not_in, self.wit, aset(self.wit, %s - 1, %s))" % (cur, inner_idx))
    lo.ghost_at_end("self.kept = aset(self.kept, %s - 1, not_in)" % cur)
    li = m.loop(ki)
    x = ("s", "e") if pairs else ("s", "some(ends)[i]")
    li.invariant("not_in")
    li.invariant("_seq%d == _seq%d" % (ki, ki))
    li.invariant("forall(j, 0, _i%d, not relf(self.eq_relation, %s, %s, self.starts[j], self.ends[j]))" % (ki, x[0], x[1]))
    if pairs:
        m.ensures("self.eq_relation == eq_relation and self.in_n == len(starts) and dedup_ok(self)", "construction=keep-iff-not-already-a-member")
        m.ensures("len(self.starts) <= len(starts) and iff(len(self.starts) == len(starts), forall(i, 0, len(starts), self.kept[i]))",
                  "same-length<=>nothing-dropped")
        m.ensures("forall(i, 0, len(starts), self.in_s[i] == starts[i][0] and self.in_e[i] == starts[i][1])")
    else:
        m.ensures("self.eq_relation == eq_relation")
        m.ensures("implies(force_no_dup_check, self.starts == starts and self.ends == some(ends))", "force_no_dup_check:inputs-reused-as-given")
        m.ensures("implies(not force_no_dup_check, self.in_n == len(starts) and dedup_ok(self))", "construction=keep-iff-not-already-a-member")
        m.ensures("implies(not force_no_dup_check, len(self.starts) <= len(starts)"
                  " and iff(len(self.starts) == len(starts), forall(i, 0, len(starts), self.kept[i])))", "same-length<=>nothing-dropped")
        m.ensures("forall(i, 0, len(starts), self.in_s[i] == starts[i] and self.in_e[i] == some(ends)[i])")
    return m


def unit():
    """constructor from two sequences, iteration, membership, comparisons"""
    U = Unit("C10/SpanSet(core)", "C10")
    M, R, S = declare(U)
    iter_and_contains(S)
    init_contract(S, pairs=False)
    A_le_B = "forall(i, 0, len(self.starts), mem(other, self.starts[i], self.ends[i]))"
    B_le_A = "forall(i, 0, len(other.starts), mem(self, other.starts[i], other.ends[i]))"
    o = {"other": RefS("SpanSet")}
    pre = "other != None and len(other.starts) == len(other.ends) and other.eq_relation != None"
    m = S.method("__le__", o, BOOL); m.requires(pre)
    m.ensures("result == " + A_le_B, "A<=B<=>every-span-of-A-is-in-B")
    m = S.method("__eq__", o, BOOL); m.requires(pre)
    m.ensures("result == (%s and %s)" % (A_le_B, B_le_A), "A==B<=>A<=B-and-B<=A")
    m = S.method("__ne__", o, BOOL); m.requires(pre)
    m.ensures("result == (not (%s and %s))" % (A_le_B, B_le_A), "A!=B<=>not(A==B)")
    m = S.method("__lt__", o, BOOL); m.requires(pre)
    m.ensures("result == (%s and not (%s and %s))" % (A_le_B, A_le_B, B_le_A), "A<B<=>A<=B-and-A!=B")
    m = S.method("__ge__", o, BOOL); m.requires(pre)
    m.ensures("result == " + B_le_A, "A>=B<=>B<=A")
    m = S.method("__gt__", o, BOOL); m.requires(pre)
    m.ensures("result == (%s and not (%s and %s))" % (B_le_A, B_le_A, A_le_B), "A>B<=>B<A")
    m = S.method("issubset", o, BOOL); m.requires(pre)
    m.ensures("result == " + A_le_B)
    m = S.method("issuperset", o, BOOL); m.requires(pre)
    m.ensures("result == " + B_le_A)
    m = S.method("isdisjoint", {"s": SeqS(SPAN)}, BOOL)
    m.ensures("result == forall(i, 0, len(s), not mem(self, s[i][0], s[i][1]))", "isdisjoint<=>no-element-of-s-is-in-self")
    for f in ("__len__", "__iter__", "__contains__", "__init__", "__le__", "__eq__", "__ne__", "__lt__", "__ge__", "__gt__", "issubset",
              "issuperset", "isdisjoint"):
        U.verify("SpanSet", f)
    U.assume("the relation of a set is an arbitrary total predicate of four numbers (uninterpreted): covers Exact/PartOf/Includes/Overlaps in all combinations")
    U.assume("span bounds are SMT reals (no NaN)")
    return U


def unit_relations():
    """the four shipped relations are what their definitions say"""
    U = Unit("C10/relations", "C10")
    M = U.module("windpyutils/structures/span_set.py")
    P = {"x_start": REAL, "x_end": REAL, "y_start": REAL, "y_end": REAL}
    for cls, expr, lab in (("SpanSetExactEqRelation", "x_start == y_start and x_end == y_end", "exact"),
                           ("SpanSetPartOfEqRelation", "y_start <= x_start and x_end <= y_end", "x-inside-y"),
                           ("SpanSetIncludesEqRelation", "x_start <= y_start and y_end <= x_end", "x-includes-y"),
                           ("SpanSetOverlapsEqRelation", "not (x_end < y_start or y_end < x_start)", "x-and-y-share-a-point")):
        C = M.cls(cls)
        m = C.method("__call__", P, BOOL)
        m.ensures("result == (%s)" % expr, lab)
        U.verify(cls, "__call__")
    return U


def unit_ops():
    """constructor from an iterable of pairs and the four set operators"""
    U = Unit("C10/SpanSet(operators)", "C10")
    M, R, S = declare(U)
    iter_and_contains(S)
    init_contract(S, pairs=True)
    o = {"other": RefS("SpanSet")}
    pre = "other != None and len(other.starts) == len(other.ends) and other.eq_relation != None"
    inA, inB = "mem(self, xs, xe)", "mem(other, xs, xe)"
    for name, P, lab in (("__and__", "(%s and %s)" % (inA, inB), "x-in-A-and-x-in-B"),
                         ("__or__", "(%s or %s)" % (inA, inB), "x-in-A-or-x-in-B"),
                         ("__sub__", "(%s and not %s)" % (inA, inB), "x-in-A-and-x-not-in-B"),
                         ("__xor__", "(%s != %s)" % (inA, inB), "x-in-A-xor-x-in-B")):
        U.define("P" + name, ["self", "other", "xs", "xe"], P)
        m = S.method(name, o, RefS("SpanSet"))
        m.requires(pre)
        m.modifies()
        Pr = "P%s(self, other, %%s, %%s)" % name
        Pc = Pr % ("g_fin[k][0]", "g_fin[k][1]")
        # the chained input C = spans of A followed by spans of B
        m.hint_exit("len(g_fin) == len(self.starts) + len(other.starts)", "chain-length")
        m.hint_exit("forall(i, 0, len(self.starts), g_fin[i][0] == self.starts[i] and g_fin[i][1] == self.ends[i])", "chain-first-part=A")
        m.hint_exit("forall(i, 0, len(other.starts), g_fin[len(self.starts) + i][0] == other.starts[i]"
                    " and g_fin[len(self.starts) + i][1] == other.ends[i])", "chain-second-part=B")
        # the filtered sequence F is what the constructor received
        m.hint_exit("result.in_n == len(g_fout) and forall(i, 0, len(g_fout), result.in_s[i] == g_fout[i][0] and result.in_e[i] == g_fout[i][1])",
                    "constructor-input=filtered-chain")
        m.hint_exit("forall(j, 0, len(result.starts), 0 <= g_fsrc(result.src[j]) and g_fsrc(result.src[j]) < len(g_fin)"
                    " and result.starts[j] == g_fin[g_fsrc(result.src[j])][0] and result.ends[j] == g_fin[g_fsrc(result.src[j])][1])",
                    "where-each-result-span-comes-from")
        m.hint_exit("forall(k, 0, len(g_fin), implies(%s, 0 <= g_fdst(k) and g_fdst(k) < len(g_fout) and g_fout[g_fdst(k)] == g_fin[k]))" % Pc,
                    "a-qualifying-chain-element-enters-the-construction")
        m.hint_exit("forall(i, 0, result.in_n, implies(result.kept[i], result.starts[result.dst[i]] == result.in_s[i]"
                    " and result.ends[result.dst[i]] == result.in_e[i]))", "a-kept-input-span-is-stored")
        m.hint_exit("forall(i, 0, result.in_n, implies(not result.kept[i], result.starts[result.wit[i]] == result.in_s[i]"
                    " and result.ends[result.wit[i]] == result.in_e[i]))", "a-dropped-input-span-equals-a-stored-one(exact-relation)")
        m.hint_exit("forall(i, 0, result.in_n, occurs(result, result.in_s[i], result.in_e[i]))", "every-constructor-input-span-occurs")
        m.hint_exit("forall(k, 0, len(g_fin), implies(%s, occurs(result, g_fin[k][0], g_fin[k][1])))" % Pc,
                    "complete-at-chain-level")
        m.hint_exit("forall(j, 0, len(result.starts), %s)" % (Pr % ("g_fin[g_fsrc(result.src[j])][0]", "g_fin[g_fsrc(result.src[j])][1]")),
                    "sound-at-chain-level")
        m.ensures("fresh(result) and result != None and result.eq_relation == exact_rel() and len(result.starts) == len(result.ends)",
                  "result-is-a-new-set-with-the-exact-relation")
        m.ensures("forall(j, 0, len(result.starts), %s and (occurs(self, result.starts[j], result.ends[j])"
                  " or occurs(other, result.starts[j], result.ends[j])))" % (Pr % ("result.starts[j]", "result.ends[j]")),
                  "sound:every-result-span-is-a-span-of-A-or-B-satisfying:" + lab)
        m.ensures("forall(i, 0, len(self.starts), implies(%s, occurs(result, self.starts[i], self.ends[i])))" % (Pr % ("self.starts[i]", "self.ends[i]")),
                  "complete:every-span-of-A-satisfying-the-formula-occurs")
        m.ensures("forall(i, 0, len(other.starts), implies(%s, occurs(result, other.starts[i], other.ends[i])))" % (Pr % ("other.starts[i]", "other.ends[i]")),
                  "complete:every-span-of-B-satisfying-the-formula-occurs")
        m.ensures("forall(j, 0, len(result.starts), forall(j2, j + 1, len(result.starts),"
                  " not (result.starts[j] == result.starts[j2] and result.ends[j] == result.ends[j2])))", "each-span-once")
    U.verify("SpanSet", "__init__")
    for f in ("__and__", "__or__", "__sub__", "__xor__"):
        U.verify("SpanSet", f)
    U.assume("itertools.chain(a, b): the concatenation of the two iterations (library contract)")
    U.assume("a filtered generator expression yields exactly the elements satisfying the condition, in order (characterised by a strictly increasing source-index function)")
    return U
