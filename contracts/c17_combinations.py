"""C17: min_combinations_in_interval_iter_sorted returns exactly the combinations whose score sum is the smallest sum in
[i_start, i_end), relative to the stream of sorted_combinations.

Deductive: the interval search against the STREAM CONTRACT of sorted_combinations (keys non-decreasing, components are elements
of the input).  Assumed here and checked by the bounded layer only: that stream contract itself, in particular completeness /
exactly-once of the combination stream (an induction over sets of index tuples that SMT does not carry; DESIGN §6 C17)."""
from pyvc.dsl import *

COMB = TupS(SeqS(INT), INT)       # (index tuple, score) as yielded with yield_key=True


def unit():
    U = Unit("C17/min_combinations_in_interval_iter_sorted", "C17")
    G = U.module("windpyutils/generic.py")
    sc = G.function("sorted_combinations", {"elements": SeqS(INT), "key": FunS([SeqS(INT)], INT), "yield_key": BOOL}, yields=COMB, trusted=True,
                    note="ASSUMED stream contract (bounded layer checks it incl. completeness)")
    sc.requires("yield_key")
    sc.ensures("forall(p, 0, len(yielded), forall(q, p, len(yielded), yielded[p][1] <= yielded[q][1]))", "keys-non-decreasing")
    sc.ensures("forall(p, 0, len(yielded), forall(t, 0, len(yielded[p][0]), exists(u, 0, len(elements), yielded[p][0][t] == elements[u])))",
               "components-are-elements-of-the-input")
    RES = SeqS(TupS(SeqS(ANY), INT))
    m = G.function("min_combinations_in_interval_iter_sorted",
                   {"elements": SeqS(ANY), "scores": SeqS(INT), "i_start": INT, "i_end": INT}, RES,
                   locals={"res": RES, "combination_indices": SeqS(INT), "comb_score": INT})
    m.ghost_entry("g_src = lam(i, 0)")
    m.ghost_entry("g_dst = lam(i, 0)")
    m.ghost_entry("g_len0 = 0")
    lp = m.loop(1)
    Y = "_seq1"
    inI = "i_start <= %s[p][1] and %s[p][1] < i_end" % (Y, Y)
    lp.invariant("forall(r, 0, len(res), 0 <= g_src[r] and g_src[r] < _i1 and g_src[r] < len(_seq1) and g_dst[g_src[r]] == r and res[r][1] == %s[g_src[r]][1]"
                 " and i_start <= res[r][1] and res[r][1] < i_end and len(res[r][0]) == len(%s[g_src[r]][0])"
                 " and forall(t, 0, len(res[r][0]), res[r][0][t] == elements[%s[g_src[r]][0][t]]), trigger=res[r])" % (Y, Y, Y), "results-come-from-the-stream")
    lp.invariant("forall(r, 0, len(res), res[r][1] == res[0][1])", "all-results-have-the-same-sum")
    lp.invariant("forall(r, 0, len(res), forall(r2, r + 1, len(res), g_src[r] < g_src[r2]))", "in-stream-order")
    lp.invariant("forall(p, 0, _i1, %s[p][1] < i_end and implies(len(res) > 0, %s[p][1] <= res[0][1]))" % (Y, Y), "consumed-prefix-not-past-the-interval-nor-the-minimum")
    lp.invariant("forall(p, 0, _i1, implies(i_start <= %s[p][1], 0 <= g_dst[p] and g_dst[p] < len(res) and g_src[g_dst[p]] == p))" % Y,
                 "every-consumed-in-interval-combination-was-taken")
    lp.ghost_at_begin("g_len0 = len(res)")
    lp.ghost_at_end("g_src = ite(len(res) > g_len0, aset(g_src, len(res) - 1, _i1 - 1), g_src)")
    lp.ghost_at_end("g_dst = ite(len(res) > g_len0, aset(g_dst, _i1 - 1, len(res) - 1), g_dst)")
    n = "len(%s)" % Y
    m.ensures("forall(r, 0, len(result), 0 <= g_src[r] and g_src[r] < %s and result[r][1] == %s[g_src[r]][1]"
              " and i_start <= result[r][1] and result[r][1] < i_end and len(result[r][0]) == len(%s[g_src[r]][0])"
              " and forall(t, 0, len(result[r][0]), result[r][0][t] == elements[%s[g_src[r]][0][t]]), trigger=result[r])" % (n, Y, Y, Y),
              "every-result-is-a-stream-combination-in-the-interval-with-its-sum")
    m.ensures("forall(r, 0, len(result), result[r][1] == result[0][1])", "all-results-have-the-same-sum")
    m.ensures("forall(p, 0, %s, implies(%s, len(result) > 0 and result[0][1] <= %s[p][1]))" % (n, inI, Y), "that-sum-is-the-smallest-in-the-interval")
    m.ensures("forall(p, 0, %s, implies(%s and len(result) > 0 and %s[p][1] == result[0][1], exists(r, 0, len(result), g_src[r] == p)))" % (n, inI, Y),
              "every-combination-with-that-sum-is-returned")
    m.ensures("forall(r, 0, len(result), forall(r2, r + 1, len(result), g_src[r] < g_src[r2]))", "each-once-in-stream-order")
    m.ensures("iff(len(result) == 0, not exists(p, 0, %s, %s))" % (n, inI), "empty<=>no-combination-in-the-interval")
    U.verify(None, "min_combinations_in_interval_iter_sorted")
    U.assume("ASSUMED (bounded layer only): the stream contract of sorted_combinations - keys non-decreasing, every non-empty index "
             "combination exactly once (completeness), components are input elements")
    U.assume("sum(scores[i] for i in x) is the key passed to sorted_combinations (the score of a combination): not re-derived here")
    return U


ENT = TupS(INT, INT, SeqS(INT), INT)      # heap entry: (key, combination length, combination, index of its last element)
HEAP = SeqS(ENT)


def heapq_env(U):
    """trusted contracts of heapq over a list of entries; isheap is the (uninterpreted) heap-shape predicate the module maintains.
    The tuple order is lexicographic, so the popped minimum has the smallest first component (the key)."""
    U.spec_fun("isheap", [HEAP], BOOL)
    m = U.library("heapq.heapify", {"x": HEAP})
    m.updates_arg("x")
    m.witness_fun("hsrc", [INT], INT, bound_to=None)
    m.ensures("isheap(x) and len(x) == len(old(x))")
    m.ensures("forall(j, 0, len(x), 0 <= hsrc(j) and hsrc(j) < len(old(x)) and same(x[j], old(x)[hsrc(j)]), trigger=x[j])", "same-entries(rearranged)")
    m = U.library("heapq.heappop", {"heap": HEAP}, ENT)
    m.updates_arg("heap")
    m.requires("isheap(heap)", "heappop-on-a-heap")
    m.raises("IndexError", when="len(heap) == 0")
    m.witness_fun("psrc", [INT], INT, bound_to=None)
    m.witness("pidx", INT, bound_to=None)
    m.ensures("isheap(heap) and len(heap) == len(old(heap)) - 1")
    m.ensures("0 <= pidx and pidx < len(old(heap)) and same(result, old(heap)[pidx])", "the-popped-entry-was-in-the-heap")
    m.ensures("forall(i, 0, len(old(heap)), result[0] <= old(heap)[i][0], trigger=old(heap)[i])", "smallest-key(tuple-order-is-lexicographic)")
    m.ensures("forall(j, 0, len(heap), 0 <= psrc(j) and psrc(j) < len(old(heap)) and same(heap[j], old(heap)[psrc(j)]), trigger=heap[j])",
              "the-rest-stays(rearranged)")
    m = U.library("heapq.heappush", {"heap": HEAP, "item": ENT})
    m.updates_arg("heap")
    m.requires("isheap(heap)", "heappush-on-a-heap")
    m.witness_fun("qsrc", [INT], INT, bound_to=None)
    m.ensures("isheap(heap) and len(heap) == len(old(heap)) + 1")
    m.ensures("forall(j, 0, len(heap), same(heap[j], item) or (0 <= qsrc(j) and qsrc(j) < len(old(heap)) and same(heap[j], old(heap)[qsrc(j)])),"
              " trigger=heap[j])", "old-entries-plus-the-new-one(rearranged)")


def unit_stream():
    """sorted_combinations against the stream contract the interval search relies on: keys non-decreasing, every yielded combination is a
    strictly index-ordered tuple of input elements with its key alongside - for every key that never decreases when an element is appended.
    (Completeness / exactly-once of the stream stays with the bounded layer.)"""
    U = Unit("C17/sorted_combinations", "C17")
    heapq_env(U)
    U.var("cc", SeqS(INT))
    U.var("ee", INT)
    G = U.module("windpyutils/generic.py")
    COMBK = TupS(SeqS(INT), INT)
    m = G.function("sorted_combinations", {"elements": SeqS(INT), "key": FunS([SeqS(INT)], INT), "yield_key": BOOL}, yields=COMBK,
                   locals={"priority_queue": HEAP, "sel_key": INT, "comb": SeqS(INT), "index": INT, "offset": INT, "i": INT, "e": INT,
                           "new_comb": SeqS(INT)})
    m.requires("yield_key")
    m.requires("forall(cc, forall(ee, key(append(cc, ee)) >= key(cc)))", "the-key-never-decreases-when-an-element-is-appended")
    entry_ok = lambda x: ("%(x)s[0] == key(%(x)s[2]) and %(x)s[1] == len(%(x)s[2]) and len(%(x)s[2]) >= 1 and 0 <= %(x)s[3] and %(x)s[3] < len(elements)"
                          " and %(x)s[2][len(%(x)s[2]) - 1] == elements[%(x)s[3]]"
                          " and forall(t, 0, len(%(x)s[2]), exists(u, 0, len(elements), %(x)s[2][t] == elements[u]))" % {"x": x})
    # termination of the while loop is not claimed here (it follows from completeness / exactly-once: every combination enters the heap
    # once; bounded layer)
    l1 = m.loop(1).environment_driven()
    l1.invariant("isheap(priority_queue)")
    l1.invariant("forall(j, 0, len(priority_queue), %s, trigger=priority_queue[j])" % entry_ok("priority_queue[j]"), "heap-entries-are-well-formed")
    l1.invariant("forall(j, 0, len(priority_queue), implies(len(yielded) > 0, yielded[len(yielded) - 1][1] <= priority_queue[j][0]),"
                 " trigger=priority_queue[j])", "everything-still-in-the-heap-is-not-smaller-than-the-last-yielded-key")
    l1.invariant("forall(p, 0, len(yielded), yielded[p][1] <= yielded[len(yielded) - 1][1] and yielded[p][1] == key(yielded[p][0]) and len(yielded[p][0]) >= 1"
                 " and forall(t, 0, len(yielded[p][0]), exists(u, 0, len(elements), yielded[p][0][t] == elements[u])), trigger=yielded[p])",
                 "yielded-so-far:keys-bounded-by-the-last-one")
    l1.invariant("forall(p, 0, len(yielded), forall(q, p, len(yielded), yielded[p][1] <= yielded[q][1]))", "keys-non-decreasing")
    l2 = m.loop(2)
    l2.invariant("isheap(priority_queue) and len(yielded) > 0 and yielded[len(yielded) - 1][1] == sel_key and sel_key == key(comb) and len(comb) >= 1"
                 " and offset == index + 1 and 0 <= index and index < len(elements)"
                 " and forall(t, 0, len(comb), exists(u, 0, len(elements), comb[t] == elements[u]))")
    l2.invariant("forall(j, 0, len(priority_queue), %s, trigger=priority_queue[j])" % entry_ok("priority_queue[j]"))
    l2.invariant("forall(j, 0, len(priority_queue), sel_key <= priority_queue[j][0], trigger=priority_queue[j])")
    l2.invariant("forall(p, 0, len(yielded), yielded[p][1] <= yielded[len(yielded) - 1][1] and yielded[p][1] == key(yielded[p][0]) and len(yielded[p][0]) >= 1"
                 " and forall(t, 0, len(yielded[p][0]), exists(u, 0, len(elements), yielded[p][0][t] == elements[u])), trigger=yielded[p])")
    l2.invariant("forall(p, 0, len(yielded), forall(q, p, len(yielded), yielded[p][1] <= yielded[q][1]))")
    m.ensures("forall(p, 0, len(yielded), forall(q, p, len(yielded), yielded[p][1] <= yielded[q][1]))", "keys-non-decreasing")
    m.ensures("forall(p, 0, len(yielded), forall(t, 0, len(yielded[p][0]), exists(u, 0, len(elements), yielded[p][0][t] == elements[u])))",
              "components-are-elements-of-the-input")
    m.ensures("forall(p, 0, len(yielded), yielded[p][1] == key(yielded[p][0]) and len(yielded[p][0]) >= 1, trigger=yielded[p])", "key-alongside,non-empty")
    U.verify(None, "sorted_combinations")
    U.assume("heapq (trusted): heapify / heappush / heappop keep the entries (rearranged) and heappop returns an entry with the smallest key; "
             "tuple comparison is lexicographic")
    U.assume("completeness / exactly-once of the combination stream and index-ordering of each tuple: bounded layer only")
    return U
