"""C17: min_combinations_in_interval_iter_sorted returns exactly the combinations whose score sum is the smallest sum in
[i_start, i_end), relative to the stream of sorted_combinations.

Deductive: the interval search against the STREAM CONTRACT of sorted_combinations (keys non-decreasing, components are elements
of the input).  Assumed here and checked by the bounded layer only: that stream contract itself, in particular completeness /
exactly-once of the combination stream (an induction over sets of index tuples that SMT does not carry; DESIGN §6 C17)."""
from pyvc.dsl import *

COMB = TupS(SeqS(INT), INT)       # (index tuple, score) as yielded with yield_key=True


def unit():
    U = Unit("C17/min_combinations_in_interval_iter_sorted", "C17")
    G = U.module("windpyutils/generic.py")
    sc = G.function("sorted_combinations", {"elements": SeqS(INT), "key": FunS([SeqS(INT)], INT), "yield_key": BOOL}, yields=COMB, trusted=True,
                    note="ASSUMED stream contract (bounded layer checks it incl. completeness)")
    sc.requires("yield_key")
    sc.ensures("forall(p, 0, len(yielded), forall(q, p, len(yielded), yielded[p][1] <= yielded[q][1]))", "keys-non-decreasing")
    sc.ensures("forall(p, 0, len(yielded), forall(t, 0, len(yielded[p][0]), exists(u, 0, len(elements), yielded[p][0][t] == elements[u])))",
               "components-are-elements-of-the-input")
    RES = SeqS(TupS(SeqS(ANY), INT))
    m = G.function("min_combinations_in_interval_iter_sorted",
                   {"elements": SeqS(ANY), "scores": SeqS(INT), "i_start": INT, "i_end": INT}, RES,
                   locals={"res": RES, "combination_indices": SeqS(INT), "comb_score": INT})
    m.ghost_entry("g_src = lam(i, 0)")
    m.ghost_entry("g_dst = lam(i, 0)")
    m.ghost_entry("g_len0 = 0")
    lp = m.loop(1)
    Y = "_seq1"
    inI = "i_start <= %s[p][1] and %s[p][1] < i_end" % (Y, Y)
    lp.invariant("forall(r, 0, len(res), 0 <= g_src[r] and g_src[r] < _i1 and g_src[r] < len(_seq1) and g_dst[g_src[r]] == r and res[r][1] == %s[g_src[r]][1]"
                 " and i_start <= res[r][1] and res[r][1] < i_end and len(res[r][0]) == len(%s[g_src[r]][0])"
                 " and forall(t, 0, len(res[r][0]), res[r][0][t] == elements[%s[g_src[r]][0][t]]), trigger=res[r])" % (Y, Y, Y), "results-come-from-the-stream")
    lp.invariant("forall(r, 0, len(res), res[r][1] == res[0][1])", "all-results-have-the-same-sum")
    lp.invariant("forall(r, 0, len(res), forall(r2, r + 1, len(res), g_src[r] < g_src[r2]))", "in-stream-order")
    lp.invariant("forall(p, 0, _i1, %s[p][1] < i_end and implies(len(res) > 0, %s[p][1] <= res[0][1]))" % (Y, Y), "consumed-prefix-not-past-the-interval-nor-the-minimum")
    lp.invariant("forall(p, 0, _i1, implies(i_start <= %s[p][1], 0 <= g_dst[p] and g_dst[p] < len(res) and g_src[g_dst[p]] == p))" % Y,
                 "every-consumed-in-interval-combination-was-taken")
    lp.ghost_at_begin("g_len0 = len(res)")
    lp.ghost_at_end("g_src = ite(len(res) > g_len0, aset(g_src, len(res) - 1, _i1 - 1), g_src)")
    lp.ghost_at_end("g_dst = ite(len(res) > g_len0, aset(g_dst, _i1 - 1, len(res) - 1), g_dst)")
    n = "len(%s)" % Y
    m.ensures("forall(r, 0, len(result), 0 <= g_src[r] and g_src[r] < %s and result[r][1] == %s[g_src[r]][1]"
              " and i_start <= result[r][1] and result[r][1] < i_end and len(result[r][0]) == len(%s[g_src[r]][0])"
              " and forall(t, 0, len(result[r][0]), result[r][0][t] == elements[%s[g_src[r]][0][t]]), trigger=result[r])" % (n, Y, Y, Y),
              "every-result-is-a-stream-combination-in-the-interval-with-its-sum")
    m.ensures("forall(r, 0, len(result), result[r][1] == result[0][1])", "all-results-have-the-same-sum")
    m.ensures("forall(p, 0, %s, implies(%s, len(result) > 0 and result[0][1] <= %s[p][1]))" % (n, inI, Y), "that-sum-is-the-smallest-in-the-interval")
    m.ensures("forall(p, 0, %s, implies(%s and len(result) > 0 and %s[p][1] == result[0][1], exists(r, 0, len(result), g_src[r] == p)))" % (n, inI, Y),
              "every-combination-with-that-sum-is-returned")
    m.ensures("forall(r, 0, len(result), forall(r2, r + 1, len(result), g_src[r] < g_src[r2]))", "each-once-in-stream-order")
    m.ensures("iff(len(result) == 0, not exists(p, 0, %s, %s))" % (n, inI), "empty<=>no-combination-in-the-interval")
    U.verify(None, "min_combinations_in_interval_iter_sorted")
    U.assume("ASSUMED (bounded layer only): the stream contract of sorted_combinations - keys non-decreasing, every non-empty index "
             "combination exactly once (completeness), components are input elements")
    U.assume("sum(scores[i] for i in x) is the key passed to sorted_combinations (the score of a combination): not re-derived here")
    return U
