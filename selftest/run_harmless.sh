#!/bin/bash
# every diff in selftest/harmless/ is a behaviour-preserving edit: ./check <ID> on the edited tree must NOT report a violation
# (exit 0 expected; exit 2 = undecided is tolerated and printed; exit 1 is a false alarm of the machinery).
cd "$(dirname "$0")/.."
wt=${1:-/tmp/harmless_wt}
git -C /repo worktree add --detach "$wt" HEAD -q 2>/dev/null
rc_all=0
for d in selftest/harmless/*.diff; do
  pid=$(basename "$d" | cut -d- -f1)
  git -C "$wt" checkout -q -- . && git -C "$wt" apply "$PWD/$d" || { echo "$d: does not apply"; rc_all=1; continue; }
  out=$(PYVC_REPO="$wt" ./check "$pid" --no-bounded 2>&1); rc=$?
  echo "$(basename $d): exit=$rc $(echo "$out" | grep -E '^property' | cut -c1-110)"
  echo "$out" | grep -E "^(VIOLATION|UNDECIDED)" | cut -c1-200 | head -4
  [ $rc -eq 1 ] && rc_all=1
  git -C "$wt" checkout -q -- .
done
git -C /repo worktree remove --force "$wt"
exit $rc_all
