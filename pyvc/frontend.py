"""Extraction of the real functions from the working tree (DESIGN §2.1 step 1).

The source files are re-read and re-parsed on every run.  Dropped by extraction (and therefore
outside every claim): docstrings, comments, type annotations, Generic/ABC bases and decorators other
than @property/@staticmethod/@classmethod/@dataclass/@abstractmethod.  Nothing else is dropped."""
import ast
import hashlib
import os
import subprocess

REPO = os.environ.get("PYVC_REPO", "/repo")
_mod_cache = {}


def stdlib_file(name):
    """path of a pure-python stdlib module of the interpreter that runs the real code"""
    key = ("stdlib", name)
    if key not in _mod_cache:
        out = subprocess.check_output(["/venv/bin/python", "-c", "import %s as m; print(m.__file__)" % name])
        _mod_cache[key] = out.decode().strip()
    return _mod_cache[key]


def resolve_path(path):
    if path.startswith("stdlib:"):
        return stdlib_file(path[len("stdlib:"):])
    if os.path.isabs(path):
        return path
    return os.path.join(REPO, path)


class ModuleSrc:
    def __init__(self, path):
        self.path = path
        self.file = resolve_path(path)
        self.text = open(self.file, encoding="utf-8").read()
        self.tree = ast.parse(self.text)
        self.classes = {}
        self._index(self.tree.body, "")

    def _index(self, body, prefix):
        for n in body:
            if isinstance(n, ast.ClassDef):
                self.classes[prefix + n.name] = n
                self.classes.setdefault(n.name, n)      # nested classes also reachable by bare name
                self._index(n.body, prefix + n.name + ".")

    def find_class(self, name):
        return self.classes.get(name)

    def find_function(self, qual):
        """qual: 'f', 'Class.m', 'Outer.Inner.m', 'Class.m.<nested>'"""
        parts = qual.split(".")
        body = self.tree.body
        node = None
        for i, p in enumerate(parts):
            nested = p.startswith("<") and p.endswith(">")
            name = p[1:-1] if nested else p
            found = None
            search = body if not nested else [n for n in ast.walk(node) if n is not node]
            for n in search:
                if isinstance(n, (ast.ClassDef, ast.FunctionDef)) and n.name == name:
                    found = n
                    break
            if found is None and i == 0 and name in self.classes:
                found = self.classes[name]          # a nested class addressed by its bare name
            if found is None:
                return None
            node = found
            body = found.body
        return node if isinstance(node, ast.FunctionDef) else None


def load_module(path):
    key = ("mod", path)
    if key not in _mod_cache:
        _mod_cache[key] = ModuleSrc(path)
    return _mod_cache[key]


def clear_cache():
    _mod_cache.clear()


def func_hash(fn_node, src_text):
    seg = ast.get_source_segment(src_text, fn_node) or ast.dump(fn_node)
    return hashlib.sha256(seg.encode()).hexdigest()[:16]


def base_names(cls_node):
    out = []
    for b in cls_node.bases:
        if isinstance(b, ast.Subscript):
            b = b.value
        if isinstance(b, ast.Name):
            out.append(b.id)
        elif isinstance(b, ast.Attribute):
            out.append(b.attr)
    return out


def c3(name, bases_of):
    """C3 linearisation over the classes known to `bases_of` (others are dropped)"""
    def merge(seqs):
        res = []
        seqs = [list(s) for s in seqs if s]
        while seqs:
            for s in seqs:
                h = s[0]
                if not any(h in t[1:] for t in seqs):
                    break
            else:
                raise TypeError("inconsistent MRO for " + name)
            res.append(h)
            seqs = [[x for x in s if x != h] for s in seqs]
            seqs = [s for s in seqs if s]
        return res
    bs = [b for b in bases_of(name)]
    return [name] + merge([c3(b, bases_of) for b in bs] + [bs])


def decorators(fn_node):
    out = []
    for d in fn_node.decorator_list:
        if isinstance(d, ast.Name):
            out.append(d.id)
        elif isinstance(d, ast.Attribute):
            out.append(d.attr)
        elif isinstance(d, ast.Call):
            f = d.func
            out.append(f.id if isinstance(f, ast.Name) else getattr(f, "attr", "?"))
    return out


def strip_docstring(body):
    if body and isinstance(body[0], ast.Expr) and isinstance(body[0].value, ast.Constant) and isinstance(body[0].value.value, str):
        return body[1:]
    return body


def loops_in(fn_node):
    """loops of a function in source order (nested defs excluded); k-th loop is loop#k (1-based)"""
    out = []

    def walk(n):
        for c in ast.iter_child_nodes(n):
            if isinstance(c, (ast.FunctionDef, ast.Lambda, ast.ClassDef)):
                continue
            if isinstance(c, (ast.For, ast.While)):
                out.append(c)
            walk(c)
    walk(fn_node)
    out.sort(key=lambda n: (n.lineno, n.col_offset))
    return out
