"""Value-level operations on symbolic sequences / maps / tuples (DESIGN appendix A.1).

Operations that cannot be written as a closed term (concat, slice, insert, delete, map) introduce a
fresh constant together with its *definitional* axioms (total, always satisfiable), which the caller
adds to the path condition; this is a conservative extension, so it is sound on either side of an
obligation."""
import z3
from .sorts import *

_j = z3.Int("j!")


def ite(c, a, b):
    return z3.If(c, a, b)


def py_eq(a, b):
    """Python == on two symbolic values of the same sort (extensional on sequences)"""
    s = a.s
    if isinstance(s, SeqS):
        return seq_eq(a, b)
    if isinstance(s, TupS) and any(isinstance(e, (SeqS, TupS, MapS)) for e in s.elems):
        return z3.And(*[py_eq(V(tup_get(a.t, i), e), V(tup_get(b.t, i), e)) for i, e in enumerate(s.elems)])
    if isinstance(s, MapS):
        k = z3.Const("k!eq", z(s.k))
        return z3.And(map_size(a.t) == map_size(b.t),
                      z3.ForAll([k], z3.And(map_dom(a.t)[k] == map_dom(b.t)[k],
                                            z3.Implies(map_dom(a.t)[k], map_val(a.t)[k] == map_val(b.t)[k]))))
    return a.t == b.t


_qcnt = [0]
_pending_axioms = []      # definitional facts produced inside coerce(); drained into the path condition by the engine


def has_ite(t):
    todo, seen = [t], set()
    while todo:
        x = todo.pop()
        if x.get_id() in seen:
            continue
        seen.add(x.get_id())
        if z3.is_app(x):
            if x.decl().kind() == z3.Z3_OP_ITE:
                return True
            todo.extend(x.children())
    return False


def forall(vs, body, patterns=()):
    """ForAll with the given patterns unless a pattern is not admissible for z3 (contains if-then-else)"""
    pats = []
    for p in patterns:
        terms = [p] if z3.is_expr(p) else None
        if terms is None or any(has_ite(x) for x in terms):
            if terms is None:
                pats.append(p)      # MultiPattern: trust
            continue
        pats.append(p)
    if pats and len(pats) == len(patterns):
        return z3.ForAll(vs, body, patterns=pats)
    if not patterns and z3.is_quantifier(body) and body.is_forall() and body.num_patterns() == 0:
        # forall x. forall y. B  ==  forall x, y. B : one quantifier, so that z3 can choose a (multi-)pattern over all the variables
        # (a nested quantifier whose outer variable occurs in no admissible pattern of its own is never instantiated)
        n = body.num_vars()
        inner = [z3.Const("%s!m%d" % (body.var_name(i), _qcnt[0] + i), body.var_sort(i)) for i in range(n)]
        _qcnt[0] += n
        ib = z3.substitute_vars(body.body(), *reversed(inner))
        return z3.ForAll(list(vs) + inner, ib)
    return z3.ForAll(vs, body)


def qvar(prefix="q"):
    _qcnt[0] += 1
    return z3.Int("%s!%d" % (prefix, _qcnt[0]))


def seq_eq(a, b):
    j = qvar("je")
    es = a.s.elem
    body = py_eq(V(seq_get(a.t, j), es), V(seq_get(b.t, j), es))
    return z3.And(seq_len(a.t) == seq_len(b.t),
                  z3.ForAll([j], z3.Implies(z3.And(0 <= j, j < seq_len(a.t)), body)))


def seq_contains(s, x):
    j = qvar("jc")
    return z3.Exists([j], z3.And(0 <= j, j < seq_len(s.t), py_eq(V(seq_get(s.t, j), s.s.elem), x)))


def seq_empty(sort):
    return V(seq_mk(sort, z3.IntVal(0), z3.K(z3.IntSort(), default_of(sort.elem))), sort)


_defaults = {}


def default_of(sort):
    """an arbitrary but fixed inhabitant (padding of literal sequences; never observable)"""
    k = sort.key
    if k not in _defaults:
        _defaults[k] = z3.Const("dflt!" + k.replace("[", "_").replace("]", "").replace(",", "_"), z(sort))
    return _defaults[k]


def seq_lit(sort, elems):
    arr = z3.K(z3.IntSort(), default_of(sort.elem))
    for i, e in enumerate(elems):
        arr = z3.Store(arr, i, e.t)
    return V(seq_mk(sort, z3.IntVal(len(elems)), arr), sort)


def seq_append(s, x):
    return V(seq_mk(s.s, seq_len(s.t) + 1, z3.Store(seq_arr(s.t), seq_len(s.t), x.t)), s.s)


def seq_store(s, i, x):
    return V(seq_mk(s.s, seq_len(s.t), z3.Store(seq_arr(s.t), i, x.t)), s.s)


def seq_concat(a, b):
    """returns (value, axioms)"""
    r = fresh("cat", a.s)
    j = qvar("jk")
    ax = [seq_len(r) == seq_len(a.t) + seq_len(b.t),
          forall([j], seq_get(r, j) == ite(j < seq_len(a.t), seq_get(a.t, j), seq_get(b.t, j - seq_len(a.t))),
                    patterns=[seq_get(r, j)])]
    return V(r, a.s), ax


def clamp_index(i, n):
    """effective start/stop of a Python slice bound i for a sequence of length n"""
    e = ite(i < 0, i + n, i)
    return ite(e < 0, z3.IntVal(0), ite(e > n, n, e))


def seq_slice(s, lo, hi):
    """lo, hi: effective (already clamped) bounds; returns (value, axioms)"""
    r = fresh("slc", s.s)
    j = qvar("js")
    ax = [seq_len(r) == ite(hi - lo > 0, hi - lo, z3.IntVal(0)),
          forall([j], seq_get(r, j) == seq_get(s.t, lo + j), patterns=[seq_get(r, j)])]
    return V(r, s.s), ax


def seq_insert(s, i, x):
    """i effective (0..len); returns (value, axioms)"""
    r = fresh("ins", s.s)
    j = qvar("ji")
    ax = [seq_len(r) == seq_len(s.t) + 1,
          forall([j], seq_get(r, j) == ite(j < i, seq_get(s.t, j), ite(j == i, x.t, seq_get(s.t, j - 1))),
                    patterns=[seq_get(r, j)]),
          # the same fact seen from the old sequence (so that selects on s also instantiate it)
          forall([j], seq_get(s.t, j) == ite(j < i, seq_get(r, j), seq_get(r, j + 1)),
                    patterns=[seq_get(s.t, j)])]
    return V(r, s.s), ax


def seq_delete(s, i):
    r = fresh("del", s.s)
    j = qvar("jd")
    ax = [seq_len(r) == seq_len(s.t) - 1,
          forall([j], seq_get(r, j) == ite(j < i, seq_get(s.t, j), seq_get(s.t, j + 1)),
                    patterns=[seq_get(r, j)]),
          # the same fact seen from the old sequence (selects on s instantiate it, so witnesses shift automatically)
          forall([j], z3.Implies(j != i, seq_get(s.t, j) == ite(j < i, seq_get(r, j), seq_get(r, j - 1))),
                    patterns=[seq_get(s.t, j)])]
    return V(r, s.s), ax


def seq_reverse(s):
    r = fresh("rev", s.s)
    j = qvar("jr")
    ax = [seq_len(r) == seq_len(s.t),
          forall([j], seq_get(r, j) == seq_get(s.t, seq_len(s.t) - 1 - j), patterns=[seq_get(r, j)])]
    return V(r, s.s), ax


def seq_range(lo, hi):
    """range(lo, hi) as a sequence value of Int; returns (value, axioms)"""
    sort = SeqS(INT)
    r = fresh("rng", sort)
    j = qvar("jg")
    ax = [seq_len(r) == ite(hi - lo > 0, hi - lo, z3.IntVal(0)),
          forall([j], seq_get(r, j) == lo + j, patterns=[seq_get(r, j)])]
    return V(r, sort), ax


def map_empty(sort):
    return V(map_mk(sort, z3.K(z(sort.k), z3.BoolVal(False)), z3.K(z(sort.k), default_of(sort.v)), z3.IntVal(0)), sort)


def map_set(m, k, v):
    d, va, n = map_dom(m.t), map_val(m.t), map_size(m.t)
    return V(map_mk(m.s, z3.Store(d, k.t, z3.BoolVal(True)), z3.Store(va, k.t, v.t), n + ite(d[k.t], 0, 1)), m.s)


def map_del(m, k):
    d, va, n = map_dom(m.t), map_val(m.t), map_size(m.t)
    return V(map_mk(m.s, z3.Store(d, k.t, z3.BoolVal(False)), va, n - ite(d[k.t], 1, 0)), m.s)


def map_facts(m, k):
    """instances of the well-formedness of a finite map for key k"""
    return [map_size(m.t) >= 0, z3.Implies(map_dom(m.t)[k.t], map_size(m.t) >= 1)]


def truthy(v):
    s = v.s
    if s == BOOL:
        return v.t
    if s == INT:
        return v.t != 0
    if s == REAL:
        return v.t != 0
    if isinstance(s, SeqS):
        return seq_len(v.t) > 0
    if isinstance(s, MapS):
        return map_size(v.t) > 0
    if isinstance(s, RefS):
        return v.t != 0
    if isinstance(s, OptS):
        return z3.Not(opt_is_none(v.t))
    if s == STR:
        from .engine import strlit
        return v.t != strlit("")
    if s == ANY:
        return None
    return None


def is_none(v):
    s = v.s
    if s == NONE:
        return z3.BoolVal(True)
    if isinstance(s, RefS):
        return v.t == 0
    if isinstance(s, OptS):
        return opt_is_none(v.t)
    if s == ANY:
        return v.t == NoneU
    return z3.BoolVal(False)


def none_of(sort):
    if isinstance(sort, RefS):
        return V(z3.IntVal(0), sort)
    if isinstance(sort, OptS):
        return V(opt_none(sort), sort)
    if sort == ANY or sort == NONE:
        return V(NoneU, sort)
    raise TypeError("None has no representation in sort %r" % sort)


def coerce(v, sort):
    """adapt a value to an expected sort where Python would not notice the difference"""
    if v.t is None and isinstance(v.s, SeqS) and isinstance(sort, SeqS):
        return seq_empty(sort)          # [] whose element sort comes from the context
    if isinstance(v.s, SeqS) and v.s.elem in (NONE, ANY) and isinstance(sort, SeqS) and v.s != sort and getattr(v, "all_none", False):
        # [None] * k used where a list of optionals / references is expected: k copies of None
        r = fresh("nones", sort)
        j = qvar("jn")
        _pending_axioms.append(z3.And(seq_len(r) == seq_len(v.t), z3.ForAll([j], seq_get(r, j) == none_of(sort.elem).t, patterns=[seq_get(r, j)])))
        return V(r, sort)
    if v.t is None and isinstance(v.s, MapS) and isinstance(sort, MapS):
        return map_empty(sort)
    if v.s == sort:
        return v
    if v.s == NONE:
        return none_of(sort)
    if v.s == INT and sort == REAL:
        return V(z3.ToReal(v.t), REAL)
    if v.s == BOOL and sort == INT:
        return V(ite(v.t, z3.IntVal(1), z3.IntVal(0)), INT)
    if isinstance(sort, OptS) and v.s == sort.inner:
        return V(opt_some(sort, v.t), sort)
    if isinstance(v.s, SeqS) and isinstance(sort, SeqS) and v.t is not None and isinstance(v.s.elem, TupS) and isinstance(sort.elem, (TupS, SeqS)):
        # elementwise: a list of tuple displays used where the declared element sort models inner tuples as sequences
        j = qvar("jx")
        try:
            ej = coerce(V(seq_get(v.t, j), v.s.elem), sort.elem)
        except TypeError:
            ej = None
        if ej is not None:
            r = fresh("conv", sort)
            _pending_axioms.append(z3.And(seq_len(r) == seq_len(v.t), z3.ForAll([j], seq_get(r, j) == ej.t, patterns=[seq_get(r, j)])))
            return V(r, sort)
    if isinstance(v.s, TupS) and isinstance(sort, SeqS) and all(e == sort.elem for e in v.s.elems):
        # a tuple display used where a variable-length tuple (modelled as a sequence) is expected
        return seq_lit(sort, [V(tup_get(v.t, i), sort.elem) for i in range(len(v.s.elems))])
    if isinstance(v.s, TupS) and isinstance(sort, TupS) and len(v.s.elems) == len(sort.elems):
        parts = [coerce(V(tup_get(v.t, i), e), se) for i, (e, se) in enumerate(zip(v.s.elems, sort.elems))]
        return V(tup_mk(sort, *[p.t for p in parts]), sort)
    if isinstance(sort, OptS) and isinstance(v.s, TupS) and isinstance(sort.inner, TupS):
        return V(opt_some(sort, coerce(v, sort.inner).t), sort)
    if isinstance(v.s, OptS) and v.s.inner == sort:
        return V(opt_val(v.t), sort)
    if isinstance(sort, OptS) and isinstance(v.s, RefS) and isinstance(sort.inner, RefS):
        return V(v.t, sort.inner)
    if isinstance(v.s, RefS) and isinstance(sort, RefS):
        return V(v.t, sort)        # subclass / superclass reference
    if isinstance(sort, UnionS) and v.s in sort.alts:
        return union_inject(sort, v)
    if isinstance(v.s, SeqS) and isinstance(sort, SeqS) and isinstance(sort.elem, UnionS) and v.s.elem in sort.elem.alts:
        n = z3.simplify(seq_len(v.t))
        if z3.is_int_value(n) and n.as_long() <= 8:       # a list display: inject element-wise
            return seq_lit(sort, [union_inject(sort.elem, V(z3.simplify(seq_get(v.t, i)), v.s.elem)) for i in range(n.as_long())])
    if isinstance(v.s, UnionS) and sort in v.s.alts:
        return V(union_get(v.t, v.s, sort), sort)      # projection: the caller has established (or requires) the alternative
    if isinstance(v.s, SeqS) and isinstance(sort, SeqS) and v.s.elem == NONE:
        return V(seq_empty(sort).t, sort) if False else v
    raise TypeError("cannot use a %r where a %r is expected" % (v.s, sort))
