"""Discharge of obligations (DESIGN §2.1 step 4, appendix A.9) and the per-unit driver."""
import os
import subprocess
import tempfile
import time
import traceback
import z3
from . import engine as E
from . import frontend

Z3_VERSION = z3.get_version_string()


def model_summary(m, ob, limit=40):
    out = {}
    try:
        for d in m.decls()[:limit]:
            nm = d.name()
            if "!" in nm and not nm.startswith(("h_", "hc_")):
                continue
            v = m[d]
            sv = str(v)
            if len(sv) > 200:
                sv = sv[:200] + "..."
            out[nm] = sv
    except Exception as e:      # pragma: no cover
        out["<error>"] = str(e)
    return out


def cvc5_check(smt2, timeout_ms):
    """second back end for z3's unknowns: /usr/bin/cvc5 on the SMT-LIB text"""
    exe = "/usr/bin/cvc5"
    if not os.path.exists(exe):
        return "unknown", "no cvc5"
    fd, path = tempfile.mkstemp(suffix=".smt2")
    try:
        with os.fdopen(fd, "w") as f:
            f.write("(set-logic ALL)\n" + smt2 + "\n")
        p = subprocess.run([exe, "--lang=smt2", "--tlimit=%d" % timeout_ms, path], capture_output=True, text=True,
                           timeout=timeout_ms / 1000.0 + 10)
        out = (p.stdout or "").strip().splitlines()
        r = out[0].strip() if out else "unknown"
        if r not in ("sat", "unsat", "unknown"):
            return "unknown", (p.stdout + p.stderr)[:200]
        return r, ""
    except Exception as e:
        return "unknown", str(e)[:200]
    finally:
        os.unlink(path)


def discharge(ob, timeout_ms=10000, use_cvc5=True):
    if ob.result is not None:
        return ob
    t0 = time.time()
    s = z3.Solver()
    s.set("timeout", timeout_ms)
    s.add(*ob.hyps)
    s.add(*E.strlit_axioms())
    if ob.kind in ("vacuity", "vacuity-exit"):
        r = s.check()
        ob.ms = int(1000 * (time.time() - t0))
        ob.backend = "z3-" + Z3_VERSION
        if r == z3.unsat:
            ob.result, ob.detail = "vacuous", "the assumptions (requires + invariant + axioms) are contradictory"
        else:
            ob.result, ob.detail = "discharged", "assumptions %s" % ("satisfiable" if r == z3.sat else "not refuted (unknown)")
        return ob
    s.add(z3.Not(ob.goal))
    r = s.check()
    ob.backend = "z3-" + Z3_VERSION
    if r == z3.unsat:
        ob.result = "discharged"
    elif r == z3.sat:
        ob.result = "refuted"
        try:
            ob.model = model_summary(s.model(), ob)
        except Exception:
            ob.model = {}
    else:
        ob.result = "open"
        ob.detail = "z3: " + s.reason_unknown()
        if use_cvc5:
            try:
                smt2 = s.to_smt2()
                r2, why = cvc5_check(smt2, timeout_ms)
                if r2 == "unsat":
                    ob.result, ob.backend = "discharged", "cvc5(after z3 unknown)"
                elif r2 == "sat":
                    ob.result, ob.backend = "refuted", "cvc5(after z3 unknown)"
                    ob.model = {}
                else:
                    ob.detail += "; cvc5: unknown " + why
            except Exception as e:
                ob.detail += "; cvc5 failed: %s" % e
    ob.ms = int(1000 * (time.time() - t0))
    return ob


def verify_target(unit, cls, fn, timeout_ms=10000, concrete=None):
    """-> dict with the obligations of one function of the unit"""
    eng = E.Engine(unit, timeout_ms=timeout_ms)
    res = {"target": (cls + "." if cls else "") + fn, "concrete": concrete or cls, "obligations": [], "status": "ok", "detail": "", "info": {}}
    t0 = time.time()
    try:
        if cls is not None:
            fc = eng.find_contract(concrete or cls, fn) if concrete else unit.classes[cls].methods[fn]
            if fc is None:
                raise E.StaleContract("no contract for %s.%s" % (cls, fn))
        else:
            fc = unit.functions[fn]
        obs, info = eng.verify(fc, concrete)
        res["info"] = info
        # reachability guard: at least one normal exit must be reachable under the assumptions (unless the contract says
        # the function always raises); individual infeasible exits are fine
        exits = [ob for ob in obs if ob.kind == "vacuity-exit"]
        obs = [ob for ob in obs if ob.kind != "vacuity-exit"]
        if exits:
            reach = None
            for ob in exits[:8]:
                discharge(ob, min(timeout_ms, 3000))
                if ob.result == "discharged":
                    reach = ob
                    break
            rep = reach or exits[0]
            rep.kind = "vacuity"
            if reach is None and len(exits) <= 8:
                rep.result, rep.detail = "vacuous", "no normal exit of the function is reachable under its assumptions"
            elif reach is None:
                rep.result, rep.detail = "discharged", "not decided"
            obs.append(rep)
        for ob in obs:
            discharge(ob, timeout_ms)
            res["obligations"].append({"name": ob.name if not concrete or concrete == cls else ob.name.replace(fc.qualname, concrete + "::" + fc.qualname, 1),
                                       "kind": ob.kind, "result": ob.result, "ms": ob.ms, "backend": ob.backend,
                                       "line": ob.line, "detail": ob.detail, "model": ob.model, "path": ob.path_id})
        res["info"]["stats"] = dict(eng.stats)
    except E.Unsupported as e:
        res["status"], res["detail"] = "unsupported", str(e)
    except E.StaleContract as e:
        res["status"], res["detail"] = "stale-contract", str(e)
    except TypeError as e:
        res["status"], res["detail"] = "unsupported", "sort error: %s\n%s" % (e, traceback.format_exc()[-800:])
    except z3.Z3Exception as e:
        res["status"], res["detail"] = "unsupported", "z3 sort error: %s\n%s" % (e, traceback.format_exc()[-800:])
    except Exception as e:
        res["status"], res["detail"] = "crash", traceback.format_exc()[-1500:]
    res["wall_s"] = round(time.time() - t0, 3)
    return res


def _worker(job):
    unit_loader, idx, timeout_ms = job
    frontend.clear_cache()
    unit = unit_loader()
    t = unit.targets[idx]
    cls, fn = t[0], t[1]
    concrete = t[2] if len(t) > 2 else None
    return verify_target(unit, cls, fn, timeout_ms, concrete)


def verify_unit(unit_loader, timeout_ms=10000, jobs=8):
    """verifies every target of the unit built by unit_loader() (a picklable module-level function)"""
    import multiprocessing as mp
    unit = unit_loader()
    n = len(unit.targets)
    if jobs <= 1 or n <= 1:
        return [_worker((unit_loader, i, timeout_ms)) for i in range(n)]
    ctx = mp.get_context("fork")
    with ctx.Pool(min(jobs, n)) as pool:
        return pool.map(_worker, [(unit_loader, i, timeout_ms) for i in range(n)], chunksize=1)
