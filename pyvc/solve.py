"""Discharge of obligations (DESIGN §2.1 step 4, appendix A.9) and the per-unit driver."""
import os
import subprocess
import tempfile
import time
import traceback
import z3
from . import engine as E
from . import frontend

Z3_VERSION = z3.get_version_string()


def model_summary(m, ob, limit=40):
    out = {}
    try:
        for d in m.decls()[:limit]:
            nm = d.name()
            if "!" in nm and not nm.startswith(("h_", "hc_")):
                continue
            v = m[d]
            sv = str(v)
            if len(sv) > 200:
                sv = sv[:200] + "..."
            out[nm] = sv
    except Exception as e:      # pragma: no cover
        out["<error>"] = str(e)
    return out


def cvc5_check(smt2, timeout_ms):
    """second back end for z3's unknowns: /usr/bin/cvc5 on the SMT-LIB text"""
    exe = "/usr/bin/cvc5"
    if not os.path.exists(exe):
        return "unknown", "no cvc5"
    fd, path = tempfile.mkstemp(suffix=".smt2")
    try:
        with os.fdopen(fd, "w") as f:
            f.write("(set-logic ALL)\n" + smt2 + "\n")
        p = subprocess.run([exe, "--lang=smt2", "--tlimit=%d" % timeout_ms, path], capture_output=True, text=True,
                           timeout=timeout_ms / 1000.0 + 10)
        out = (p.stdout or "").strip().splitlines()
        r = out[0].strip() if out else "unknown"
        if r not in ("sat", "unsat", "unknown"):
            return "unknown", (p.stdout + p.stderr)[:200]
        return r, ""
    except Exception as e:
        return "unknown", str(e)[:200]
    finally:
        os.unlink(path)


def discharge(ob, timeout_ms=10000, use_cvc5=True):
    """z3 with the given budget; an `unknown` is retried twice with another random seed and a doubled budget (solver
    instability must not flip a verdict under load), then handed to cvc5 (thorough tier)"""
    if ob.result is not None:
        return ob
    t_all = time.time()
    # portfolio: z3's quantifier instantiation is unstable (the same query may take 0.05 s or > 30 s depending on the seed and
    # on address-space layout), so several short attempts with different seeds come before the long ones
    # (seed, budget factor, relevance-filter rounds or None for all hypotheses)
    # a round of very short attempts first (an obligation that is provable at all is usually proved in well under 0.1 s by SOME
    # seed / mode; which one depends on the machine), then the longer ones
    # rounds < 0: every (-rounds)-th hypothesis is left out (a different residue class per seed): z3's instantiation order is chaotic
    # and many queries become instant as soon as ANY one quantified hypothesis is absent; proving from fewer hypotheses is sound
    schedule = ((0, 0.05, None), (3, 0.05, 0), (11, 0.05, None), (42, 0.05, 2), (0, 0.1, -3), (1, 0.1, -3), (2, 0.1, -3), (1, 0.1, -2),
                (0, 0.25, None), (0, 0.25, 0), (0, 0.25, 2), (7, 0.25, None), (7, 0.25, 3), (23, 0.25, 0), (101, 0.5, 4),
                (0, 1.0, None), (0, 1.0, 0), (7, 2.0, None))
    for attempt, (seed, factor, rounds) in enumerate(schedule):
        last = attempt == len(schedule) - 1
        _discharge_once(ob, max(400, int(timeout_ms * factor)), use_cvc5 and last, seed, rounds)
        if ob.result != "open" or ob.kind in ("vacuity", "vacuity-exit"):
            break
        ob.result_prev = ob.detail
        if not last:
            ob.result = None
    ob.ms = int(1000 * (time.time() - t_all))
    return ob


_sym_cache = {}


def symbols(e):
    """names of the uninterpreted constants / functions occurring in a term"""
    k = e.get_id()
    if k in _sym_cache:
        return _sym_cache[k]
    out, todo, seen = set(), [e], set()
    while todo:
        x = todo.pop()
        i = x.get_id()
        if i in seen:
            continue
        seen.add(i)
        if z3.is_quantifier(x):
            todo.append(x.body())
            for pi in range(x.num_patterns()):
                pass
        elif z3.is_app(x):
            d = x.decl()
            if d.kind() == z3.Z3_OP_UNINTERPRETED:
                out.add(d.name())
            todo.extend(x.children())
    _sym_cache[k] = out
    return out


def cone(hyps, goal, rounds):
    """relevance filter: hypotheses connected to the goal through shared uninterpreted symbols within `rounds` steps.
    Proving from FEWER hypotheses is sound; it only removes noise for the quantifier instantiation."""
    syms = set(symbols(goal))
    keep = [False] * len(hyps)
    hs = [symbols(h) for h in hyps]
    # symbols that occur almost everywhere (self, the heap arrays, ...) connect everything with everything: not used as links
    freq = {}
    for hsym in hs:
        for x in hsym:
            freq[x] = freq.get(x, 0) + 1
    common = {x for x, c in freq.items() if c > max(6, 0.25 * len(hyps))}
    hs = [h - common if (h - common) else h for h in hs]
    syms = (syms - common) or syms
    for _ in range(rounds):
        grew = False
        for i, hsym in enumerate(hs):
            if not keep[i] and (not hsym or hsym & syms):
                keep[i] = True
                if not hsym <= syms:
                    syms |= hsym
                    grew = True
        if not grew:
            break
    return [h for h, k in zip(hyps, keep) if k]


def _discharge_once(ob, timeout_ms, use_cvc5, seed, rounds=None):
    t0 = time.time()
    s = z3.Solver()
    s.set("timeout", timeout_ms)
    if seed:
        s.set("random_seed", seed)
    if rounds is not None and ob.kind not in ("vacuity", "vacuity-exit"):
        if rounds < 0:
            k = -rounds
            hyps = [h for i, h in enumerate(ob.hyps) if i % k != seed % k]
            s.add(*hyps)
            s.add(*E.strlit_axioms())
            s.add(z3.Not(ob.goal))
            r = s.check()
            ob.backend = "z3-" + Z3_VERSION + "(without every %d. hypothesis:%d/%d hyps)" % (k, len(hyps), len(ob.hyps))
        elif rounds == 0:
            # all hypotheses, each guarded by an assumption literal (changes z3's instantiation strategy; often much faster)
            ps = [z3.Bool("hyp!%d" % i) for i in range(len(ob.hyps))]
            for p_, h_ in zip(ps, ob.hyps):
                s.add(z3.Implies(p_, h_))
            s.add(*E.strlit_axioms())
            s.add(z3.Not(ob.goal))
            r = s.check(*ps)
            ob.backend = "z3-" + Z3_VERSION + "(tracked hyps)"
            hyps = ob.hyps
        else:
            hyps = cone(ob.hyps, ob.goal, rounds)
            s.add(*hyps)
            s.add(*E.strlit_axioms())
            s.add(z3.Not(ob.goal))
            r = s.check()
            ob.backend = "z3-" + Z3_VERSION + "(cone%d:%d/%d hyps)" % (rounds, len(hyps), len(ob.hyps))
        ob.result = "discharged" if r == z3.unsat else "open"      # sat / unknown from fewer hypotheses mean nothing
        if r != z3.unsat:
            ob.detail = "z3(cone): " + (s.reason_unknown() if r == z3.unknown else "sat with filtered hypotheses")
        ob.ms = int(1000 * (time.time() - t0))
        return ob
    s.add(*ob.hyps)
    s.add(*E.strlit_axioms())
    if ob.kind in ("vacuity", "vacuity-exit"):
        r = s.check()
        ob.ms = int(1000 * (time.time() - t0))
        ob.backend = "z3-" + Z3_VERSION
        if r == z3.unsat:
            ob.result, ob.detail = "vacuous", "the assumptions (requires + invariant + axioms) are contradictory"
        else:
            ob.result, ob.detail = "discharged", "assumptions %s" % ("satisfiable" if r == z3.sat else "not refuted (unknown)")
        return ob
    s.add(z3.Not(ob.goal))
    r = s.check()
    ob.backend = "z3-" + Z3_VERSION
    if r == z3.unsat:
        ob.result = "discharged"
    elif r == z3.sat:
        ob.result = "refuted"
        try:
            ob.model = model_summary(s.model(), ob)
        except Exception:
            ob.model = {}
    else:
        ob.result = "open"
        ob.detail = "z3: " + s.reason_unknown()
        if use_cvc5:
            try:
                smt2 = s.to_smt2()
                r2, why = cvc5_check(smt2, timeout_ms)
                if r2 == "unsat":
                    ob.result, ob.backend = "discharged", "cvc5(after z3 unknown)"
                elif r2 == "sat":
                    ob.result, ob.backend = "refuted", "cvc5(after z3 unknown)"
                    ob.model = {}
                else:
                    ob.detail += "; cvc5: unknown " + why
            except Exception as e:
                ob.detail += "; cvc5 failed: %s" % e
    ob.ms = int(1000 * (time.time() - t0))
    return ob


def generate_lemma(unit, name):
    """the two induction obligations of a lemma (the lemma's own axiom is NOT among the hypotheses)"""
    from .dsl import FuncC
    from .sorts import V, z, INT, BOOL
    lem = next(l for l in unit.lemmas if l["name"] == name)
    res = {"target": "lemma:" + name, "concrete": None, "obligations": [], "status": "ok", "detail": "", "info": {"paths": 2, "file": "(contract lemma)",
           "source_hash": "-", "line": 0}}
    obs = []
    try:
        eng = E.Engine(unit)
        fc = FuncC(unit, None, None, "lemma:" + name, lem["params"], BOOL)
        fc.kind = "function"
        k = lem["induct"]

        def setup(extra_locals=None):
            P = E.Path(eng, fc, None, None, None, None, [], E.Oracle([]), 1)
            heap = {key: z3.Const("H_%s_%s" % key, z3.ArraySort(z3.IntSort(), z(srt))) for key, srt in eng.all_heap_keys().items()}
            P.env = E.Env({}, heap, z3.Const("alloc0", z3.ArraySort(z3.IntSort(), z3.BoolSort())), spec=True)
            P.axioms_added = {"lemma:" + name}        # never use the lemma to prove itself
            P.selfname = None
            for p_, srt in lem["params"].items():
                P.env.locals[p_] = V(z3.Const(p_, z(srt)), srt)
                P.wf(P.env.locals[p_])
            return P
        kv = z3.Int(k) if k else None
        req = lambda P, env: z3.And(*[P.ev_spec(r, env).t for r in lem["requires"]]) if lem["requires"] else z3.BoolVal(True)
        ens = lambda P, env: z3.And(*[P.ev_spec(e_, env).t for e_ in lem["ensures"]])
        unf = lambda P: [P.assume_use(u_, P.env) for u_ in lem["unfold"]]
        if k is None:
            # a plain consequence of the contracts' clauses and the unit's axioms (composition lemma): one obligation
            P = setup()
            unf(P)
            P.assume(req(P, P.env))
            P.oblige("lemma:%s/consequence" % name, ens(P, P.env), "lemma", 0)
            obs.extend(P.obligations)
            return res, obs
        # base
        P = setup()
        P.assume(kv <= 0)
        unf(P)
        P.assume(req(P, P.env))
        P.oblige("lemma:%s/base(%s<=0)" % (name, k), ens(P, P.env), "lemma", 0)
        obs.extend(P.obligations)
        # step
        P = setup()
        P.assume(kv >= 1)
        prev = E.Env(dict(P.env.locals), P.env.heap, P.env.alloc, spec=True)
        prev.locals[k] = V(kv - 1, INT)
        gens = []
        for g in lem["generalize"]:
            srt = lem["params"][g]
            c = z3.Const(g + "!ih", z(srt))
            prev.locals[g] = V(c, srt)
            gens.append(c)
        ih = z3.Implies(req(P, prev), ens(P, prev))
        P.assume(z3.ForAll(gens, ih) if gens else ih)
        unf(P)
        P.assume(req(P, P.env))
        P.oblige("lemma:%s/step(%s-1=>%s)" % (name, k, k), ens(P, P.env), "lemma", 0)
        obs.extend(P.obligations)
    except E.StaleContract as e:
        res["status"], res["detail"] = "stale-contract", str(e)
    except Exception:
        res["status"], res["detail"] = "crash", traceback.format_exc()[-1500:]
    return res, obs


def generate_target(unit, cls, fn, concrete=None, variant=None):
    """symbolic execution of one function -> (result skeleton, list of Obligation objects)"""
    if cls == "lemma:":
        return generate_lemma(unit, fn)
    eng = E.Engine(unit)
    res = {"target": (cls + "." if cls else "") + fn, "concrete": concrete or cls, "obligations": [], "status": "ok", "detail": "", "info": {}}
    t0 = time.time()
    obs = []
    try:
        if cls is not None and variant:
            fc = getattr(unit.classes[cls], "variants", {}).get((fn, variant))
            if fc is None:
                raise E.StaleContract("no contract variant %s for %s.%s" % (variant, cls, fn))
            res["target"] += "[%s]" % variant
        elif cls is not None:
            fc = eng.find_contract(concrete or cls, fn) if concrete else unit.classes[cls].methods[fn]
            if fc is None:
                raise E.StaleContract("no contract for %s.%s" % (cls, fn))
        else:
            fc = unit.functions[fn]
        obs, info = eng.verify(fc, concrete)
        res["info"] = info
        res["info"]["stats"] = dict(eng.stats)
        if info.get("stale"):
            res["status"], res["detail"] = "stale-contract", info["stale"]
        if concrete and concrete != cls:
            for ob in obs:
                ob.name = ob.name.replace(fc.qualname, concrete + "::" + fc.qualname, 1)
    except E.Unsupported as e:
        res["status"], res["detail"] = "unsupported", str(e)
    except E.StaleContract as e:
        res["status"], res["detail"] = "stale-contract", str(e)
    except TypeError as e:
        res["status"], res["detail"] = "unsupported", "sort error: %s\n%s" % (e, traceback.format_exc()[-800:])
    except z3.Z3Exception as e:
        res["status"], res["detail"] = "unsupported", "z3 sort error: %s\n%s" % (e, traceback.format_exc()[-800:])
    except Exception as e:
        res["status"], res["detail"] = "crash", traceback.format_exc()[-1500:]
    res["gen_s"] = round(time.time() - t0, 3)
    return res, obs


_OBS = []          # obligations of the unit being verified (inherited by forked solver processes)
_OPTS = {}


def _solve_idx(i):
    ob = _OBS[i]
    tmo = _OPTS["timeout_ms"]
    if ob.kind == "vacuity-exit":
        tmo = min(tmo, 3000)
    discharge(ob, tmo, _OPTS.get("use_cvc5", False))
    return i, ob.result, ob.ms, ob.backend, ob.detail, ob.model


def verify_unit(unit_loader, timeout_ms=10000, jobs=8, use_cvc5=False):
    """verifies every target of the unit built by unit_loader(): VC generation in this process, discharge in forked workers"""
    import multiprocessing as mp
    global _OBS, _OPTS
    frontend.clear_cache()
    unit = unit_loader()
    skeletons = []
    _OBS = []
    for t in unit.targets:
        cls, fn = t[0], t[1]
        concrete = t[2] if len(t) > 2 else None
        res, obs = generate_target(unit, cls, fn, concrete, t[3] if len(t) > 3 else None)
        skeletons.append((res, len(_OBS), len(obs)))
        _OBS.extend(obs)
    # ---- uncovered overrides: a repository class under contract that DEFINES a method which a standard-library mixin of its MRO also
    #      defines, while no contract of this unit covers that name, has replaced inherited behaviour by code nobody looks at (the mixin
    #      methods that are under contract are verified through find_source, i.e. the override itself is what gets verified).  Reported as
    #      a stale contract (undecided), never as a violation.
    try:
        eng = E.Engine(unit)
        import ast as _ast
        concretes = []
        for t in unit.targets:
            c_ = (t[2] if len(t) > 2 and t[2] else t[0])
            if c_ and c_ != "lemma:" and c_ in unit.classes and c_ not in concretes:
                concretes.append(c_)
        # a class that is only a base of another verified class (abstract skeleton) is looked at through that subclass
        concretes = [c_ for c_ in concretes if not any(c_ != d_ and c_ in eng.mro(d_) for d_ in concretes)]
        flagged = set()
        for cname in concretes:
            if unit.classes[cname].module.path.startswith(("env:", "stdlib:")):
                continue
            mro = eng.mro(cname)
            std = [b for b in mro if b in unit.classes and unit.classes[b].module.path.startswith("stdlib:")]
            for rc in mro:
                rcc = unit.classes.get(rc)
                if rcc is None or rcc.module.path.startswith(("env:", "stdlib:")):
                    continue
                m_, cn = eng.src_class(rc)
                if cn is None:
                    continue
                for n in cn.body:
                    if not isinstance(n, _ast.FunctionDef) or (cname, n.name) in flagged or eng.find_contract(cname, n.name) is not None:
                        continue
                    if any(n.name == v[0] for v in getattr(rcc, "variants", {})):
                        continue
                    for b in std:
                        bm, bcn = eng.src_class(b)
                        # (an @abstractmethod of the mixin is a hole the class is meant to fill, not inherited behaviour)
                        if bcn is not None and any(isinstance(x, _ast.FunctionDef) and x.name == n.name
                                                   and not any("abstractmethod" in _ast.dump(d_) for d_ in x.decorator_list) for x in bcn.body):
                            flagged.add((cname, n.name))
                            skeletons.append(({"target": "%s.%s" % (rc, n.name), "concrete": cname, "obligations": [], "status": "stale-contract",
                                               "detail": "%s.%s (line %d) overrides the standard-library mixin %s.%s for %s but no contract of "
                                                         "this unit covers it: uncovered override" % (rc, n.name, n.lineno, b, n.name, cname),
                                               "info": {"file": m_.path, "line": n.lineno}}, len(_OBS), 0))
                            break
    except Exception:
        pass
    _OPTS = {"timeout_ms": timeout_ms, "use_cvc5": use_cvc5}
    todo = [i for i, ob in enumerate(_OBS) if ob.result is None]
    t0 = time.time()
    if jobs <= 1 or len(todo) <= 1:
        outs = [_solve_idx(i) for i in todo]
    else:
        ctx = mp.get_context("fork")
        # one fresh fork of this process per obligation: every query starts from the same solver state, so verdicts do not
        # depend on which other obligations a worker happened to solve before (scheduling / load)
        with ctx.Pool(min(jobs, len(todo)), maxtasksperchild=1) as pool:
            outs = pool.map(_solve_idx, todo, chunksize=1)
    for i, result, ms, backend, detail, model in outs:
        ob = _OBS[i]
        ob.result, ob.ms, ob.backend, ob.detail, ob.model = result, ms, backend, detail, model
    out = []
    for res, start, n in skeletons:
        obs = _OBS[start:start + n]
        # reachability guard: at least one normal exit must be reachable under the assumptions
        exits = [ob for ob in obs if ob.kind == "vacuity-exit"]
        keep = [ob for ob in obs if ob.kind != "vacuity-exit"]
        if not exits and res["status"] == "ok" and keep and not res["target"].startswith("lemma:"):
            fcq = res["target"]
            dead = E.Obligation("%s/vacuity:normal-exit-reachable" % fcq, [], None, "vacuity", 0, 0)
            always_raises = any(ob.kind == "raises" for ob in keep) and not any(ob.kind == "post" for ob in keep)
            if not always_raises:
                dead.result, dead.backend, dead.detail = "vacuous", "path-exploration", "no explored path reaches a normal exit"
                keep.append(dead)
        if exits:
            reach = next((ob for ob in exits if ob.result == "discharged"), None)
            rep = reach or exits[0]
            rep.kind = "vacuity"
            if reach is None:
                rep.result, rep.detail = "vacuous", "no normal exit of the function is reachable under its assumptions"
            keep.append(rep)
        for ob in keep:
            res["obligations"].append({"name": ob.name, "kind": ob.kind, "result": ob.result, "ms": ob.ms, "backend": ob.backend,
                                       "line": ob.line, "detail": ob.detail, "model": ob.model, "path": ob.path_id})
        res["wall_s"] = res.get("gen_s", 0)
        out.append(res)
    _OBS = []
    return out
