"""pyvc symbolic executor: generates verification conditions from the REAL function bodies (ast of the
working tree) against the sidecar contracts, one path at a time (DESIGN §2, appendix A).

Path enumeration is by re-execution under a decision oracle: the interpreter below always runs ONE
path; every branch point asks `decide(cond)`; the driver enumerates decision prefixes depth-first.
Soundness never depends on the feasibility checks (an infeasible path only produces valid VCs)."""
import ast
import time
import z3
from .sorts import *
from . import ops
from .ops import ite
from .dsl import FuncC, ClassC, LoopC
from . import frontend


class Unsupported(Exception):
    pass


class StaleContract(Exception):
    pass


class PyExc(Exception):
    def __init__(self, name, line=0):
        self.name, self.line = name, line


class ReturnSig(Exception):
    def __init__(self, value):
        self.value = value


class BreakSig(Exception):
    pass


class ContinueSig(Exception):
    pass


class PathEnd(Exception):
    pass


EXC_PARENTS = {
    "IndexError": "LookupError", "KeyError": "LookupError", "LookupError": "Exception",
    "ValueError": "Exception", "TypeError": "Exception", "AttributeError": "Exception",
    "RuntimeError": "Exception", "AssertionError": "Exception", "StopIteration": "Exception",
    "FileNotFoundError": "OSError", "OSError": "Exception", "Empty": "Exception", "Full": "Exception",
    "ZeroDivisionError": "ArithmeticError", "ArithmeticError": "Exception", "Exception": "BaseException",
    "UnicodeDecodeError": "ValueError", "NotImplementedError": "RuntimeError",
}


def exc_matches(name, handler):
    while name is not None:
        if name == handler:
            return True
        name = EXC_PARENTS.get(name)
    return False


class Obligation:
    def __init__(self, name, hyps, goal, kind, line, path_id):
        self.name, self.hyps, self.goal, self.kind, self.line, self.path_id = name, hyps, goal, kind, line, path_id
        self.result = None
        self.ms = 0
        self.backend = None
        self.model = None
        self.detail = ""
        self.result_prev = None


class Env:
    """evaluation environment: locals + heap (+ the entry state for old())"""

    def __init__(self, locals_, heap, alloc, spec=False, old=None, result=None, yielded=None, binders=None):
        self.locals, self.heap, self.alloc = locals_, heap, alloc
        self.spec, self.old, self.result, self.yielded = spec, old, result, yielded
        self.binders = binders or {}

    def spec_view(self, old=None, result=None, extra=None):
        loc = dict(self.locals)
        if extra:
            loc.update(extra)
        return Env(loc, self.heap, self.alloc, True, old if old is not None else self.old, result, self.yielded,
                   dict(self.binders))


class Oracle:
    def __init__(self, prefix):
        self.prefix = prefix
        self.trail = []       # (decision, alternative_feasible)


class Engine:
    def __init__(self, unit, timeout_ms=10000, feas_timeout_ms=400, max_paths=600):
        self.unit = unit
        self.timeout_ms, self.feas_timeout_ms, self.max_paths = timeout_ms, feas_timeout_ms, max_paths
        self.srcs = [frontend.load_module(p) for p in unit.modules if not p.startswith("env:")]
        self._mro = {}
        self.stats = {"paths": 0, "decisions": 0, "feas_calls": 0}
        self._axioms_z3 = None

    # ---------------------------------------------------------------- class tables
    def src_class(self, name):
        for m in self.srcs:
            c = m.find_class(name)
            if c is not None:
                return m, c
        return None, None

    def bases_of(self, name):
        m, c = self.src_class(name)
        if c is None:
            return []
        return [b for b in frontend.base_names(c) if self.src_class(b)[1] is not None or b in self.unit.classes]

    def mro(self, name):
        if name not in self._mro:
            self._mro[name] = frontend.c3(name, self.bases_of)
        return self._mro[name]

    def field_decl(self, clsname, attr):
        """-> (owner class name, sort, is_ghost) of attribute `attr` on instances of `clsname`"""
        for c in self.mro(clsname):
            cc = self.unit.classes.get(c)
            if cc is None:
                continue
            if attr in cc.fields:
                return c, cc.fields[attr], False
            if attr in cc.ghost:
                return c, cc.ghost[attr], True
        return None

    def find_contract(self, clsname, meth):
        for c in self.mro(clsname):
            cc = self.unit.classes.get(c)
            if cc is not None and meth in cc.methods:
                return cc.methods[meth]
        return None

    def find_source(self, clsname, meth, after=None):
        """first definition of `meth` along the MRO of clsname (after class `after` if given)"""
        order = self.mro(clsname)
        if after is not None:
            order = order[order.index(after) + 1:]
        for c in order:
            m, cn = self.src_class(c)
            if cn is None:
                continue
            for n in cn.body:
                if isinstance(n, ast.FunctionDef) and n.name == meth:
                    return m, c, n
        return None, None, None

    def invariants_of(self, clsname):
        out = []
        for c in reversed(self.mro(clsname)):
            cc = self.unit.classes.get(c)
            if cc is not None:
                out.extend((e, "%s.%s" % (c, l)) for e, l in cc.invariants)
        return out

    def all_heap_keys(self):
        keys = {}
        for cn, cc in self.unit.classes.items():
            for f, s in list(cc.fields.items()) + list(cc.ghost.items()):
                keys[(cn, f)] = s
        return keys

    # ---------------------------------------------------------------- verification of one function
    def verify(self, fc, concrete=None):
        """returns (obligations, info) for function contract fc, verified for receiver class `concrete`"""
        t0 = time.time()
        if fc.cls is not None:
            concrete = concrete or fc.cls.name
            modsrc, defcls, node = self.find_source(concrete, fc.name)
            if node is None:
                raise StaleContract("no method %s on %s in the source" % (fc.name, concrete))
        else:
            modsrc = frontend.load_module(fc.module.path)
            node = modsrc.find_function(fc.name)
            defcls = None
            if node is None:
                raise StaleContract("no function %s in %s" % (fc.name, fc.module.path))
        loops = frontend.loops_in(node)
        for k in fc.loops:
            if isinstance(k, int) and k > len(loops):
                raise StaleContract("%s has %d loops, contract names loop#%d" % (fc.qualname, len(loops), k))
        uncovered = [k for k in range(1, len(loops) + 1) if k not in fc.loops]
        obligations = []
        stack = [[]]
        npaths = 0
        seen = set()
        # deterministic names: all fresh-name counters restart for every function
        import pyvc.sorts as _so
        _so._cnt[0] = 0
        ops._qcnt[0] = 0
        Path._hc[0] = 0
        while stack:
            prefix = stack.pop()
            npaths += 1
            if npaths > self.max_paths:
                raise Unsupported("more than %d paths in %s" % (self.max_paths, fc.qualname))
            P = Path(self, fc, node, modsrc, defcls, concrete, loops, Oracle(prefix), npaths)
            P.run()
            for ob in P.obligations:
                key = (ob.name, ob.goal.sexpr() if hasattr(ob.goal, "sexpr") else str(ob.goal), len(ob.hyps),
                       hash(tuple(h.get_id() for h in ob.hyps)))
                if key in seen:
                    continue
                seen.add(key)
                obligations.append(ob)
            tr = P.oracle.trail
            for i in range(len(prefix), len(tr)):
                if tr[i][1]:
                    stack.append([d for d, _ in tr[:i]] + [not tr[i][0]])
        self.stats["paths"] += npaths
        stale = None
        if uncovered:
            # a loop the contract knows nothing about (the code was restructured): every VC after it is too weak to mean anything.
            # Only the syntactic frame checks survive; the function is reported as stale-contract (undecided), never as a violation.
            obligations = [ob for ob in obligations if ob.backend == "syntactic-frame-check"]
            stale = "loop#%s of %s has no loop contract (the code has %d loop(s), the contract covers %s)" % (
                ",".join(map(str, uncovered)), fc.qualname, len(loops), sorted(fc.loops) or "none")
        info = {"function": fc.qualname, "concrete": concrete, "paths": npaths, "stale": stale,
                "source_hash": frontend.func_hash(node, modsrc.text), "file": modsrc.path, "line": node.lineno,
                "gen_s": round(time.time() - t0, 3)}
        return obligations, info

    def axioms_mentioning(self, name):
        import re
        return [(e, l) for e, l in self.unit.axioms if re.search(r"\b%s\(" % re.escape(name), e)]


class Path:
    """one symbolic execution path through one function"""

    def __init__(self, eng, fc, node, modsrc, defcls, concrete, loops, oracle, pid):
        self.eng, self.unit, self.fc, self.node, self.modsrc = eng, eng.unit, fc, node, modsrc
        self.defcls, self.concrete, self.loops, self.oracle, self.pid = defcls, concrete, loops, oracle, pid
        self.pc = []
        self.pc_ids = set()
        self.obligations = []
        self.callno = 0
        self.env = None
        self.entry = None
        self.nested = {}         # nested function defs by name
        self.lambdas = {}
        self.dead = False

    # ------------------------------------------------------------------ infrastructure
    def emitting(self):
        return len(self.oracle.trail) >= len(self.oracle.prefix)

    def oblige(self, name, goal, kind, line=0):
        if not self.emitting():
            return
        g = z3.simplify(goal) if z3.is_expr(goal) else z3.BoolVal(bool(goal))
        if z3.is_true(g):
            # still recorded: it was generated and is trivially discharged
            ob = Obligation(name, [], z3.BoolVal(True), kind, line, self.pid)
            ob.result, ob.backend = "discharged", "simplifier"
            self.obligations.append(ob)
            return
        if z3.is_expr(goal) and self.goal_is_a_hypothesis(goal):
            # the goal (or each of its conjuncts) is literally one of the path's hypotheses up to the names of bound variables, e.g. a
            # class invariant over state this path never touched: discharged without a solver (no instantiation search, no timing luck)
            ob = Obligation(name, [], z3.BoolVal(True), kind, line, self.pid)
            ob.result, ob.backend = "discharged", "identity(hypothesis)"
            self.obligations.append(ob)
            return
        self.obligations.append(Obligation(name, list(self.pc), goal, kind, line, self.pid))

    _akeys = {}

    @staticmethod
    def alpha_key(e):
        """structural key of a term that ignores the names of bound variables (quantifier bodies use de Bruijn indices)"""
        memo = Path._akeys
        stack, out = [(e, False)], {}
        while stack:
            x, done = stack.pop()
            i = x.get_id()
            if i in memo:
                continue
            if z3.is_quantifier(x):
                kids = [x.body()]
            elif z3.is_app(x):
                kids = x.children()
            else:
                kids = []
            if not done:
                stack.append((x, True))
                for k in kids:
                    if k.get_id() not in memo:
                        stack.append((k, False))
                continue
            if z3.is_quantifier(x):
                memo[i] = hash(("Q", x.is_forall(), x.num_vars(), tuple(x.var_sort(j).name() for j in range(x.num_vars())), memo[x.body().get_id()]))
            elif z3.is_var(x):
                memo[i] = hash(("V", z3.get_var_index(x), x.sort().name()))
            elif z3.is_app(x):
                d = x.decl()
                memo[i] = hash(("A", d.name(), d.kind(), x.sort().name(), x.sexpr() if not kids and d.kind() != z3.Z3_OP_UNINTERPRETED else "",
                                tuple(memo[k.get_id()] for k in kids)))
            else:
                memo[i] = hash(("X", x.sexpr()))
        return memo[e.get_id()]

    def goal_is_a_hypothesis(self, goal):
        if not hasattr(self, "_hyp_keys") or self._hyp_keys_n != len(self.pc):
            keys = getattr(self, "_hyp_keys", set())
            start = getattr(self, "_hyp_keys_n", 0)
            if start > len(self.pc):
                keys, start = set(), 0
            for h in self.pc[start:]:
                for c in (h.children() if z3.is_and(h) else [h]):
                    keys.add(Path.alpha_key(c))
                keys.add(Path.alpha_key(h))
            self._hyp_keys, self._hyp_keys_n = keys, len(self.pc)
        parts = goal.children() if z3.is_and(goal) else [goal]
        return all(Path.alpha_key(c) in self._hyp_keys for c in parts)

    def assume(self, *facts):
        if ops._pending_axioms:
            extra, ops._pending_axioms[:] = list(ops._pending_axioms), []
            facts = tuple(extra) + tuple(facts)
        for f in facts:
            if f is None:
                continue
            if isinstance(f, V):
                f = f.t
            if z3.is_true(f):
                continue
            fid = f.get_id()
            if fid in self.pc_ids:
                continue
            self.pc_ids.add(fid)
            self.pc.append(f)

    def feasible(self, cond):
        self.eng.stats["feas_calls"] += 1
        s = z3.Solver()
        s.set("timeout", self.eng.feas_timeout_ms)
        s.add(*self.pc)
        s.add(cond)
        return s.check() != z3.unsat

    def decide(self, cond):
        c = z3.simplify(cond)
        if z3.is_true(c):
            return True
        if z3.is_false(c):
            return False
        o = self.oracle
        i = len(o.trail)
        self.eng.stats["decisions"] += 1
        if i < len(o.prefix):
            d = o.prefix[i]
            o.trail.append((d, False))
        else:
            ft = self.feasible(c)
            ff = self.feasible(z3.Not(c))
            if ft and ff:
                d = True
                o.trail.append((True, True))
            elif ft:
                d = True
                o.trail.append((True, False))
            elif ff:
                d = False
                o.trail.append((False, False))
            else:
                o.trail.append((True, False))
                self.dead = True
                # the path condition is already contradictory: an assumed contract / invariant / axiom excluded everything.
                # Legitimate only after a call whose contract says it never returns normally (`ensures False`).
                if not getattr(self, "expect_dead", False):
                    ob = Obligation("%s/vacuity:dead-path-after-contradictory-assumptions" % self.fc.qualname, [], None, "vacuity", 0, self.pid)
                    ob.result, ob.backend = "vacuous", "feasibility-check"
                    ob.detail = "path condition became unsatisfiable by assumptions (not by a branch condition) before line-level decision %d" % i
                    self.obligations.append(ob)
                raise PathEnd()
        self.pc.append(c if d else z3.Not(c))
        return d

    def guard(self, ok, exc, line=0):
        """operation raises `exc` unless `ok`"""
        if not self.decide(ok):
            raise PyExc(exc, line)

    def require_axioms(self, name):
        """cone of influence: the definitional axioms of a spec function join the path condition when it is first used"""
        if name in self.axioms_added:
            return
        self.axioms_added.add(name)
        for e, l in self.eng.axioms_mentioning(name):
            if l in self.axioms_added:
                continue
            self.axioms_added.add(l)
            self.assume(self.ev_spec(e, Env({}, self.env.heap, self.env.alloc, spec=True)))

    def check_guard(self, recv, owner, attr, line):
        g = self.unit.guards.get((owner, attr))
        if g is None or self.fc.kind == "init":
            return
        cond, label = g
        sub = Env({"self": recv}, self.env.heap, self.env.alloc, spec=True)
        self.oblige("%s/%s@L%d:%s.%s" % (self.fc.qualname, label, line, owner, attr), self.ev_spec(cond, sub).t, "guarded-access", line)

    def apply_interference(self, line, why, receiver=None):
        """thread-modular environment step (DESIGN §5): other processes / threads may have run"""
        itf = self.unit.interference
        if itf is None or not self.selfname or self.fc.kind == "init":
            return
        if getattr(self.fc, "quiescent", False):
            return          # the contract requires that no other process / thread is active during this call
        if itf["cls"] not in self.eng.mro(self.concrete):
            return          # code of another thread class: its own rely is stated in its contract
        selfv = self.env.locals[self.selfname]
        pre = Env({"self": selfv}, dict(self.env.heap), self.env.alloc, spec=True)
        pre.old = pre
        w = self.ev_spec(itf["when"], pre).t
        if not self.decide(w):
            return
        whole, cells = set(), {}
        for loc in itf["modifies"]:
            self._mod_loc(loc, pre, whole, cells)
        for key in sorted(whole):
            self._uniq_heap(key)
        for key, refs in sorted(cells.items(), key=lambda kv: kv[0]):
            srt = self.eng.all_heap_keys()[key]
            for r in refs:
                self.havoc_cell(key, r, srt)
        post = Env({"self": selfv}, self.env.heap, self.env.alloc, spec=True, old=pre)
        for e in itf["ensures"]:
            self.assume(self.ev_spec(e, post))

    def new_ref(self, clsname):
        r = fresh("new_" + clsname, INT)
        self.assume(r > 0, z3.Not(z3.Select(self.env.alloc, r)))
        self.env.alloc = z3.Store(self.env.alloc, r, z3.BoolVal(True))
        return V(r, RefS(clsname))

    def wf(self, v):
        """well-formedness facts of a value that enters the path from outside (parameter, heap read, havoc)"""
        s = v.s
        if isinstance(s, SeqS):
            self.assume(seq_len(v.t) >= 0)
        elif isinstance(s, MapS):
            self.assume(map_size(v.t) >= 0)
        elif isinstance(s, RefS):
            self.assume(v.t >= 0)
        elif isinstance(s, OptS):
            if isinstance(s.inner, (SeqS, MapS, TupS)):
                self.wf(V(opt_val(v.t), s.inner))      # harmless when the value is none (the payload is then unconstrained)
        elif isinstance(s, TupS):
            for i, e in enumerate(s.elems):
                if isinstance(e, (SeqS, MapS, RefS, TupS)):
                    self.wf(V(tup_get(v.t, i), e))

    # ------------------------------------------------------------------ heap
    def hkey(self, clsname, attr):
        d = self.eng.field_decl(clsname, attr)
        if d is None:
            raise Unsupported("attribute %s.%s has no declared sort in unit %s" % (clsname, attr, self.unit.name))
        return d

    def hread(self, env, ref, attr):
        owner, sort, ghost = self.hkey(ref.s.cls, attr)
        t = z3.simplify(z3.Select(env.heap[(owner, attr)], ref.t))
        v = V(t, sort)
        self.wf(v)      # every sequence / map stored in the heap is well formed (len >= 0): standing assumption
        return v

    def hwrite(self, ref, attr, val):
        owner, sort, ghost = self.hkey(ref.s.cls, attr)
        val = ops.coerce(self.fix_empty(val, sort), sort)
        self.env.heap[(owner, attr)] = z3.Store(self.env.heap[(owner, attr)], ref.t, val.t)

    # ------------------------------------------------------------------ setup / run
    def run(self):
        fc, node = self.fc, self.node
        heap = {}
        for key, sort in self.eng.all_heap_keys().items():
            heap[key] = z3.Const("H_%s_%s" % key, z3.ArraySort(z3.IntSort(), z(sort)))
        alloc = z3.Const("alloc0", z3.ArraySort(z3.IntSort(), z3.BoolSort()))
        self.env = Env({}, heap, alloc)
        try:
            self._run_inner()
        except PathEnd:
            pass

    def bind_params(self):
        fc, node = self.fc, self.node
        args = node.args
        names = [a.arg for a in args.posonlyargs + args.args]
        decs = frontend.decorators(node)
        is_static = "staticmethod" in decs
        is_classm = "classmethod" in decs
        loc = self.env.locals
        if fc.cls is not None and not is_static:
            selfname = names[0]
            names = names[1:]
            if is_classm and selfname in fc.params:
                # the class object is a parameter of the contract: any (sub)class, symbolic
                cv = V(z3.Const(selfname, z3.IntSort()), fc.params[selfname])
                self.assume(cv.t > 0, z3.Select(self.env.alloc, cv.t))
                loc[selfname] = cv
                self.selfname = selfname
            elif is_classm:
                loc[selfname] = V(z3.IntVal(-1), RefS(self.concrete))     # the class object itself
            else:
                ssort = RefS(self.concrete)
                if fc.kind == "init":
                    sv = self.new_ref(self.concrete)
                else:
                    sv = V(z3.Const("self", z3.IntSort()), ssort)
                    self.assume(sv.t > 0, z3.Select(self.env.alloc, sv.t))
                loc[selfname] = sv
                self.selfname = selfname
        for n in names + [a.arg for a in args.kwonlyargs]:
            if n not in fc.params:
                raise StaleContract("parameter %s of %s has no declared sort" % (n, fc.qualname))
            s = fc.params[n]
            if isinstance(s, FunS):
                loc[n] = V(None, s)
                continue
            v = V(z3.Const(n, z(s)), s)
            self.wf(v)
            if isinstance(s, RefS):
                # objects handed in by the caller exist already (a fresh allocation is distinct from them)
                self.assume(z3.Implies(v.t != 0, z3.Select(self.env.alloc, v.t)))
            loc[n] = v
        if args.vararg or args.kwarg:
            for n in [args.vararg, args.kwarg]:
                if n is not None and n.arg in fc.params:
                    loc[n.arg] = V(z3.Const(n.arg, z(fc.params[n.arg])), fc.params[n.arg])
        for n in fc.params:
            if n not in loc:
                # ghost parameters, and free (closure) variables of a nested function: symbolic constants
                s_ = fc.params[n]
                if isinstance(s_, FunS):
                    loc[n] = V(None, s_)
                else:
                    loc[n] = V(z3.Const(n, z(s_)), s_)
                    self.wf(loc[n])

    def _run_inner(self):
        fc, node = self.fc, self.node
        self.selfname = None
        self.bind_params()
        self.axioms_added = set()
        # entry snapshot (for old())
        self.entry = Env(dict(self.env.locals), dict(self.env.heap), self.env.alloc, spec=True)
        self.implicit_generator = False
        if fc.yields is not None:
            self.env.yielded = ops.seq_empty(SeqS(fc.yields))
        elif isinstance(fc.returns, SeqS) and any(isinstance(x, (ast.Yield, ast.YieldFrom)) for x in ast.walk(node)):
            # the contract promises an iterator value; the code is a generator function: what it yields is that iterator,
            # and it is lazy - it keeps reading every field its body reads
            self.implicit_generator = True
            self.env.yielded = ops.seq_empty(fc.returns)
        # assumptions: invariants + requires
        inv_pre = fc.inv_pre if fc.inv_pre is not None else (fc.cls is not None and fc.kind == "method" and not fc.name.startswith("_") or
                                                           (fc.cls is not None and fc.kind == "method" and fc.name.startswith("__")))
        inv_post = fc.inv_post if fc.inv_post is not None else (inv_pre or fc.kind == "init")
        self.inv_post = inv_post
        if inv_pre and self.selfname:
            for e, l in self.eng.invariants_of(self.concrete):
                self.assume(self.ev_spec(e, self.env.spec_view(old=self.entry)))
        for e, l in fc.requires_l:
            self.assume(self.ev_spec(e, self.env.spec_view(old=self.entry)))
        for stmt in fc.ghost_entry_l:
            self.exec_ghost(stmt)
        # vacuity guard: the assumptions of the function must be satisfiable (checked once, on the first path)
        if self.pid == 1:
            self.obligations.append(Obligation("%s/vacuity:pre-satisfiable" % fc.qualname, list(self.pc), None, "vacuity", node.lineno, self.pid))
        body = frontend.strip_docstring(node.body)
        try:
            self.exec_block(body)
            self.exit_normal(none_v(), node.end_lineno)
        except ReturnSig as r:
            self.exit_normal(r.value, node.end_lineno)
        except PyExc as e:
            self.exit_exceptional(e)
        except (BreakSig, ContinueSig):
            raise Unsupported("break/continue outside a loop in %s" % fc.qualname)

    # ------------------------------------------------------------------ exits
    def exit_normal(self, result, line):
        fc = self.fc
        q = fc.qualname
        if fc.kind == "init":
            result = none_v()
        if self.implicit_generator:
            lazy = set()
            for x in ast.walk(self.node):
                if isinstance(x, ast.Attribute):
                    lazy |= self.keys_by_attr(x.attr)
                elif isinstance(x, ast.Call) and isinstance(x.func, ast.Attribute):
                    for cfc in self.callees_of(x):
                        if cfc.reads_lazily:
                            lazy |= self.keys_of_names(cfc.reads_lazily)
            for x in ast.walk(self.node):
                if isinstance(x, (ast.For,)):
                    pass
            result = V(self.env.yielded.t, self.env.yielded.s, lazy)
        if fc.returns is not None and fc.returns != NONE and fc.yields is None:
            try:
                lz = result.lazy
                result = ops.coerce(result, fc.returns)
                if lz is not None:
                    result = V(result.t, result.s, lz)
            except TypeError as e:
                raise Unsupported("%s returns %r, contract declares %r" % (q, result.s, fc.returns))
        self.env.result = result
        if result is not None and result.lazy is not None:
            missing = result.lazy - self.declared_reads()
            self.oblige("%s/iterator-stability:returned-iterator-reads-only-declared-state" % q, z3.BoolVal(not missing),
                        "iterator-stability", line)
            if missing and self.emitting():
                self.syntactic_refutation("the returned iterator lazily reads %s; the contract promises %s" % (
                    sorted(missing), sorted(self.declared_reads()) or "a snapshot"))
        if self.emitting():
            self.obligations.append(Obligation("%s/vacuity:normal-exit-reachable" % q, list(self.pc), None, "vacuity-exit", line, self.pid))
        for stmt in fc.ghost_exit_l:
            self.exec_ghost(stmt, result=result)
        for wname, (wsort, bound_to) in getattr(fc, "witness_bind", {}).items():
            if bound_to in self.env.locals:
                self.env.locals[wname] = self.env.locals[bound_to]
        for wname, (wsort, bound_to) in getattr(fc, "witness_vals", {}).items():
            if bound_to in self.env.locals:
                self.env.locals[wname] = self.env.locals[bound_to]
        sv = self.env.spec_view(old=self.entry, result=result, extra=getattr(self, "param_visible", None))
        for e in fc.uses_exit:
            self.assume_use(e, sv)
        for e, l in fc.hints_l:
            ghosts = {x.id for x in ast.walk(ast.parse(e.strip(), mode="eval")) if isinstance(x, ast.Name) and x.id.startswith("g_")}
            if not ghosts <= set(sv.locals):
                continue        # the ghost witnesses of this hint do not exist on this path (e.g. sorted() was not reached)
            hv = self.ev_spec(e, sv)
            self.oblige("%s/hint:%s" % (q, l), hv.t, "hint", line)
            self.assume(hv)
        for i, (exc, when, ens, iff) in enumerate(fc.raises_l):
            if when is not None and iff:
                w = self.ev_spec(when, self.entry)
                self.oblige("%s/no-raise[%s]:normal-exit-implies-not(%s)" % (q, exc, when), z3.Not(w.t), "raises", line)
        for e, l in fc.ensures_l:
            self.oblige("%s/post:%s" % (q, l), self.ev_spec(e, sv).t, "post", line)
        if self.inv_post and self.selfname:
            for e, l in self.eng.invariants_of(self.concrete):
                self.oblige("%s/inv-%s:%s" % (q, "establish" if fc.kind == "init" else "preserve", l), self.ev_spec(e, sv).t, "inv", line)
        self.check_frame(line)

    def exit_exceptional(self, e):
        fc = self.fc
        q = fc.qualname
        clauses = [(exc, when, ens, iff) for exc, when, ens, iff in fc.raises_l if exc_matches(e.name, exc)]
        if not clauses:
            self.oblige("%s/raises[undeclared:%s]@L%d" % (q, e.name, e.line), z3.BoolVal(False), "raises", e.line)
            return
        whens = [self.ev_spec(w, self.entry).t for _, w, _, _ in clauses if w is not None]
        if whens and len(whens) == len(clauses):
            self.oblige("%s/raises[%s]:only-when@L%d" % (q, e.name, e.line), z3.Or(*whens), "raises", e.line)
        sv = self.env.spec_view(old=self.entry, result=None, extra=getattr(self, "param_visible", None))
        for exc, when, ens, iff in clauses:
            for x in ens:
                self.oblige("%s/raises[%s]:ensures(%s)" % (q, e.name, x), self.ev_spec(x, sv).t, "raises", e.line)
        if self.inv_post and self.selfname and fc.kind != "init":
            for x, l in self.eng.invariants_of(self.concrete):
                self.oblige("%s/inv-preserve-on-raise[%s]:%s" % (q, e.name, l), self.ev_spec(x, sv).t, "inv", e.line)
        if all(not ens for _, _, ens, _ in clauses):
            # a raises clause without ensures promises callers an UNCHANGED state: check exactly that (empty frame)
            self.check_frame(e.line, unchanged_label="raises[%s]:state-unchanged" % e.name)
        else:
            self.check_frame(e.line)

    def modifies_sets(self, fc, env_for_locs):
        """-> (whole_fields:set of heap keys, cells: dict heap key -> list of ref terms)"""
        whole, cells = set(), {}
        for loc in fc.modifies_l:
            self._mod_loc(loc, env_for_locs, whole, cells)
        return whole, cells

    def _mod_loc(self, loc, env, whole, cells):
        star = loc.strip().endswith("[*]")
        n = ast.parse(loc.strip()[:-3] if star else loc, mode="eval").body
        if star:        # Class.field[*]
            if isinstance(n, ast.Attribute) and isinstance(n.value, ast.Name) and n.value.id in self.unit.classes:
                d = self.eng.field_decl(n.value.id, n.attr)
                if d is None:
                    raise StaleContract("modifies: unknown field %s" % loc)
                whole.add((d[0], n.attr))
                return
            raise StaleContract("modifies: cannot parse %s" % loc)
        if isinstance(n, ast.Attribute):
            if isinstance(n.value, ast.Name) and n.value.id in self.unit.classes and n.value.id not in env.locals:
                d = self.eng.field_decl(n.value.id, n.attr)
                if d is None:
                    raise StaleContract("modifies: unknown field %s" % loc)
                whole.add((d[0], n.attr))
                return
            ref = self.ev(n.value, env)
            if not isinstance(ref.s, RefS):
                raise StaleContract("modifies: %s is not an object field" % loc)
            d = self.eng.field_decl(ref.s.cls, n.attr)
            if d is None:
                raise StaleContract("modifies: unknown field %s" % loc)
            cells.setdefault((d[0], n.attr), []).append(ref.t)
            return
        raise StaleContract("modifies: cannot parse %s" % loc)

    def check_frame(self, line, unchanged_label=None):
        fc = self.fc
        whole, cells = (set(), {}) if unchanged_label else self.modifies_sets(fc, self.entry)
        o = z3.Int("o!frame")
        for key, arr in self.env.heap.items():
            arr0 = self.entry.heap[key]
            if arr.eq(arr0) or key in whole:
                continue
            cond = [z3.Select(self.entry.alloc, o), o != 0]
            if self.fc.kind == "init" and self.selfname:
                cond.append(o != self.env.locals[self.selfname].t)
            for r in cells.get(key, []):
                cond.append(o != r)
            self.oblige("%s/%s:%s.%s" % (fc.qualname, unchanged_label or "frame", key[0], key[1]),
                        z3.ForAll([o], z3.Implies(z3.And(*cond), z3.Select(arr, o) == z3.Select(arr0, o))), "frame", line)

    # ------------------------------------------------------------------ ghost statements
    def exec_ghost(self, stmt, result=None, extra=None):
        """ghost assignment `lhs = expr` (spec mode rhs, may write ghost fields and ghost locals) or `assume expr`/`assert expr`"""
        tree = ast.parse(stmt.strip()).body[0]
        sv = self.env.spec_view(old=self.entry, result=result, extra=extra)
        if isinstance(tree, ast.Assign):
            val = self.ev(tree.value, sv)
            tgt = tree.targets[0]
            if isinstance(tgt, ast.Attribute):
                ref = self.ev(tgt.value, sv)
                d = self.eng.field_decl(ref.s.cls, tgt.attr)
                if d is None or not d[2]:
                    raise StaleContract("ghost statement writes non-ghost location: %s" % stmt)
                self.hwrite(ref, tgt.attr, val)
            elif isinstance(tgt, ast.Name):
                if not tgt.id.startswith("g_"):
                    raise StaleContract("ghost locals must be named g_*: %s" % stmt)
                self.env.locals[tgt.id] = val
            else:
                raise StaleContract("bad ghost statement: %s" % stmt)
        elif isinstance(tree, ast.Assert):
            self.oblige("%s/ghost-assert:%s" % (self.fc.qualname, stmt), self.ev(tree.test, sv).t, "hint", 0)
            self.assume(self.ev(tree.test, sv))
        else:
            raise StaleContract("bad ghost statement: %s" % stmt)

    # ------------------------------------------------------------------ statements
    def exec_block(self, stmts):
        for s in stmts:
            self.exec_stmt(s)

    def exec_stmt(self, s):
        env = self.env
        if isinstance(s, ast.Expr):
            if isinstance(s.value, ast.Constant):
                return
            if isinstance(s.value, ast.Yield):
                self.do_yield(s.value)
                return
            if isinstance(s.value, ast.YieldFrom):
                self.do_yield_from(s.value)
                return
            self.ev(s.value, env)
            return
        if isinstance(s, ast.Pass):
            return
        if isinstance(s, ast.Assign):
            v = self.ev(s.value, env)
            # (a generator object stored in a variable is checked when it is consumed: see as_iter_seq)
            for t in s.targets:
                self.assign(t, v, rebind=isinstance(t, ast.Name))
            return
        if isinstance(s, ast.AnnAssign):
            if s.value is not None:
                self.assign(s.target, self.ev(s.value, env))
            return
        if isinstance(s, ast.AugAssign):
            cur = self.ev(s.target, env)
            rhs = self.ev(s.value, env)
            self.assign(s.target, self.binop(s.op, cur, rhs, s))
            return
        if isinstance(s, ast.If):
            c = self.cond(s.test)
            if self.decide(c):
                self.exec_block(s.body)
            else:
                self.exec_block(s.orelse)
            return
        if isinstance(s, ast.Return):
            rs = self.fc.returns
            if isinstance(s.value, ast.Tuple) and isinstance(rs, TupS) and len(rs.elems) == len(s.value.elts):
                # elementwise: empty displays get their sort from the declared result sort
                vs = [ops.coerce(self.fix_empty(self.ev(e, env), es), es) for e, es in zip(s.value.elts, rs.elems)]
                raise ReturnSig(V(tup_mk(rs, *[v.t for v in vs]), rs))
            raise ReturnSig(self.ev(s.value, env) if s.value is not None else none_v())
        if isinstance(s, ast.Raise):
            raise PyExc(self.exc_name(s.exc), s.lineno)
        if isinstance(s, ast.Assert):
            c = self.cond(s.test)
            if not self.decide(c):
                raise PyExc("AssertionError", s.lineno)
            return
        if isinstance(s, ast.While):
            return self.exec_while(s)
        if isinstance(s, ast.For):
            return self.exec_for(s)
        if isinstance(s, ast.Break):
            raise BreakSig()
        if isinstance(s, ast.Continue):
            raise ContinueSig()
        if isinstance(s, ast.Try):
            return self.exec_try(s)
        if isinstance(s, ast.With):
            return self.exec_with(s)
        if isinstance(s, ast.Delete):
            for t in s.targets:
                self.delete(t)
            return
        if isinstance(s, ast.FunctionDef):
            self.nested[s.name] = s
            return
        raise Unsupported("statement %s at line %d" % (type(s).__name__, s.lineno))

    def exc_name(self, e):
        if e is None:
            if getattr(self, "handling", None):
                return self.handling[-1]
            raise Unsupported("bare raise outside a handler")
        if isinstance(e, ast.Call):
            e = e.func
        if isinstance(e, ast.Name):
            return e.id
        if isinstance(e, ast.Attribute):
            return e.attr
        raise Unsupported("raise of a computed exception")

    def exec_try(self, s):
        def handlers(e):
            for h in s.handlers:
                names = []
                if h.type is None:
                    names = ["BaseException"]
                elif isinstance(h.type, ast.Tuple):
                    names = [self.exc_name(x) for x in h.type.elts]
                else:
                    names = [self.exc_name(h.type)]
                if any(exc_matches(e.name, n) for n in names):
                    return h
            return None

        def body():
            try:
                self.exec_block(s.body)
            except PyExc as e:
                h = handlers(e)
                if h is None:
                    raise
                if h.name:
                    self.env.locals[h.name] = V(NoneU, ANY)
                self.handling = getattr(self, "handling", []) + [e.name]
                try:
                    self.exec_block(h.body)
                finally:
                    self.handling = self.handling[:-1]
                return
            self.exec_block(s.orelse)

        if not s.finalbody:
            return body()
        try:
            body()
        except (PyExc, ReturnSig, BreakSig, ContinueSig) as sig:
            self.exec_block(s.finalbody)
            raise sig
        self.exec_block(s.finalbody)

    def exec_with(self, s):
        if len(s.items) != 1:
            raise Unsupported("with: several items")
        item = s.items[0]
        cm = self.ev(item.context_expr, self.env)
        hook = getattr(self, "with_hook", None)
        entered = self.with_enter(cm, item, s)
        try:
            self.exec_block(s.body)
        except (PyExc, ReturnSig, BreakSig, ContinueSig) as sig:
            self.with_exit(cm, entered, s, sig)
            raise sig
        self.with_exit(cm, entered, s, None)

    def with_enter(self, cm, item, s):
        if isinstance(cm.s, RefS):
            fc = self.eng.find_contract(cm.s.cls, "__enter__")
            if fc is None:
                raise Unsupported("with: no __enter__ contract on %s" % cm.s.cls)
            r = self.call_contract(fc, cm, [], {}, s.lineno, "__enter__")
            if item.optional_vars is not None:
                self.assign(item.optional_vars, r)
            return r
        raise Unsupported("with on a value of sort %r" % cm.s)

    def with_exit(self, cm, entered, s, sig):
        fc = self.eng.find_contract(cm.s.cls, "__exit__")
        if fc is None:
            raise Unsupported("with: no __exit__ contract on %s" % cm.s.cls)
        n = none_of_any()
        self.call_contract(fc, cm, [n, n, n], {}, s.lineno, "__exit__")

    def delete(self, t):
        if isinstance(t, ast.Subscript):
            base = self.ev(t.value, self.env)
            if isinstance(base.s, MapS):
                k = ops.coerce(self.ev(t.slice, self.env), base.s.k)
                self.assume(*ops.map_facts(base, k))
                self.guard(z3.Select(map_dom(base.t), k.t), "KeyError", t.lineno)
                self.assign(t.value, ops.map_del(base, k))
                return
            if isinstance(base.s, SeqS):
                i = self.ev(t.slice, self.env)
                n = seq_len(base.t)
                ie = ite(i.t < 0, i.t + n, i.t)
                self.guard(z3.And(0 <= ie, ie < n), "IndexError", t.lineno)
                nv, ax = ops.seq_delete(base, ie)
                self.assume(*ax)
                self.assign(t.value, nv)
                return
            if isinstance(base.s, RefS):
                fc = self.eng.find_contract(base.s.cls, "__delitem__")
                if fc is None:
                    raise Unsupported("del x[k] on %s without a __delitem__ contract" % base.s.cls)
                self.call_contract(fc, base, [self.ev(t.slice, self.env)], {}, t.lineno, "__delitem__")
                return
        raise Unsupported("del of %s" % ast.dump(t)[:60])

    # ------------------------------------------------------------------ assignment
    def assign(self, tgt, v, rebind=False):
        env = self.env
        if isinstance(tgt, ast.Name) and rebind and tgt.id in self.fc.params and tgt.id in env.locals:
            # `p = ...` rebinds the parameter name: the caller keeps seeing the object it passed (with the in-place changes made so far);
            # postconditions speak about THAT value under the parameter's name, not about the new local binding
            if not hasattr(self, "param_visible"):
                self.param_visible = {}
            self.param_visible.setdefault(tgt.id, env.locals[tgt.id])
        if isinstance(tgt, ast.Name):
            declared = self.fc.locals_sorts.get(tgt.id)
            if declared is not None:
                v = ops.coerce(self.fix_empty(v, declared), declared)
            env.locals[tgt.id] = v
            return
        if isinstance(tgt, ast.Attribute):
            ref = self.ev(tgt.value, env)
            if not isinstance(ref.s, RefS):
                raise Unsupported("attribute store on sort %r" % ref.s)
            d = self.eng.field_decl(ref.s.cls, tgt.attr)
            if d is None:
                raise Unsupported("store to undeclared attribute %s.%s" % (ref.s.cls, tgt.attr))
            if d[2]:
                raise Unsupported("code writes a ghost field")
            self.check_guard(ref, d[0], tgt.attr, getattr(tgt, "lineno", 0))
            for gstmt in getattr(self.fc, "ghost_writes", {}).get(tgt.attr, []):
                self.exec_ghost(gstmt, extra={"_value": v})
            self.hwrite(ref, tgt.attr, v)
            for gexpr, glabel in self.unit.write_guarantees.get((d[0], tgt.attr), []):
                if self.fc.qualname in self.unit.guarantee_exempt:
                    continue        # e.g. the constructor that (re)initialises the shared state while no other thread exists
                sub = Env({"self": ref}, self.env.heap, self.env.alloc, spec=True, old=self.entry)
                self.oblige("%s/guarantee@L%d:%s" % (self.fc.qualname, getattr(tgt, "lineno", 0), glabel), self.ev_spec(gexpr, sub).t,
                            "guarantee", getattr(tgt, "lineno", 0))
            return
        if isinstance(tgt, ast.Subscript) and isinstance(tgt.slice, ast.Slice):
            sl = tgt.slice
            base = self.ev(tgt.value, env)
            if isinstance(base.s, SeqS) and sl.lower is None and sl.upper is None and sl.step is None:
                # x[:] = seq : the whole content is replaced (in place; value semantics of the holder make it an assignment)
                self.assign(tgt.value, ops.coerce(self.fix_empty(self.as_iter_seq(v) if not isinstance(v.s, SeqS) or v.t is not None else v, base.s), base.s))
                return
            raise Unsupported("slice assignment other than x[:] = ...")
        if isinstance(tgt, ast.Subscript):
            base = self.ev(tgt.value, env)
            if isinstance(base.s, MapS):
                k = ops.coerce(self.ev(tgt.slice, env), base.s.k)
                self.assume(*ops.map_facts(base, k))
                self.assign(tgt.value, ops.map_set(base, k, ops.coerce(v, base.s.v)))
                return
            if isinstance(base.s, SeqS):
                i = self.ev(tgt.slice, env)
                n = seq_len(base.t)
                ie = ite(i.t < 0, i.t + n, i.t)
                self.guard(z3.And(0 <= ie, ie < n), "IndexError", tgt.lineno)
                self.assign(tgt.value, ops.seq_store(base, ie, ops.coerce(v, base.s.elem)))
                return
            if isinstance(base.s, RefS):
                fc = self.eng.find_contract(base.s.cls, "__setitem__")
                if fc is None:
                    raise Unsupported("x[k] = v on %s without a __setitem__ contract" % base.s.cls)
                self.call_contract(fc, base, [self.ev(tgt.slice, env), v], {}, tgt.lineno, "__setitem__")
                return
            raise Unsupported("subscript store on sort %r" % base.s)
        if isinstance(tgt, (ast.Tuple, ast.List)):
            if isinstance(v.s, OptS) and isinstance(v.s.inner, (TupS, SeqS)):
                self.guard(z3.Not(opt_is_none(v.t)), "TypeError", getattr(tgt, "lineno", 0))      # cannot unpack None
                v = V(opt_val(v.t), v.s.inner)
            if isinstance(v.s, TupS):
                if len(v.s.elems) != len(tgt.elts):
                    raise Unsupported("unpacking arity")
                for i, t in enumerate(tgt.elts):
                    self.assign(t, V(tup_get(v.t, i), v.s.elems[i]))
                return
            if isinstance(v.s, SeqS):
                self.guard(seq_len(v.t) == len(tgt.elts), "ValueError", tgt.lineno)
                for i, t in enumerate(tgt.elts):
                    self.assign(t, V(seq_get(v.t, i), v.s.elem))
                return
            raise Unsupported("unpacking a %r" % v.s)
        raise Unsupported("assignment target %s" % type(tgt).__name__)

    # ------------------------------------------------------------------ loops
    def loop_index(self, node):
        if id(node) in getattr(self, "synthetic_loops", {}):
            return self.synthetic_loops[id(node)]
        for k, l in enumerate(self.loops):
            if l is node:
                return k + 1
        raise Unsupported("loop not indexed")

    def written_in(self, body_nodes):
        """names assigned and heap keys possibly written by a list of statements (syntactic, coarse)"""
        names, fields, calls = set(), set(), []
        for stmt in body_nodes:
            for n in ast.walk(stmt):
                if isinstance(n, (ast.Assign, ast.AugAssign, ast.AnnAssign, ast.For, ast.Delete, ast.With, ast.NamedExpr)):
                    tgts = []
                    if isinstance(n, ast.Assign):
                        tgts = n.targets
                    elif isinstance(n, ast.Delete):
                        tgts = n.targets
                    elif isinstance(n, ast.With):
                        tgts = [i.optional_vars for i in n.items if i.optional_vars is not None]
                    else:
                        tgts = [n.target]
                    for t in tgts:
                        for m in ast.walk(t):
                            if isinstance(m, ast.Name) and isinstance(m.ctx, (ast.Store, ast.Del)):
                                names.add(m.id)
                        root = t
                        while isinstance(root, ast.Subscript):
                            root = root.value
                        if isinstance(root, ast.Attribute):
                            fields.add(root)
                        elif isinstance(root, ast.Name):
                            names.add(root.id)
                elif isinstance(n, ast.Call):
                    calls.append(n)
                    # library functions that update a container argument in place (heapq.heappush(h, x), ...)
                    dotted = None
                    if isinstance(n.func, ast.Attribute) and isinstance(n.func.value, ast.Name):
                        dotted = n.func.value.id + "." + n.func.attr
                    elif isinstance(n.func, ast.Name):
                        dotted = n.func.id
                    lfc = self.unit.env.get(dotted) if dotted else None
                    for pname in getattr(lfc, "updates", []) if lfc is not None else []:
                        k_ = list(lfc.params).index(pname)
                        an = n.args[k_] if k_ < len(n.args) else next((kw.value for kw in n.keywords if kw.arg == pname), None)
                        root = an
                        while isinstance(root, ast.Subscript):
                            root = root.value
                        if isinstance(root, ast.Name):
                            names.add(root.id)
                        elif isinstance(root, ast.Attribute):
                            fields.add(root)
                    # in-place container methods on locals / fields
                    if isinstance(n.func, ast.Attribute) and n.func.attr in ("append", "insert", "pop", "remove", "extend",
                                                                            "clear", "sort", "reverse", "add", "discard", "update", "setdefault", "popitem"):
                        root = n.func.value
                        while isinstance(root, ast.Subscript):
                            root = root.value
                        if isinstance(root, ast.Name):
                            v = self.env.locals.get(root.id)
                            if v is None or isinstance(v.s, (SeqS, MapS)):
                                names.add(root.id)
                        elif isinstance(root, ast.Attribute):
                            try:
                                fv = self.ev(root, self.env.spec_view())
                                if isinstance(fv.s, (SeqS, MapS)):
                                    fields.add(root)
                            except Exception:
                                fields.add(root)
                elif isinstance(n, ast.ExceptHandler) and n.name:
                    names.add(n.name)
        return names, fields, calls

    def havoc_for_loop(self, loopnode, extra_names=()):
        names, fields, calls = self.written_in(loopnode.body + loopnode.orelse if False else loopnode.body)
        if isinstance(loopnode, ast.For):
            for m in ast.walk(loopnode.target):
                if isinstance(m, ast.Name):
                    names.add(m.id)
        names |= set(extra_names)
        env = self.env
        for nme in sorted(names):
            if nme in env.locals:
                s = self.fc.locals_sorts.get(nme, env.locals[nme].s)
                if s == NONE:
                    raise Unsupported("local %s is None at the loop head; declare its sort (locals=...)" % nme)
                if isinstance(s, FunS):
                    continue
                v = fresh_v("h_" + nme, s)
                self.wf(v)
                env.locals[nme] = v
            elif nme in self.fc.locals_sorts:
                v = fresh_v("h_" + nme, self.fc.locals_sorts[nme])
                self.wf(v)
                env.locals[nme] = v
        # heap: fields assigned in the body (whole field, or one cell when the receiver is `self`)
        for fnode in sorted(fields, key=lambda f: (getattr(f, "lineno", 0), getattr(f, "col_offset", 0), f.attr)):
            recv = fnode.value
            try:
                rv = self.ev(recv, env.spec_view())
            except Exception:
                rv = None
            if rv is None or not isinstance(rv.s, RefS):
                cands = [k for k in env.heap if k[1] == fnode.attr]
                for k in cands:
                    self.havoc_field(k)
                continue
            d = self.eng.field_decl(rv.s.cls, fnode.attr)
            if d is None:
                continue
            key = (d[0], fnode.attr)
            stable = True
            for m_ in ast.walk(recv):
                if isinstance(m_, ast.Name) and m_.id != self.selfname and m_.id not in self.fc.params and (m_.id in names or m_.id not in env.locals):
                    stable = False
                if isinstance(m_, ast.Attribute) and m_.attr in {f_.attr for f_ in fields if f_ is not fnode and f_.attr != fnode.attr}:
                    stable = False
                if isinstance(m_, (ast.Call, ast.Subscript)):
                    stable = False
            if stable:
                self.havoc_cell(key, rv.t, d[1])       # the receiver denotes the same object in every iteration
            else:
                self.havoc_field(key)
        # heap: callees' modifies
        field_names_written = {f.attr for f in fields}
        for c in calls:
            for cfc in self.callees_of(c):
                for loc in cfc.modifies_l:
                    l2 = loc.strip()
                    l2 = l2[:-3] if l2.endswith("[*]") else l2
                    field_names_written.add(l2.rsplit(".", 1)[-1])
        for c in calls:
            fcs = self.callees_of(c)
            for cfc in fcs:
                for loc in cfc.modifies_l:
                    if not self.havoc_modloc_precise(loc, cfc, c, field_names_written, names):
                        self.havoc_modloc_coarse(loc, cfc)
        # ghost fields written by loop ghost statements
        k = self.loop_index(loopnode)
        lc = self.fc.loops.get(k)
        if lc:
            for stmt in lc.ghost_end + lc.ghost_begin:
                t = ast.parse(stmt.strip()).body[0]
                if isinstance(t, ast.Assign) and isinstance(t.targets[0], ast.Attribute):
                    tg = t.targets[0]
                    rv = self.ev(tg.value, env.spec_view())
                    d = self.eng.field_decl(rv.s.cls, tg.attr)
                    self.havoc_cell((d[0], tg.attr), rv.t, d[1])
                elif isinstance(t, ast.Assign) and isinstance(t.targets[0], ast.Name):
                    nme = t.targets[0].id
                    if nme in env.locals:
                        env.locals[nme] = fresh_v("h_" + nme, env.locals[nme].s)
        # ghost locals written by call hooks (at_call) of calls inside the loop
        for c in calls:
            lbl = c.func.attr if isinstance(c.func, ast.Attribute) else (c.func.id if isinstance(c.func, ast.Name) else None)
            for when_ in ("before", "after"):
                for kind_, text_ in getattr(self.fc, "call_hooks", {}).get((when_, lbl), []):
                    if kind_ != "ghost":
                        continue
                    t = ast.parse(text_.strip()).body[0]
                    if isinstance(t, ast.Assign) and isinstance(t.targets[0], ast.Name) and t.targets[0].id in env.locals:
                        nme = t.targets[0].id
                        env.locals[nme] = fresh_v("h_" + nme, env.locals[nme].s)
                        self.wf(env.locals[nme])
        has_yield = any(isinstance(n, (ast.Yield, ast.YieldFrom)) for st in loopnode.body for n in ast.walk(st))
        if has_yield and env.yielded is not None:
            env.yielded = fresh_v("h_yielded", env.yielded.s)
            self.wf(env.yielded)
        # allocation may grow inside the loop
        if any(True for _ in calls):
            Path._hc[0] += 1
            a2 = z3.Const("alloc!l%d" % Path._hc[0], z3.ArraySort(z3.IntSort(), z3.BoolSort()))
            o = z3.Int("o!al")
            self.assume(z3.ForAll([o], z3.Implies(z3.Select(env.alloc, o), z3.Select(a2, o))))
            env.alloc = a2

    def callees_of(self, callnode):
        """contracts possibly invoked by a call node (used for write sets / frames): resolved through the receiver's sort where it can
        be evaluated, by method name over all classes otherwise (coarse but sound)"""
        f = callnode.func
        out = []
        if isinstance(f, ast.Attribute):
            name = f.attr
            if isinstance(f.value, ast.Name) and f.value.id not in self.env.locals and f.value.id not in self.unit.classes:
                dotted = f.value.id + "." + f.attr            # module function (os.remove, bisect.bisect_left, ...)
                return [self.unit.env[dotted]] if dotted in self.unit.env else []
            rv = None
            try:
                with PureGuard(self):
                    rv = self.ev(f.value, self.env.spec_view())
            except Exception:
                rv = None
            if rv is not None and isinstance(rv.s, OptS):
                rv = V(None, rv.s.inner)
            if rv is not None and isinstance(rv.s, (SeqS, MapS, TupS)) :
                return []                                      # builtin container method: no heap frame of its own
            if rv is not None and isinstance(rv.s, RefS):
                fc = self.eng.find_contract(rv.s.cls, name)
                if fc is not None:
                    return [fc]
                d = self.eng.field_decl(rv.s.cls, name)
                if d is not None and isinstance(d[1], RefS):
                    fc = self.eng.find_contract(d[1].cls, "__call__")
                    return [fc] if fc is not None else []
                return []
            for cn in self.unit.classes:
                fc = self.eng.find_contract(cn, name)
                if fc is not None and fc not in out:
                    out.append(fc)
        elif isinstance(f, ast.Name):
            lv = self.env.locals.get(f.id)
            if lv is not None and isinstance(lv.s, RefS):
                fc = self.eng.find_contract(lv.s.cls, "__call__")
                if fc is not None:
                    out.append(fc)
            if f.id in self.unit.functions:
                out.append(self.unit.functions[f.id])
            if f.id in self.unit.env:
                out.append(self.unit.env[f.id])
            if f.id in self.unit.classes:
                fc = self.eng.find_contract(f.id, "__init__")
                if fc is not None:
                    out.append(fc)
            qual = self.fc.qualname + ".<" + f.id + ">"
            if qual in self.unit.functions:
                out.append(self.unit.functions[qual])
            if f.id == "len" and callnode.args:
                try:
                    with PureGuard(self):
                        rv = self.ev(callnode.args[0], self.env.spec_view())
                    if isinstance(rv.s, RefS):
                        fc = self.eng.find_contract(rv.s.cls, "__len__")
                        if fc is not None:
                            out.append(fc)
                except Exception:
                    pass
        return out

    def havoc_field(self, key):
        sort = self.eng.all_heap_keys()[key]
        self._uniq_heap(key)

    _hc = [0]

    def _uniq_heap(self, key):
        Path._hc[0] += 1
        sort = self.eng.all_heap_keys()[key]
        self.env.heap[key] = z3.Const("H_%s_%s!h%d" % (key[0], key[1], Path._hc[0]), z3.ArraySort(z3.IntSort(), z(sort)))

    def havoc_cell(self, key, ref_t, sort):
        v = fresh_v("hc_%s" % key[1], sort)
        self.wf(v)
        self.env.heap[key] = z3.Store(self.env.heap[key], ref_t, v.t)

    def havoc_modloc_precise(self, loc, cfc, callnode, written_fields, written_names=()):
        """callee frame location `self.a.b` / `p.a` where the receiver / argument is a stable expression of the caller:
        havoc exactly that cell.  Returns False when the location cannot be resolved (caller then havocs the field)."""
        try:
            if loc.strip().endswith("[*]"):
                return False
            n = ast.parse(loc, mode="eval").body
            if not isinstance(n, ast.Attribute):
                return False
            # chain of attribute names down to the root name
            chain, root = [], n
            while isinstance(root, ast.Attribute):
                chain.append(root.attr)
                root = root.value
            if not isinstance(root, ast.Name):
                return False
            chain.reverse()
            if any(a in written_fields for a in chain[:-1]):
                return False
            f = callnode.func
            if root.id == "self" and isinstance(f, ast.Attribute) and cfc.cls is not None:
                base = f.value
            elif root.id == "self" and isinstance(f, ast.Name) and cfc.cls is not None and cfc.name == "__call__":
                base = f                                       # a callable object held in a local: obj(...)
            else:
                names = [p for p in cfc.params]
                if root.id not in names:
                    return False
                k = names.index(root.id)
                kw = {x.arg: x.value for x in callnode.keywords}
                if root.id in kw:
                    base = kw[root.id]
                elif k < len(callnode.args):
                    base = callnode.args[k]
                else:
                    return False
            for m in ast.walk(base):
                if isinstance(m, ast.Name) and m.id != self.selfname and m.id not in self.fc.params \
                        and (m.id in written_names or m.id not in self.env.locals):
                    return False       # depends on a local that may change inside the loop
                if isinstance(m, ast.Attribute) and m.attr in written_fields:
                    return False
                if isinstance(m, ast.Call):
                    return False
            rv = self.ev(base, self.env.spec_view())
            for a in chain[:-1]:
                rv = self.hread(self.env.spec_view(), rv, a)
            if not isinstance(rv.s, RefS):
                return False
            d = self.eng.field_decl(rv.s.cls, chain[-1])
            if d is None:
                return False
            self.havoc_cell((d[0], chain[-1]), rv.t, d[1])
            return True
        except (Unsupported, StaleContract, KeyError):
            return False

    def havoc_modloc_coarse(self, loc, cfc):
        loc = loc.strip()
        n = ast.parse(loc[:-3] if loc.endswith("[*]") else loc, mode="eval").body
        if isinstance(n, ast.Attribute):
            # receiver class: the contract's own class for self.x, or a named class
            if isinstance(n.value, ast.Name) and n.value.id in self.unit.classes:
                d = self.eng.field_decl(n.value.id, n.attr)
            elif cfc.cls is not None:
                d = None
                # self.a.b : search every class for attribute b (coarse)
                for cn in self.unit.classes:
                    dd = self.eng.field_decl(cn, n.attr)
                    if dd is not None:
                        self.havoc_field((dd[0], n.attr))
                return
            else:
                d = None
                for cn in self.unit.classes:
                    dd = self.eng.field_decl(cn, n.attr)
                    if dd is not None:
                        self.havoc_field((dd[0], n.attr))
                return
            if d is not None:
                self.havoc_field((d[0], n.attr))

    def loop_contract(self, node):
        k = self.loop_index(node)
        return k, self.fc.loops.get(k) or LoopC(k)

    def loop_invs(self, lc):
        out = list(lc.invariants)
        if lc.class_invariant and self.selfname:
            out += [(e, "class-inv:" + l) for e, l in self.eng.invariants_of(self.concrete)]
        return out

    def assert_invariants(self, lc, k, what, line, extra=None):
        sv = self.env.spec_view(old=self.entry, extra=extra)
        for e, l in self.loop_invs(lc):
            self.oblige("%s/loop#%s:%s:%s" % (self.fc.qualname, k, what, l), self.ev_spec(e, sv).t, "loop", line)

    def assume_invariants(self, lc, extra=None):
        sv = self.env.spec_view(old=self.entry, extra=extra)
        for e, l in self.loop_invs(lc):
            self.assume(self.ev_spec(e, sv))

    def exec_while(self, s):
        k, lc = self.loop_contract(s)
        for e in lc.uses_init:
            self.assume_use(e, self.env.spec_view(old=self.entry))
        self.assert_invariants(lc, k, "init", s.lineno)
        self.havoc_for_loop(s)
        self.assume_invariants(lc)
        c = self.cond(s.test)
        if not self.decide(c):
            self.exec_block(s.orelse)
            return
        d0 = None
        if lc.decreases_expr:
            d0 = self.ev_spec_val(lc.decreases_expr, self.env.spec_view(old=self.entry)).t
        elif not lc.env_driven:
            self.oblige("%s/loop#%d:decreases:missing-variant" % (self.fc.qualname, k), z3.BoolVal(False), "loop", s.lineno)
        try:
            for g in lc.ghost_begin:
                self.exec_ghost(g)
            for e in lc.uses_begin:
                self.assume_use(e, self.env.spec_view(old=self.entry))
            self.exec_block(s.body)
        except ContinueSig:
            pass
        except BreakSig:
            return
        self.end_iteration(lc, k, s, d0)

    def assume_use(self, expr, env):
        """assume an instance of a proved lemma or of a recursive definition (nothing else may be assumed this way)"""
        node = ast.parse(expr.strip(), mode="eval").body
        ok = isinstance(node, ast.Call) and isinstance(node.func, ast.Name) and node.func.id in ("lemma_inst", "unfold")
        if not ok and isinstance(node, ast.Call) and isinstance(node.func, ast.Name) and node.func.id == "forall" and node.args:
            # forall(v, lo, hi, lemma_inst(...)): every instance of a proved lemma (sound: the lemma holds for all its parameters)
            body = node.args[-1]
            ok = isinstance(body, ast.Call) and isinstance(body.func, ast.Name) and body.func.id in ("lemma_inst", "unfold")
        if not ok:
            raise StaleContract("use-clause must be lemma_inst(...) or unfold(...): %s" % expr)
        self.assume(self.ev_spec(node, env))

    def end_iteration(self, lc, k, s, d0, extra=None):
        for g in lc.ghost_end:
            self.exec_ghost(g, extra=extra)
        for e in lc.uses_end:
            self.assume_use(e, self.env.spec_view(old=self.entry, extra=extra))
        for h in lc.hints:
            hv = self.ev_spec(h, self.env.spec_view(old=self.entry, extra=extra))
            self.oblige("%s/loop#%s:hint:%s" % (self.fc.qualname, k, h), hv.t, "hint", s.lineno)
            self.assume(hv)
        self.assert_invariants(lc, k, "preserve", s.lineno, extra)
        if d0 is not None:
            d1 = self.ev_spec_val(lc.decreases_expr, self.env.spec_view(old=self.entry, extra=extra)).t
            self.oblige("%s/loop#%s:decreases" % (self.fc.qualname, k), z3.And(d0 >= 0, d1 < d0), "loop", s.lineno)
        raise PathEnd()

    def exec_for(self, s):
        k, lc = self.loop_contract(s)
        seq = self.iter_seq(s.iter, self.env, s.lineno)
        self.check_stability(seq, s.body, s.lineno, "for")
        iname, sname = "_i%s" % k, "_seq%s" % k
        self.env.locals[sname] = seq
        self.env.locals[iname] = V(z3.IntVal(0), INT)
        for e in lc.uses_init:
            self.assume_use(e, self.env.spec_view(old=self.entry))
        self.assert_invariants(lc, k, "init", s.lineno)
        self.havoc_for_loop(s, extra_names=[iname])
        self.env.locals[sname] = seq
        i = self.env.locals[iname]
        self.assume(0 <= i.t, i.t <= seq_len(seq.t))
        self.assume_invariants(lc)
        if not self.decide(i.t < seq_len(seq.t)):
            self.exec_block(s.orelse)
            return
        elem = V(seq_get(seq.t, i.t), seq.s.elem)
        self.wf(elem)
        self.env.locals[iname] = V(i.t + 1, INT)
        try:
            self.assign(s.target, elem)
            for g in lc.ghost_begin:
                self.exec_ghost(g)
            for e in lc.uses_begin:
                self.assume_use(e, self.env.spec_view(old=self.entry))
            self.exec_block(s.body)
        except ContinueSig:
            pass
        except BreakSig:
            return
        self.end_iteration(lc, k, s, None)

    # ------------------------------------------------------------------ lazy iterators (iterator stability, DESIGN §2.4)
    def keys_of_names(self, names):
        out = set()
        for nm in names:
            cn, _, f = nm.partition(".")
            d = self.eng.field_decl(cn, f) if cn in self.unit.classes else None
            if d is None:
                raise StaleContract("reads: unknown field %s" % nm)
            out.add((d[0], f))
        return out

    def keys_by_attr(self, attr):
        out = set()
        for cn in self.unit.classes:
            d = self.eng.field_decl(cn, attr)
            if d is not None:
                out.add((d[0], attr))
        return out

    def body_write_keys(self, stmts):
        """heap keys a block may write: its own attribute stores and the frames of everything it calls (coarse, by field name)"""
        names, fields, calls = self.written_in(stmts)
        keys = set()
        for f in fields:
            keys |= self.keys_by_attr(f.attr)
        for c in calls:
            for cfc in self.callees_of(c):
                for loc in cfc.modifies_l:
                    l2 = loc.strip()
                    l2 = l2[:-3] if l2.endswith("[*]") else l2
                    keys |= self.keys_by_attr(l2.rsplit(".", 1)[-1])
        return keys

    def declared_reads(self):
        return self.keys_of_names(self.fc.reads_lazily)

    def syntactic_refutation(self, why):
        """frame conditions on field names are decided syntactically (sound, coarse): no solver involved"""
        ob = self.obligations[-1]
        ob.result, ob.backend, ob.detail, ob.model = "refuted", "syntactic-frame-check", why, {"reason": why}

    def check_stability(self, seqv, body, line, what):
        if not seqv.lazy:
            return
        has_yield = any(isinstance(n, (ast.Yield, ast.YieldFrom)) for st in body for n in ast.walk(st))
        clash = seqv.lazy & self.body_write_keys(body)
        self.oblige("%s/iterator-stability@L%d:%s" % (self.fc.qualname, line, what),
                    z3.BoolVal(not clash), "iterator-stability", line)
        if clash and self.emitting():
            self.syntactic_refutation("the loop body may write %s, which the iterator being consumed still reads" % sorted(clash))
        if has_yield:
            # between two yields the consumer of THIS generator may run: the iterator's reads become this generator's reads
            missing = seqv.lazy - self.declared_reads()
            self.oblige("%s/iterator-stability@L%d:lazy-reads-declared" % (self.fc.qualname, line), z3.BoolVal(not missing),
                        "iterator-stability", line)
            if missing and self.emitting():
                self.syntactic_refutation("this generator lazily reads %s, which its contract does not declare" % sorted(missing))

    # ------------------------------------------------------------------ iteration sources
    def iter_seq(self, node, env, line=0):
        """the sequence a `for` / comprehension iterates over, evaluated once"""
        if isinstance(node, ast.Call) and isinstance(node.func, ast.Name):
            fn = node.func.id
            if fn == "range":
                a = [self.ev(x, env) for x in node.args]
                if len(a) == 1:
                    lo, hi = z3.IntVal(0), a[0].t
                elif len(a) == 2:
                    lo, hi = a[0].t, a[1].t
                else:
                    raise Unsupported("range with a step")
                v, ax = ops.seq_range(lo, hi)
                self.assume(*ax)
                return v
            if fn == "enumerate":
                inner = self.iter_seq(node.args[0], env, line)
                so = SeqS(TupS(INT, inner.s.elem))
                r = fresh("enum", so)
                j = ops.qvar("jn")
                self.assume(seq_len(r) == seq_len(inner.t),
                            z3.ForAll([j], seq_get(r, j) == tup_mk(so.elem, j, seq_get(inner.t, j)), patterns=[seq_get(r, j)]))
                return V(r, so)
            if fn == "zip":
                ins = [self.iter_seq(a, env, line) for a in node.args]
                so = SeqS(TupS(*[x.s.elem for x in ins]))
                r = fresh("zip", so)
                j = ops.qvar("jz")
                ln = seq_len(ins[0].t)
                for x in ins[1:]:
                    ln = ite(seq_len(x.t) < ln, seq_len(x.t), ln)
                self.assume(seq_len(r) == ln,
                            z3.ForAll([j], seq_get(r, j) == tup_mk(so.elem, *[seq_get(x.t, j) for x in ins]), patterns=[seq_get(r, j)]))
                return V(r, so)
            if fn == "chain_":
                pass
            if fn == "iter":
                inner = self.iter_seq(node.args[0], env, line)
                a0 = node.args[0]
                if inner.lazy is None and isinstance(a0, ast.Attribute) and isinstance(inner.s, SeqS):
                    # iterator over a list stored in a field: it keeps reading that field
                    return V(inner.t, inner.s, self.keys_by_attr(a0.attr))
                return inner
            if fn == "list" or fn == "tuple":
                inner = self.iter_seq(node.args[0], env, line)
                return V(inner.t, inner.s)
            if fn == "reversed":
                inner = self.iter_seq(node.args[0], env, line)
                v, ax = ops.seq_reverse(inner)
                self.assume(*ax)
                return v
        if isinstance(node, ast.Call) and isinstance(node.func, ast.Attribute) and node.func.attr == "chain" \
                and isinstance(node.func.value, ast.Name) and node.func.value.id == "itertools":
            # itertools.chain(a, b, ...): the concatenation of the iterations (library contract); lazy if any part is
            parts = [self.iter_seq(a, env, line) for a in node.args]
            acc = parts[0]
            lazy = set(acc.lazy or ())
            for p_ in parts[1:]:
                acc, ax = ops.seq_concat(acc, p_)
                self.assume(*ax)
                lazy |= set(p_.lazy or ())
            return V(acc.t, acc.s, lazy or None)
        v = self.ev(node, env)
        return self.as_iter_seq(v, line)

    _last_iter_lazy = None

    def check_generator_fresh(self, v):
        snap = getattr(v, "gen", False)
        if isinstance(snap, tuple):
            cur = dict(self.env.heap)
            if any(not cur[k].eq(a) for k, a in snap if k in cur):
                raise Unsupported("generator created before a state change and consumed after it (lazy evaluation order is not modelled)")

    def as_iter_seq(self, v, line=0):
        self.check_generator_fresh(v)
        if isinstance(v.s, OptS) and isinstance(v.s.inner, (SeqS, MapS)):
            if not self.env.spec:
                self.guard(z3.Not(opt_is_none(v.t)), "TypeError", line)
            v = V(opt_val(v.t), v.s.inner, v.lazy)
        if isinstance(v.s, SeqS):
            return v
        if isinstance(v.s, MapS):
            return self.map_keys_seq(v)
        if isinstance(v.s, RefS):
            fc = self.eng.find_contract(v.s.cls, "__iter__")
            if fc is None:
                raise Unsupported("iteration over %s without an __iter__ contract" % v.s.cls)
            return self.call_contract(fc, v, [], {}, line, "__iter__")
        raise Unsupported("iteration over a value of sort %r" % v.s)

    def map_keys_seq(self, m):
        """ghost enumeration of the keys of a finite map: duplicate free, exactly the domain"""
        cache = getattr(self, "_keyseq_cache", None)
        if cache is None:
            cache = self._keyseq_cache = {}
        if m.t.get_id() in cache:         # keys() / values() / items() of the same (unmodified) dict agree on the order
            r0, fs = cache[m.t.get_id()]
            self.env.locals["g_kidx"] = fs
            return r0
        so = SeqS(m.s.k)
        r = fresh("keys", so)
        j, j2 = ops.qvar("jm"), ops.qvar("jm")
        kx = z3.Const("k!m%d" % ops._qcnt[0], z(m.s.k))
        idx = z3.Function("kidx!%d" % ops._qcnt[0], z(m.s.k), z3.IntSort())
        self.assume(seq_len(r) == map_size(m.t),
                    z3.ForAll([j], z3.Implies(z3.And(0 <= j, j < seq_len(r)),
                                              z3.And(z3.Select(map_dom(m.t), seq_get(r, j)), idx(seq_get(r, j)) == j)),
                              patterns=[seq_get(r, j)]),
                    z3.ForAll([kx], z3.Implies(z3.Select(map_dom(m.t), kx),
                                               z3.And(0 <= idx(kx), idx(kx) < seq_len(r), seq_get(r, idx(kx)) == kx)),
                              patterns=[idx(kx)]))
        self.env.locals["g_kidx"] = V(None, FunS([m.s.k], INT, name=idx.name()))
        cache[m.t.get_id()] = (V(r, so), self.env.locals["g_kidx"])
        return V(r, so)

    # ------------------------------------------------------------------ generators
    def do_yield(self, y):
        v = self.ev(y.value, self.env) if y.value is not None else none_v()
        if self.env.yielded is None:
            raise Unsupported("yield in a function whose contract does not declare yields=")
        v = ops.coerce(v, self.env.yielded.s.elem)
        self.env.yielded = ops.seq_append(self.env.yielded, v)
        fc = self.fc
        if fc.at_yield_havoc or fc.at_yield_assume:
            for loc in fc.at_yield_havoc:
                n = ast.parse(loc, mode="eval").body
                ref = self.ev(n.value, self.env.spec_view())
                d = self.eng.field_decl(ref.s.cls, n.attr)
                self.havoc_cell((d[0], n.attr), ref.t, d[1])
            for a in fc.at_yield_assume:
                self.assume(self.ev_spec(a, self.env.spec_view(old=self.entry)))
        return none_v()

    def do_yield_from(self, y):
        seq = self.iter_seq(y.value, self.env, y.lineno)
        v, ax = ops.seq_concat(self.env.yielded, V(seq.t, self.env.yielded.s) if seq.s == self.env.yielded.s else seq)
        self.assume(*ax)
        self.env.yielded = v

    # ------------------------------------------------------------------ expressions
    def cond(self, node):
        v = self.ev(node, self.env)
        t = ops.truthy(v)
        if t is None:
            raise Unsupported("truth value of sort %r at line %d" % (v.s, getattr(node, "lineno", 0)))
        return t

    def ev_spec_val(self, expr, env):
        node = ast.parse(expr.strip(), mode="eval").body if isinstance(expr, str) else expr
        if not env.spec:
            env = env.spec_view()
        return self.ev(node, env)

    def ev_spec(self, expr, env):
        if isinstance(expr, str):
            try:
                node = ast.parse(expr.strip(), mode="eval").body
            except SyntaxError as e:
                raise StaleContract("syntax error in contract expression %r: %s" % (expr, e))
        else:
            node = expr
        if not env.spec:
            env = env.spec_view()
        v = self.ev(node, env)
        if v.s != BOOL:
            t = ops.truthy(v)
            if t is None:
                raise StaleContract("contract expression is not boolean: %s" % expr)
            return V(t, BOOL)
        return v

    def ev(self, n, env):
        m = getattr(self, "ev_" + type(n).__name__, None)
        if m is None:
            raise Unsupported("expression %s at line %d" % (type(n).__name__, getattr(n, "lineno", 0)))
        return m(n, env)

    def ev_Constant(self, n, env):
        c = n.value
        if c is None:
            return none_v()
        if isinstance(c, bool):
            return V(z3.BoolVal(c), BOOL)
        if isinstance(c, int):
            return V(z3.IntVal(c), INT)
        if isinstance(c, float):
            return V(z3.RealVal(repr(c)), REAL)
        if isinstance(c, str):
            return V(strlit(c), STR)
        if c is Ellipsis:
            return none_v()
        raise Unsupported("constant %r" % (c,))

    def ev_Name(self, n, env):
        if n.id in env.binders:
            return env.binders[n.id]
        if n.id in env.locals:
            return env.locals[n.id]
        if env.spec:
            if n.id == "result":
                if env.result is None:
                    raise StaleContract("`result` used where there is none")
                return env.result
            if n.id == "yielded":
                if env.yielded is None:
                    raise StaleContract("`yielded` used in a non-generator")
                return env.yielded
            if n.id == "None":
                return none_v()
        if n.id in ("True", "False"):
            return V(z3.BoolVal(n.id == "True"), BOOL)
        raise Unsupported("unknown name %s at line %d" % (n.id, getattr(n, "lineno", 0)))

    def ev_Attribute(self, n, env):
        # class-level attribute declared in the contract (FunRunner.WORK_QUEUE): one object shared by every instance, never rebound
        if isinstance(n.value, ast.Name) and n.value.id in self.unit.classes and n.value.id not in env.locals \
                and n.attr in getattr(self.unit.classes[n.value.id], "class_attrs", {}):
            srt = self.unit.classes[n.value.id].class_attrs[n.attr]
            c = V(z3.Const("clsattr!%s.%s" % (n.value.id, n.attr), z(srt)), srt)
            if isinstance(srt, RefS):
                self.assume(c.t > 0, z3.Select(self.entry.alloc if getattr(self, "entry", None) is not None else env.alloc, c.t))
            return c
        # module constants
        if isinstance(n.value, ast.Name) and n.value.id == "math" and n.attr == "inf":
            return V(z3.IntVal(10 ** 18), INT) if False else self._inf()
        if isinstance(n.value, ast.Name) and n.value.id not in env.locals and n.value.id not in env.binders \
                and n.value.id not in self.unit.classes and n.value.id in ("mmap", "os", "sys", "queue", "math", "multiprocessing"):
            # module-level constant (mmap.ACCESS_READ, os.linesep, sys.stderr ...): an opaque value
            return V(z3.Const("modconst_%s_%s" % (n.value.id, n.attr), z(ANY)), ANY)
        recv = self.ev(n.value, env)
        if isinstance(recv.s, RefS):
            d = self.eng.field_decl(recv.s.cls, n.attr)
            if d is not None:
                if not env.spec:
                    self.check_guard(recv, d[0], n.attr, getattr(n, "lineno", 0))
                    if (d[0], n.attr) in self.unit.volatile and not getattr(self, "under_binder", 0):
                        self.apply_interference(getattr(n, "lineno", 0), "before reading " + n.attr, receiver=recv)
                return self.hread(env, recv, n.attr)
            # property getter with a contract?
            fc = self.eng.find_contract(recv.s.cls, n.attr)
            if fc is not None and fc.kind == "property":
                if env.spec:
                    return self.spec_call_pure(fc, recv, [], env)
                return self.call_contract(fc, recv, [], {}, getattr(n, "lineno", 0), n.attr)
            raise Unsupported("attribute %s on %s is not declared" % (n.attr, recv.s.cls))
        if isinstance(recv.s, TupS) and env.spec and n.attr.startswith("f") and n.attr[1:].isdigit():
            i = int(n.attr[1:])
            return V(tup_get(recv.t, i), recv.s.elems[i])
        raise Unsupported("attribute %s on a value of sort %r (line %d)" % (n.attr, recv.s, getattr(n, "lineno", 0)))

    def _inf(self):
        raise Unsupported("math.inf")

    def ev_Tuple(self, n, env):
        vs = [self.ev(e, env) for e in n.elts]
        s = TupS(*[v.s for v in vs])
        return V(tup_mk(s, *[v.t for v in vs]), s)

    def ev_List(self, n, env):
        vs = [self.ev(e, env) for e in n.elts]
        if not vs:
            return V(None, SeqS(NONE))     # element sort fixed at first use (coerce_seq)
        es = vs[0].s
        if any(v.s == NONE for v in vs):
            es = ANY if all(v.s in (NONE, ANY) for v in vs) else next(v.s for v in vs if v.s != NONE)
        all_none = all(v.s == NONE for v in vs)
        vs = [ops.coerce(v, es) for v in vs]
        out = ops.seq_lit(SeqS(es), vs)
        out.all_none = all_none
        return out

    def ev_Dict(self, n, env):
        if n.keys:
            raise Unsupported("non-empty dict display")
        return V(None, MapS(NONE, NONE))

    def fix_empty(self, v, sort):
        """empty list / dict displays get their sort from the context"""
        if v.t is None and isinstance(v.s, SeqS) and isinstance(sort, SeqS):
            return ops.seq_empty(sort)
        if v.t is None and isinstance(v.s, MapS) and isinstance(sort, MapS):
            return ops.map_empty(sort)
        return v

    def ev_IfExp(self, n, env):
        if env.spec:
            c = self.ev(n.test, env)
            a, b = self.ev(n.body, env), self.ev(n.orelse, env)
            a, b = self.unify(a, b)
            return V(ite(ops.truthy(c), a.t, b.t), a.s)
        if self.decide(self.cond(n.test)):
            return self.ev(n.body, env)
        return self.ev(n.orelse, env)

    def unify(self, a, b):
        if a.s == b.s:
            return a, b
        if a.t is None:
            return self.fix_empty(a, b.s), b
        if b.t is None:
            return a, self.fix_empty(b, a.s)
        try:
            return a, ops.coerce(b, a.s)
        except TypeError:
            return ops.coerce(a, b.s), b

    def ev_BoolOp(self, n, env):
        if env.spec:
            ts = [ops.truthy(self.ev(v, env)) for v in n.values]
            return V(z3.And(*ts) if isinstance(n.op, ast.And) else z3.Or(*ts), BOOL)
        # short circuit; value of the expression is only used as a condition in the anchored code
        last = None
        for i, v in enumerate(n.values):
            val = self.ev(v, env)
            t = ops.truthy(val)
            if t is None:
                raise Unsupported("truth value of sort %r" % val.s)
            if i == len(n.values) - 1:
                return V(t, BOOL)
            d = self.decide(t)
            if isinstance(n.op, ast.And) and not d:
                return V(z3.BoolVal(False), BOOL)
            if isinstance(n.op, ast.Or) and d:
                return V(z3.BoolVal(True), BOOL)
        return V(z3.BoolVal(isinstance(n.op, ast.And)), BOOL)

    def ev_UnaryOp(self, n, env):
        v = self.ev(n.operand, env)
        if isinstance(n.op, ast.Not):
            t = ops.truthy(v)
            if t is None:
                raise Unsupported("not on sort %r" % v.s)
            return V(z3.Not(t), BOOL)
        if isinstance(n.op, ast.USub):
            return V(-v.t, v.s)
        if isinstance(n.op, ast.UAdd):
            return v
        raise Unsupported("unary operator")

    def ev_BinOp(self, n, env):
        a, b = self.ev(n.left, env), self.ev(n.right, env)
        return self.binop(n.op, a, b, n)

    def binop(self, op, a, b, n=None):
        line = getattr(n, "lineno", 0)
        if a.s in (INT, REAL) and b.s in (INT, REAL) or (a.s == BOOL and b.s == INT) or (a.s == INT and b.s == BOOL):
            if a.s == BOOL:
                a = ops.coerce(a, INT)
            if b.s == BOOL:
                b = ops.coerce(b, INT)
            if a.s != b.s:
                a, b = ops.coerce(a, REAL), ops.coerce(b, REAL)
            s = a.s
            if isinstance(op, ast.Add):
                return V(a.t + b.t, s)
            if isinstance(op, ast.Sub):
                return V(a.t - b.t, s)
            if isinstance(op, ast.Mult):
                return V(a.t * b.t, s)
            if isinstance(op, (ast.FloorDiv, ast.Mod)) and s == INT:
                # Python floor semantics: a == q*b + r, 0 <= r < b (b > 0) or b < r <= 0 (b < 0)
                if not self.env.spec if False else False:
                    pass
                q, r = fresh("q", INT), fresh("r", INT)
                if not getattr(self, "_in_spec", False):
                    pass
                self.assume(z3.Implies(b.t != 0, z3.And(a.t == q * b.t + r,
                                                        ite(b.t > 0, z3.And(0 <= r, r < b.t), z3.And(b.t < r, r <= 0)))))
                return V(q if isinstance(op, ast.FloorDiv) else r, INT)
            if isinstance(op, ast.Div):
                ar, br = ops.coerce(a, REAL), ops.coerce(b, REAL)
                return V(ar.t / br.t, REAL)
            raise Unsupported("arithmetic operator %s" % type(op).__name__)
        if a.s == STR and b.s == STR and isinstance(op, ast.Add):
            return V(z3.Function("str_cat", z(STR), z(STR), z(STR))(a.t, b.t), STR)
        if isinstance(a.s, SeqS) and isinstance(b.s, TupS) and isinstance(op, ast.Add) and all(e == a.s.elem for e in b.s.elems):
            # a variable-length tuple (modelled as a sequence) extended by a tuple display: t + (e,)
            r = a
            for i in range(len(b.s.elems)):
                r = ops.seq_append(r, V(tup_get(b.t, i), a.s.elem))
            return r
        if isinstance(a.s, SeqS) and isinstance(op, ast.Add):
            a, b = self.unify(a, b)
            if a.t is None and b.t is None:
                return a
            v, ax = ops.seq_concat(a, b)
            self.assume(*ax)
            return v
        if isinstance(a.s, TupS) and isinstance(b.s, TupS) and isinstance(op, ast.Add):
            s = TupS(*(a.s.elems + b.s.elems))
            return V(tup_mk(s, *([tup_get(a.t, i) for i in range(len(a.s.elems))] + [tup_get(b.t, i) for i in range(len(b.s.elems))])), s)
        if a.s == BOOL and b.s == BOOL and isinstance(op, (ast.BitXor, ast.BitAnd, ast.BitOr)):
            if isinstance(op, ast.BitXor):
                return V(z3.Xor(a.t, b.t), BOOL)
            if isinstance(op, ast.BitAnd):
                return V(z3.And(a.t, b.t), BOOL)
            return V(z3.Or(a.t, b.t), BOOL)
        if isinstance(a.s, SeqS) and isinstance(op, ast.Mult) and b.s == INT:
            # [x] * n : a sequence of length len(a)*n ; only the single-element form is modelled
            if z3.is_int_value(z3.simplify(seq_len(a.t))) and z3.simplify(seq_len(a.t)).as_long() == 1:
                r = fresh("rep", a.s)
                j = ops.qvar("jp")
                self.assume(seq_len(r) == ite(b.t > 0, b.t, 0),
                            z3.ForAll([j], seq_get(r, j) == seq_get(a.t, 0), patterns=[seq_get(r, j)]))
                out = V(r, a.s)
                out.all_none = getattr(a, "all_none", False)
                return out
        raise Unsupported("operator %s on %r and %r (line %d)" % (type(op).__name__, a.s, b.s, line))

    def ev_Compare(self, n, env):
        left = self.ev(n.left, env)
        res = []
        for op, rn in zip(n.ops, n.comparators):
            right = self.ev(rn, env)
            res.append(self.compare(op, left, right, env, n))
            left = right
        if len(res) == 1:
            return V(res[0], BOOL)
        if env.spec:
            return V(z3.And(*res), BOOL)
        return V(z3.And(*res), BOOL)     # operands are evaluated once; no side effects in the anchored chains

    def compare(self, op, a, b, env, n=None):
        if isinstance(op, (ast.Is, ast.IsNot)):
            if b.s == NONE or (b.s == ANY and b.t is NoneU):
                t = ops.is_none(a)
            elif a.s == NONE:
                t = ops.is_none(b)
            else:
                try:
                    a, b = self.unify(a, b)
                    t = a.t == b.t
                except TypeError:
                    t = z3.BoolVal(False)      # values of unrelated kinds are never the same object
            return z3.Not(t) if isinstance(op, ast.IsNot) else t
        if isinstance(op, (ast.In, ast.NotIn)):
            if isinstance(b.s, MapS):
                k = ops.coerce(a, b.s.k)
                if not env.spec:
                    self.assume(*ops.map_facts(b, k))
                t = z3.Select(map_dom(b.t), k.t)
            elif isinstance(b.s, SeqS):
                t = ops.seq_contains(b, ops.coerce(a, b.s.elem))
            elif isinstance(b.s, RefS) and not env.spec and not getattr(self, "under_binder", 0):
                fc = self.eng.find_contract(b.s.cls, "__contains__")
                if fc is None:
                    raise Unsupported("`in` on %s without a __contains__ contract" % b.s.cls)
                t = self.call_contract(fc, b, [a], {}, getattr(n, "lineno", 0), "__contains__").t
            elif isinstance(b.s, RefS):
                fc = self.eng.find_contract(b.s.cls, "__contains__")
                if fc is None:
                    raise Unsupported("`in` on %s without a __contains__ contract" % b.s.cls)
                t = self.spec_call_pure(fc, b, [a], env).t
            else:
                raise Unsupported("`in` on sort %r" % b.s)
            return z3.Not(t) if isinstance(op, ast.NotIn) else t
        opname = {ast.Eq: "__eq__", ast.NotEq: "__ne__", ast.Lt: "__lt__", ast.LtE: "__le__", ast.Gt: "__gt__", ast.GtE: "__ge__"}.get(type(op))
        if opname and isinstance(a.s, RefS) and isinstance(b.s, RefS) and self.eng.find_contract(a.s.cls, opname) is not None:
            fc = self.eng.find_contract(a.s.cls, opname)
            if env.spec or getattr(self, "under_binder", 0):
                return self.spec_call_pure(fc, a, [b], env).t
            return self.call_contract(fc, a, [b], {}, getattr(n, "lineno", 0), opname).t
        if isinstance(op, (ast.Eq, ast.NotEq)):
            if a.s == NONE or b.s == NONE:
                t = ops.is_none(b if a.s == NONE else a)
            elif (a.s == FOREIGN) != (b.s == FOREIGN):
                t = z3.BoolVal(False)       # values of unrelated types never compare equal
            elif isinstance(a.s, RefS) and isinstance(b.s, RefS) and not env.spec and self.structural_eq_class(a.s.cls):
                t = self.dataclass_eq(a, b, n)
            else:
                a, b = self.unify(a, b)
                if a.t is None:
                    t = z3.BoolVal(True)
                else:
                    t = ops.py_eq(a, b)
            return z3.Not(t) if isinstance(op, ast.NotEq) else t
        if a.s == BOOL:
            a = ops.coerce(a, INT)
        if b.s == BOOL:
            b = ops.coerce(b, INT)
        if a.s in (INT, REAL) and b.s in (INT, REAL):
            if a.s != b.s:
                a, b = ops.coerce(a, REAL), ops.coerce(b, REAL)
            if isinstance(op, ast.Lt):
                return a.t < b.t
            if isinstance(op, ast.LtE):
                return a.t <= b.t
            if isinstance(op, ast.Gt):
                return a.t > b.t
            if isinstance(op, ast.GtE):
                return a.t >= b.t
        lt = self.unit.spec_funs.get("lt_" + a.s.key)
        if lt is not None and a.s == b.s:
            if isinstance(op, ast.Lt):
                return lt.decl(a.t, b.t)
            if isinstance(op, ast.Gt):
                return lt.decl(b.t, a.t)
            if isinstance(op, ast.LtE):
                return z3.Not(lt.decl(b.t, a.t))
            if isinstance(op, ast.GtE):
                return z3.Not(lt.decl(a.t, b.t))
        raise Unsupported("comparison %s on %r, %r (line %d)" % (type(op).__name__, a.s, b.s, getattr(n, "lineno", 0)))

    def structural_eq_class(self, clsname):
        cc = self.unit.classes.get(clsname)
        return cc is not None and cc.eq_structural

    def dataclass_eq(self, a, b, n):
        """== between instances of a dataclass that links to its own type (DESIGN §2.3).  The generated __eq__ compares the
        field tuples element by element, in field order.  Payload fields may compare equal (the outcome must not depend on
        them), so every link field may be reached; a link pair is harmless when identical / both None (equal, go on) or when
        exactly one is None (unequal, stop).  Two distinct non-None links mean recursion into the neighbours - unboundedly
        deep (RecursionError on long lists, value-dependent result): obligation structural-eq-bounded."""
        cc = self.unit.classes[a.s.cls]
        # the field list is read from the REAL class: annotated fields in order; a field declared with field(..., compare=False) takes no
        # part in the generated __eq__; the sidecar's dataclass_fields must name exactly the annotated fields (else the contract is stale)
        m_, cn_ = self.eng.src_class(a.s.cls)
        real, compared = [], []
        for st in (cn_.body if cn_ is not None else []):
            if isinstance(st, ast.AnnAssign) and isinstance(st.target, ast.Name):
                real.append(st.target.id)
                v_ = st.value
                no_cmp = isinstance(v_, ast.Call) and getattr(v_.func, "attr", getattr(v_.func, "id", "")) == "field" and any(
                    k.arg == "compare" and isinstance(k.value, ast.Constant) and k.value.value is False for k in v_.keywords)
                if not no_cmp:
                    compared.append(st.target.id)
        if cn_ is not None and real != list(cc.dataclass_fields):
            raise StaleContract("dataclass %s has fields %s in the source, the contract declares %s" % (a.s.cls, real, list(cc.dataclass_fields)))
        for d_ in (cn_.decorator_list if cn_ is not None else []):
            if isinstance(d_, ast.Call) and any(k.arg == "eq" and isinstance(k.value, ast.Constant) and k.value.value is False for k in d_.keywords):
                return a.t == b.t          # @dataclass(eq=False): object identity
        links = [f for f in cc.dataclass_fields if isinstance(cc.fields[f], RefS) and (cn_ is None or f in compared)]
        same = a.t == b.t
        decided = z3.BoolVal(False)       # "some link pair stops the comparison as unequal"
        all_equal_so_far = z3.BoolVal(True)
        bounded = z3.BoolVal(False)
        for f in links:
            x, y = self.hread(self.env, a, f), self.hread(self.env, b, f)
            stop = z3.Xor(x.t == 0, y.t == 0)
            bounded = z3.Or(bounded, z3.And(all_equal_so_far, stop))
            decided = z3.Or(decided, z3.And(all_equal_so_far, stop))
            all_equal_so_far = z3.And(all_equal_so_far, x.t == y.t)
        line = getattr(n, "lineno", 0)
        self.oblige("%s/structural-eq-bounded@L%d" % (self.fc.qualname, line), z3.Or(same, bounded, all_equal_so_far),
                    "structural-eq", line)
        unk = fresh("deep_eq", BOOL)
        # value: identical -> True; stopped at a None/non-None pair -> False; all links identical -> depends on payloads only (unknown)
        return ite(same, z3.BoolVal(True), ite(decided, z3.BoolVal(False), unk))

    def ev_Subscript(self, n, env):
        base = self.ev(n.value, env)
        if isinstance(n.slice, ast.Slice):
            return self.ev_slice(base, n.slice, env, n)
        idx = self.ev(n.slice, env)
        line = getattr(n, "lineno", 0)
        if isinstance(base.s, OptS) and isinstance(base.s.inner, (SeqS, MapS, TupS)):
            if not env.spec:
                self.guard(z3.Not(opt_is_none(base.t)), "TypeError", line)
            base = V(opt_val(base.t), base.s.inner)
        if isinstance(base.s, SeqS) and isinstance(idx.s, OptS) and idx.s.inner == INT:
            # an Optional[int] used as an index: None is a TypeError, otherwise the integer
            if not env.spec:
                self.guard(z3.Not(opt_is_none(idx.t)), "TypeError", line)
            idx = V(opt_val(idx.t), INT)
        if isinstance(base.s, SeqS):
            ln = seq_len(base.t)
            if env.spec:
                ie = idx.t
                if z3.is_int_value(z3.simplify(ie)) and z3.simplify(ie).as_long() < 0:
                    ie = ie + ln
                if getattr(self, "collect_bounds", None) is not None:
                    # code evaluated under a quantified variable (comprehension element): the access must be in range
                    ie = ite(idx.t < 0, idx.t + ln, idx.t)
                    self.collect_bounds.append(z3.And(0 <= ie, ie < ln))
                return V(seq_get(base.t, ie), base.s.elem)
            ie = ite(idx.t < 0, idx.t + ln, idx.t)
            self.guard(z3.And(0 <= ie, ie < ln), "IndexError", line)
            r = V(seq_get(base.t, z3.simplify(ie)), base.s.elem)
            self.wf(r)
            return r
        if isinstance(base.s, MapS):
            k = ops.coerce(idx, base.s.k)
            if not env.spec:
                self.assume(*ops.map_facts(base, k))
                self.guard(z3.Select(map_dom(base.t), k.t), "KeyError", line)
            r = V(z3.Select(map_val(base.t), k.t), base.s.v)
            if not env.spec:
                self.wf(r)
            return r
        if isinstance(base.s, ArrS):
            return V(z3.Select(base.t, ops.coerce(idx, base.s.k).t), base.s.v)
        if isinstance(base.s, TupS):
            i = z3.simplify(idx.t)
            if not z3.is_int_value(i):
                raise Unsupported("tuple index is not a constant (line %d)" % line)
            k = i.as_long()
            if k < 0:
                k += len(base.s.elems)
            return V(tup_get(base.t, k), base.s.elems[k])
        if isinstance(base.s, RefS):
            fc = self.eng.find_contract(base.s.cls, "__getitem__")
            if fc is None:
                raise Unsupported("subscript on %s without a __getitem__ contract" % base.s.cls)
            if env.spec:
                return self.spec_call_pure(fc, base, [idx], env)
            return self.call_contract(fc, base, [idx], {}, line, "__getitem__")
        raise Unsupported("subscript on sort %r (line %d)" % (base.s, line))

    def ev_slice(self, base, sl, env, n):
        if not isinstance(base.s, SeqS):
            raise Unsupported("slice of sort %r" % base.s)
        if sl.step is not None:
            raise Unsupported("slice with a step")
        ln = seq_len(base.t)
        lo = ops.clamp_index(self.ev(sl.lower, env).t, ln) if sl.lower is not None else z3.IntVal(0)
        hi = ops.clamp_index(self.ev(sl.upper, env).t, ln) if sl.upper is not None else ln
        lo, hi = z3.simplify(lo), z3.simplify(hi)
        if env.binders or getattr(self, "under_binder", 0):
            # under a quantified variable no definitional constant may be introduced: closed form with a lambda array
            asort = seq_arr(base.t).sort()
            f = z3.Function("slice_of_" + str(base.s.elem.key).replace("[", "_").replace("]", "").replace(",", "_"),
                            asort, z3.IntSort(), asort)
            key = "slice-axiom:" + f.name()
            if key not in self.axioms_added:
                self.axioms_added.add(key)
                a_, l_, k_ = z3.Const("a!sl", asort), z3.Int("l!sl"), z3.Int("k!sl")
                self.assume(z3.ForAll([a_, l_, k_], z3.Select(f(a_, l_), k_) == z3.Select(a_, l_ + k_),
                                      patterns=[z3.Select(f(a_, l_), k_)]))
            return V(seq_mk(base.s, ite(hi - lo > 0, hi - lo, z3.IntVal(0)), f(seq_arr(base.t), lo)), base.s)
        v, ax = ops.seq_slice(base, lo, hi)
        self.assume(*ax)
        return v

    def ev_JoinedStr(self, n, env):
        return V(fresh("fstr", STR), STR)

    def ev_Lambda(self, n, env):
        self.lambdas[id(n)] = n
        return V(n, FunS([], ANY, "lambda"))

    def comp_ordinal(self, node):
        comps = [x for x in ast.walk(self.node) if isinstance(x, ast.ListComp)]
        comps.sort(key=lambda x: (x.lineno, x.col_offset))
        return 1 + next(i for i, x in enumerate(comps) if x is node)

    def comprehension_as_loop(self, n, g, kc, lc):
        """a list comprehension whose element expression has effects, executed as the loop it abbreviates (contract: fc.comprehension(k))"""
        if g.ifs:
            raise Unsupported("filtered comprehension with effects")
        acc = "_acc%d" % kc
        self.env.locals[acc] = ops.seq_empty(SeqS(lc.elem_sort))
        body = ast.Expr(ast.Call(ast.Attribute(ast.Name(acc, ast.Load()), "append", ast.Load()), [n.elt], []))
        loop = ast.For(target=g.target, iter=g.iter, body=[body], orelse=[], lineno=getattr(n, "lineno", 0), col_offset=0)
        ast.fix_missing_locations(loop)
        for x in ast.walk(loop):
            if not hasattr(x, "lineno"):
                x.lineno = getattr(n, "lineno", 0)
        if not hasattr(self, "synthetic_loops"):
            self.synthetic_loops = {}
        self.synthetic_loops[id(loop)] = "c%d" % kc
        self.exec_for(loop)
        return self.env.locals[acc]

    def fresh_objects(self, clsname, cfc, call, S, env):
        """[Cls(args) for _ in S] with a trusted, effect-free constructor contract: len(S) pairwise distinct freshly allocated objects, each
        satisfying the constructor's postconditions (arguments must not depend on the loop variable)"""
        so = SeqS(RefS(clsname))
        r = fresh("objs", so)
        j = ops.qvar("jo")
        Path._hc[0] += 1
        a2 = z3.Const("alloc!o%d" % Path._hc[0], z3.ArraySort(z3.IntSort(), z3.BoolSort()))
        idx = z3.Function("objidx!%d" % Path._hc[0], z3.IntSort(), z3.IntSort())
        o = z3.Int("o!al")
        rng = z3.And(0 <= j, j < seq_len(S.t))
        self.assume(seq_len(r) == seq_len(S.t),
                    z3.ForAll([o], z3.Implies(z3.Select(env.alloc, o), z3.Select(a2, o))),
                    z3.ForAll([j], z3.Implies(rng, z3.And(seq_get(r, j) > 0, z3.Not(z3.Select(env.alloc, seq_get(r, j))),
                                                         z3.Select(a2, seq_get(r, j)), idx(seq_get(r, j)) == j)), patterns=[seq_get(r, j)]))
        j2 = ops.qvar("jp")
        self.assume(z3.ForAll([j, j2], z3.Implies(z3.And(0 <= j, j < j2, j2 < seq_len(S.t)), seq_get(r, j) != seq_get(r, j2)),
                              patterns=[z3.MultiPattern(seq_get(r, j), seq_get(r, j2))]))
        old_alloc = env.alloc
        env.alloc = a2
        args = [self.ev(a, env.spec_view()) for a in call.args]
        kwargs = {k.arg: k.value for k in call.keywords}
        from .calls import bind_args
        loc = dict(bind_args(self, cfc, args, kwargs, env))
        loc["self"] = V(seq_get(r, j), RefS(clsname))
        post = Env(loc, env.heap, env.alloc, spec=True, old=Env(dict(loc), dict(env.heap), old_alloc, spec=True))
        post.binders = dict(env.binders)
        for e, l in cfc.ensures_l:
            self.assume(z3.ForAll([j], z3.Implies(rng, self.ev_spec(e, post).t), patterns=[seq_get(r, j)]))
        return V(r, so)

    def ev_DictComp(self, n, env):
        """{k: e for k, v in M.items() if c}  (keys of a map: unique)   and   {k: e for k, ... in zip(K, ...)} (keys K[j], assumed
        pairwise distinct only where the contract says so: later duplicates win, as in Python)"""
        if len(n.generators) != 1:
            raise Unsupported("nested dict comprehension")
        g = n.generators[0]
        it = g.iter
        if not env.spec:
            dcs = [x for x in ast.walk(self.node) if isinstance(x, ast.DictComp)]
            dcs.sort(key=lambda x: (x.lineno, x.col_offset))
            kd = 1 + next(i for i, x in enumerate(dcs) if x is n)
            lc = self.fc.loops.get("d%d" % kd)
            if lc is not None:
                # a dict comprehension whose value expression has effects (e.g. opens a file per key), executed as the loop it abbreviates:
                #   _dacc<k> = {}; for <target> in <iter>: _dacc<k>[<key>] = <value>      (contract: fc.dict_comprehension(k, key, value))
                if g.ifs:
                    raise Unsupported("filtered dict comprehension with effects")
                acc = "_dacc%d" % kd
                self.env.locals[acc] = ops.map_empty(MapS(lc.key_sort, lc.elem_sort))
                body = ast.Assign(targets=[ast.Subscript(value=ast.Name(acc, ast.Load()), slice=n.key, ctx=ast.Store())], value=n.value)
                loop = ast.For(target=g.target, iter=g.iter, body=[body], orelse=[], lineno=getattr(n, "lineno", 0), col_offset=0)
                ast.fix_missing_locations(loop)
                for x in ast.walk(loop):
                    if not hasattr(x, "lineno") or x.lineno is None:
                        x.lineno = getattr(n, "lineno", 0)
                if not hasattr(self, "synthetic_loops"):
                    self.synthetic_loops = {}
                self.synthetic_loops[id(loop)] = "d%d" % kd
                self.exec_for(loop)
                return self.env.locals[acc]
        if isinstance(it, ast.Call) and isinstance(it.func, ast.Attribute) and it.func.attr == "items" and not it.args:
            M = self.ev(it.func.value, env)
            if isinstance(M.s, MapS) and isinstance(g.target, ast.Tuple) and len(g.target.elts) == 2 \
                    and isinstance(n.key, ast.Name) and isinstance(g.target.elts[0], ast.Name) and n.key.id == g.target.elts[0].id:
                kq = ops.qvar("kd")
                kq = z3.Const(str(kq) + "k", z(M.s.k))
                sub = Env(dict(env.locals), env.heap, env.alloc, True, env.old, env.result, env.yielded, dict(env.binders))
                self.bind_target(g.target.elts[0], V(kq, M.s.k), sub)
                self.bind_target(g.target.elts[1], V(z3.Select(map_val(M.t), kq), M.s.v), sub)
                with PureGuard(self):
                    conds = [ops.truthy(self.ev(c, sub)) for c in g.ifs]
                    val = self.ev(n.value, sub)
                so = MapS(M.s.k, val.s)
                r = fresh("dcomp", so)
                self.assume(z3.ForAll([kq], z3.Select(map_dom(r), kq) == z3.And(z3.Select(map_dom(M.t), kq), *conds),
                                      patterns=[z3.Select(map_dom(r), kq)]),
                            z3.ForAll([kq], z3.Implies(z3.Select(map_dom(r), kq), z3.Select(map_val(r), kq) == val.t),
                                      patterns=[z3.Select(map_val(r), kq)]),
                            map_size(r) >= 0, map_size(r) <= map_size(M.t),
                            z3.Implies(z3.ForAll([kq], z3.Implies(z3.Select(map_dom(M.t), kq), z3.And(*conds)) if conds else z3.BoolVal(True)),
                                       map_size(r) == map_size(M.t)))
                return V(r, so)
        if g.ifs:
            raise Unsupported("filtered dict comprehension over a sequence")
        # over a sequence of tuples: keys K[j]; value e[j]; result = fold of map_set in order (definitional, by a ghost position function)
        j = ops.qvar("jd")
        sub = Env(dict(env.locals), env.heap, env.alloc, True, env.old, env.result, env.yielded, dict(env.binders))
        if isinstance(it, ast.Call) and isinstance(it.func, ast.Name) and it.func.id == "zip" and it.func.id not in env.locals:
            # zip(A, B, ...): the j-th element written directly over the component sequences (so the axioms trigger on A[j], B[j], ...)
            ins = [self.iter_seq(a, env, getattr(n, "lineno", 0)) for a in it.args]
            es = TupS(*[x.s.elem for x in ins])
            elem = V(tup_mk(es, *[seq_get(x.t, j) for x in ins]), es)
            slen = seq_len(ins[0].t)
            for x in ins[1:]:
                slen = ite(seq_len(x.t) < slen, seq_len(x.t), slen)
            pat0 = seq_get(ins[0].t, j)
        else:
            S = self.iter_seq(it, env, getattr(n, "lineno", 0))
            elem, slen, pat0 = V(seq_get(S.t, j), S.s.elem), seq_len(S.t), seq_get(S.t, j)
        self.bind_target(g.target, elem, sub)
        with PureGuard(self):
            key = self.ev(n.key, sub)
            val = self.ev(n.value, sub)
        key = V(z3.simplify(key.t), key.s)
        val = V(z3.simplify(val.t), val.s)
        so = MapS(key.s, val.s)
        r = fresh("dcomp", so)
        kq = z3.Const(str(ops.qvar("kd")) + "k", z(key.s))
        last = z3.Function("dlast!%d" % ops._qcnt[0], z(key.s), z3.IntSort())     # position of the last pair with that key
        rng = z3.And(0 <= j, j < slen)
        self.assume(z3.ForAll([j], z3.Implies(rng, z3.And(z3.Select(map_dom(r), key.t), 0 <= last(key.t), last(key.t) < slen,
                                                         last(key.t) >= j)), patterns=[pat0]),
                    z3.ForAll([kq], z3.Implies(z3.Select(map_dom(r), kq),
                                               z3.And(0 <= last(kq), last(kq) < slen,
                                                      z3.substitute(key.t, (j, last(kq))) == kq,
                                                      z3.Select(map_val(r), kq) == z3.substitute(val.t, (j, last(kq))))),
                              patterns=[z3.Select(map_dom(r), kq)]),
                    map_size(r) >= 0, map_size(r) <= slen)
        return V(r, so)

    def ev_ListComp(self, n, env):
        return self.comprehension(n, env)

    def ev_GeneratorExp(self, n, env):
        v = self.comprehension(n, env)
        # a generator expression is lazy: it keeps reading whatever its iterable reads, plus the fields its element reads
        g = n.generators[0]
        lazy = set(self._last_iter_lazy or ())
        for m in ast.walk(g.iter):
            if isinstance(m, ast.Attribute):
                lazy |= self.keys_by_attr(m.attr)
        for m in ast.walk(n.elt):
            if isinstance(m, ast.Attribute):
                lazy |= self.keys_by_attr(m.attr)
        return V(v.t, v.s, lazy)

    def comprehension(self, n, env, elt_sort=None):
        """[elt for x in S] / (elt for x in S) without filter: elementwise map.  The element expression is evaluated with the
        loop variable bound to S[j] for a universally quantified j, so it must be side-effect free."""
        if len(n.generators) != 1:
            raise Unsupported("nested comprehension")
        g = n.generators[0]
        S = self.iter_seq(g.iter, env, getattr(n, "lineno", 0))
        self._last_iter_lazy = S.lazy
        elt = n.elt
        if not env.spec and isinstance(n, ast.ListComp):
            kc = self.comp_ordinal(n)
            lc = self.fc.loops.get("c%d" % kc)
            if lc is not None:
                return self.comprehension_as_loop(n, g, kc, lc)
        if not env.spec and not g.ifs and isinstance(elt, ast.Call) and isinstance(elt.func, ast.Name) and elt.func.id in self.unit.classes \
                and elt.func.id not in env.locals:
            cfc = self.eng.find_contract(elt.func.id, "__init__")
            if cfc is not None and cfc.trusted and not cfc.modifies_l and not cfc.requires_l:
                return self.fresh_objects(elt.func.id, cfc, elt, S, env)
        j = ops.qvar("jc")
        sub = Env(dict(env.locals), env.heap, env.alloc, True, env.old, env.result, env.yielded, dict(env.binders))
        saved = self.env
        self.bind_target(g.target, V(seq_get(S.t, j), S.s.elem), sub)
        pure_eval = PureGuard(self)
        saved_cb = getattr(self, "collect_bounds", None)
        self.collect_bounds = [] if not env.spec else None
        try:
            with pure_eval:
                conds = [ops.truthy(self.ev(c, sub)) for c in g.ifs]
                elt = self.ev(n.elt, sub)
            bounds = self.collect_bounds
        finally:
            self.collect_bounds = saved_cb
        if not env.spec:
            # a callee that may raise (a `raises` clause with iff=False) inside the element expression: some element may raise
            for cn in ast.walk(n.elt):
                if isinstance(cn, ast.Call):
                    for cfc in self.callees_of(cn):
                        for exc, when, ens, iff in cfc.raises_l:
                            if not iff:
                                if self.decide(fresh("elt_raises_" + exc, BOOL)):
                                    raise PyExc(exc, getattr(n, "lineno", 0))
        if bounds:
            self.oblige("%s/bounds@L%d:subscripts-in-comprehension-in-range" % (self.fc.qualname, getattr(n, "lineno", 0)),
                        z3.ForAll([j], z3.Implies(z3.And(0 <= j, j < seq_len(S.t), *conds), z3.And(*bounds))), "bounds",
                        getattr(n, "lineno", 0))
        if conds:
            return self.filtered_comprehension(S, j, z3.And(*conds), elt)
        so = SeqS(elt.s)
        r = fresh("comp", so)
        self.assume(seq_len(r) == seq_len(S.t),
                    z3.ForAll([j], z3.Implies(z3.And(0 <= j, j < seq_len(S.t)), seq_get(r, j) == elt.t), patterns=[seq_get(r, j)]))
        return V(r, so)

    def filtered_comprehension(self, S, j, cond, elt):
        """[elt | x in S, cond]: characterised by a strictly increasing source-index function (complete)"""
        so = SeqS(elt.s)
        r = fresh("filt", so)
        ops._qcnt[0] += 1
        src = z3.Function("src!%d" % ops._qcnt[0], z3.IntSort(), z3.IntSort())
        dst = z3.Function("dst!%d" % ops._qcnt[0], z3.IntSort(), z3.IntSort())
        i, i2 = ops.qvar("fi"), ops.qvar("fi")
        c_at = lambda x: z3.substitute(cond, (j, x))
        e_at = lambda x: z3.substitute(elt.t, (j, x))
        n = seq_len(S.t)
        self.assume(seq_len(r) >= 0, seq_len(r) <= n,
                    z3.ForAll([i], z3.Implies(z3.And(0 <= i, i < seq_len(r)),
                                              z3.And(0 <= src(i), src(i) < n, c_at(src(i)), seq_get(r, i) == e_at(src(i)), dst(src(i)) == i)),
                              patterns=[seq_get(r, i)]),
                    z3.ForAll([i, i2], z3.Implies(z3.And(0 <= i, i < i2, i2 < seq_len(r)), src(i) < src(i2)),
                              patterns=[z3.MultiPattern(src(i), src(i2))]),
                    z3.ForAll([i], z3.Implies(z3.And(0 <= i, i < n, c_at(i)),
                                              z3.And(0 <= dst(i), dst(i) < seq_len(r), src(dst(i)) == i)),
                              patterns=[dst(i)]))
        self.last_filter = (src, dst)
        self.env.locals["g_fsrc"] = V(None, FunS([INT], INT, name=src.name()))
        self.env.locals["g_fdst"] = V(None, FunS([INT], INT, name=dst.name()))
        self.env.locals["g_fin"] = S
        self.env.locals["g_fout"] = V(r, so)
        return V(r, so)

    def bind_target(self, tgt, v, env):
        if isinstance(tgt, ast.Name):
            env.locals[tgt.id] = v
        elif isinstance(tgt, (ast.Tuple, ast.List)) and isinstance(v.s, TupS):
            for i, t in enumerate(tgt.elts):
                self.bind_target(t, V(tup_get(v.t, i), v.s.elems[i]), env)
        else:
            raise Unsupported("comprehension target")

    # ------------------------------------------------------------------ calls
    def ev_Call(self, n, env):
        if env.spec:
            return self.spec_call(n, env)
        return self.code_call(n, env)

    from .calls import code_call, call_contract, spec_call, spec_call_pure, construct, builtin_call, seq_method, map_method, \
        call_uninterpreted, library_call, quantifier, apply_macro, defaults_of, apply_modifies, isinstance_of, quantified_gen, \
        lambda_apply, sorted_call, dict_from_pairs


class PureGuard:
    """while evaluating an expression under a quantified variable no decision may be taken"""

    def __init__(self, path):
        self.path = path

    def __enter__(self):
        self.saved = self.path.decide
        path = self.path
        path.under_binder = getattr(path, "under_binder", 0) + 1

        def no_decide(cond):
            c = z3.simplify(cond)
            if z3.is_true(c):
                return True
            if z3.is_false(c):
                return False
            raise Unsupported("branching inside a comprehension element / quantified expression")
        self.path.decide = no_decide

    def __exit__(self, *a):
        self.path.decide = self.saved
        self.path.under_binder -= 1
        return False


_strlits = {}


def strlit(s):
    if s not in _strlits:
        _strlits[s] = z3.Const("str!%d" % len(_strlits), z(STR))
    return _strlits[s]


def strlit_axioms():
    if len(_strlits) > 1:
        return [z3.Distinct(*_strlits.values())]
    return []


def none_v():
    return V(NoneU, NONE)


def none_of_any():
    return V(NoneU, ANY)
