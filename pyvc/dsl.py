"""Sidecar contract language (DESIGN §2.4).  Contracts are data: expression strings in Python
syntax attached to the real functions of /repo (addressed by module path + qualified name); the
files of /repo are never edited.  The same strings are parsed with `ast` and evaluated
symbolically by pyvc.engine."""
import ast
from collections import OrderedDict
from .sorts import *


class LoopC:
    def __init__(self, k):
        self.k = k
        self.invariants = []      # (expr, label)
        self.decreases_expr = None
        self.ghost_end = []       # ghost assignments executed at the end of every iteration
        self.ghost_begin = []     # ... at the start of every iteration (after the target is bound)
        self.hints = []           # proved-then-assumed at the end of an iteration, before the invariant
        self.uses_end = []
        self.uses_init = []
        self.uses_begin = []
        self.env_driven = False   # termination is not claimed (consumer / worker loops)
        self.class_invariant = False   # the class invariant of self is part of the loop invariant

    def invariant(self, expr, label=None):
        self.invariants.append((expr, label or "inv%d" % len(self.invariants)))
        return self

    def decreases(self, expr):
        self.decreases_expr = expr
        return self

    def ghost_at_end(self, stmt):
        self.ghost_end.append(stmt)
        return self

    def ghost_at_begin(self, stmt):
        self.ghost_begin.append(stmt)
        return self

    def hint(self, expr):
        self.hints.append(expr)
        return self

    def use_at_init(self, expr):
        """lemma / definition instance assumed just before the loop is entered"""
        self.uses_init.append(expr)
        return self

    def use_at_begin(self, expr):
        """lemma / definition instance assumed at the start of every iteration, after the target is bound and the begin-ghosts ran
        (lemma_inst(...) or unfold(...) only) - for facts an exceptional exit of the body needs"""
        self.uses_begin.append(expr)
        return self

    def use_at_end(self, expr):
        """lemma / definition instance assumed at the end of every iteration (lemma_inst(...) or unfold(...) only)"""
        self.uses_end.append(expr)
        return self

    def environment_driven(self):
        self.env_driven = True
        return self

    def with_class_invariant(self):
        self.class_invariant = True
        return self


class FuncC:
    def __init__(self, unit, module, cls, name, params, returns, **kw):
        self.unit, self.module, self.cls, self.name = unit, module, cls, name
        self.qualname = (cls.name + "." if cls else "") + name
        self.params = OrderedDict(params or {})
        self.returns = returns
        self.requires_l, self.ensures_l, self.raises_l, self.modifies_l = [], [], [], []
        self.loops = {}
        self.ghost_exit_l = []
        self.ghost_entry_l = []
        self.hints_l = []            # (anchor, expr)
        self.uses_exit = []
        self.trusted = kw.get("trusted", False)      # no body verified: assumed (environment / library)
        self.verify = kw.get("verify", True) and not self.trusted
        self.inv_pre = kw.get("inv_pre", None)       # None -> default by kind
        self.inv_post = kw.get("inv_post", None)
        self.yields = kw.get("yields", None)         # element sort if the function is a generator
        self.kind = kw.get("kind", "method" if cls else "function")   # method | function | init | static | classmethod
        self.at_yield_havoc = []
        self.at_yield_assume = []
        self.note = kw.get("note", "")
        self.reads_lazily = list(kw.get("reads_lazily", []))   # heap fields a returned lazy iterator keeps reading
        self.locals_sorts = dict(kw.get("locals", {}))   # declared sorts of locals that cannot be inferred
        self.self_sort = kw.get("self_sort", None)

    def requires(self, expr, label=None):
        self.requires_l.append((expr, label or "pre%d" % len(self.requires_l)))
        return self

    def ensures(self, expr, label=None):
        self.ensures_l.append((expr, label or "post%d" % len(self.ensures_l)))
        return self

    def raises(self, exc, when=None, ensures=(), iff=True):
        """exceptional exit with class `exc` happens iff `when` (evaluated in the pre-state)"""
        self.raises_l.append((exc, when, list(ensures), iff))
        return self

    def modifies(self, *locs):
        self.modifies_l.extend(locs)
        return self

    def reads(self, *fields):
        """heap fields ("Class.field") that the generator / returned iterator reads lazily, i.e. after it was handed out"""
        self.reads_lazily.extend(fields)
        return self

    def loop(self, k):
        return self.loops.setdefault(k, LoopC(k))

    def comprehension(self, k, elem):
        """contract of the k-th list comprehension (in source order) whose element expression has effects (calls a method with a frame):
        it is executed as the loop  _acc<k> = []; for <target> in <iter>: _acc<k>.append(<elt>)  with index _ic<k> / sequence _seqc<k>;
        `elem` is the element sort of the result"""
        lc = self.loops.setdefault("c%d" % k, LoopC("c%d" % k))
        lc.elem_sort = elem
        return lc

    def dict_comprehension(self, k, key, value):
        """contract of the k-th dict comprehension (in source order) whose value expression has effects: executed as the loop
        _dacc<k> = {}; for <target> in <iter>: _dacc<k>[<key>] = <value>  with index _id<k> / sequence _seqd<k>"""
        lc = self.loops.setdefault("d%d" % k, LoopC("d%d" % k))
        lc.key_sort, lc.elem_sort = key, value
        return lc

    def ghost_exit(self, stmt):
        self.ghost_exit_l.append(stmt)
        return self

    def witness_fun(self, name, args, res, bound_to):
        """existential function of the postcondition: callers get a fresh function symbol `name` per call; the callee proves the
        postcondition with `name` := its ghost function `bound_to` (e.g. the inverse permutation delivered by sorted())"""
        if not hasattr(self, "witness_funs"):
            self.witness_funs, self.witness_bind = {}, {}
        self.witness_funs[name] = FunS(args, res)
        self.witness_bind[name] = (FunS(args, res), bound_to)
        return self

    def witness(self, name, sort, bound_to):
        """existential VALUE of the postcondition (e.g. an array of chunk offsets): callers get a fresh constant `name` per call
        (also exported to them as ghost local g_<name>); the callee proves its postcondition with `name` := its ghost local `bound_to`"""
        if not hasattr(self, "witness_vals"):
            self.witness_vals = {}
        self.witness_vals[name] = (sort, bound_to)
        return self

    def default_expr(self, param, expr):
        """value of an omitted argument when the real default is not a literal (evaluated as a contract expression)"""
        if not hasattr(self, "default_exprs"):
            self.default_exprs = {}
        self.default_exprs[param] = expr
        return self

    def at_call(self, when, callee, ghost=None, use=None):
        """ghost assignment / lemma instance attached to the calls of `callee` (label = method name) in this function:
        when = 'before' | 'after'"""
        if not hasattr(self, "call_hooks"):
            self.call_hooks = {}
        lst = self.call_hooks.setdefault((when, callee), [])
        if ghost:
            lst.append(("ghost", ghost))
        if use:
            lst.append(("use", use))
        return self

    def use_exit(self, expr):
        """instance of a proved lemma / of a recursive definition assumed at the normal exit (lemma_inst(...) or unfold(...) only)"""
        self.uses_exit.append(expr)
        return self

    def hint_exit(self, expr, label=None):
        """intermediate assertion at the normal exit: proved first, then available to the postconditions"""
        self.hints_l.append((expr, label or "hint%d" % len(self.hints_l)))
        return self

    def ghost_entry(self, stmt):
        self.ghost_entry_l.append(stmt)
        return self

    def updates_arg(self, *params):
        """(library contracts) these container arguments are updated in place: in `ensures` the parameter name denotes the new value,
        old(<param>) the value passed in"""
        if not hasattr(self, "updates"):
            self.updates = []
        self.updates.extend(params)
        return self

    def ghost_at_write(self, field, stmt):
        """ghost assignment executed together with (just before) every code write of attribute `field` in this function; the
        value being written is visible as `_value` (atomic update of a real flag and its ghost shadow)"""
        if not hasattr(self, "ghost_writes"):
            self.ghost_writes = {}
        self.ghost_writes.setdefault(field, []).append(stmt)
        return self

    def at_yield(self, havoc=(), assume=()):
        self.at_yield_havoc.extend(havoc)
        self.at_yield_assume.extend(assume)
        return self


class ClassC:
    def __init__(self, unit, module, name, fields, ghost, dataclass_fields=None):
        self.unit, self.module, self.name = unit, module, name
        self.fields = OrderedDict(fields or {})
        self.ghost = OrderedDict(ghost or {})
        self.invariants = []
        self.methods = {}
        self.dataclass_fields = dataclass_fields   # ordered names if the class is a dataclass
        self.bases = None                          # filled by the frontend from the real source
        self.eq_structural = False                 # dataclass(eq=True) with links of its own type

    def invariant(self, expr, label=None):
        self.invariants.append((expr, label or "inv%d" % len(self.invariants)))
        return self

    def class_attr(self, name, sort):
        """a class-level attribute (Cls.NAME): one value shared by all instances, never rebound by the code under verification"""
        if not hasattr(self, "class_attrs"):
            self.class_attrs = {}
        self.class_attrs[name] = sort
        return self

    def volatile(self, *fields):
        """fields written by another thread: before every read in code of the monitored class the environment step (interfere) is applied,
        so stale and torn observations are covered (DESIGN §5.2)"""
        for f in fields:
            self.unit.volatile.add((self.name, f))
        return self

    def after_write(self, field, expr, label):
        """guarantee: after every write of `field` by code under verification `expr` must hold (self = the object written)"""
        self.unit.write_guarantees.setdefault((self.name, field), []).append((expr, label))
        return self

    def guarded(self, field, cond, label=None):
        """code may read or write `field` only while `cond` holds (e.g. while the monitor lock is held): obligation guarded-access@L"""
        self.unit.guards[(self.name, field)] = (cond, label or "guarded-access")
        return self

    def method(self, name, params=None, returns=NONE, **kw):
        fc = FuncC(self.unit, self.module, self, name, params, returns, **kw)
        if name == "__init__":
            fc.kind = "init"
        self.methods[name] = fc
        return fc

    def method_variant(self, name, tag, params=None, returns=NONE, **kw):
        """a second contract for the SAME method under another typing of its parameters (e.g. an int selector / a sequence of ints where
        the code dispatches with isinstance): verified on its own; callers keep using the main contract"""
        fc = FuncC(self.unit, self.module, self, name, params, returns, **kw)
        fc.qualname = "%s.%s[%s]" % (self.name, name, tag)
        if not hasattr(self, "variants"):
            self.variants = {}
        self.variants[(name, tag)] = fc
        return fc


class ModuleC:
    def __init__(self, unit, path):
        self.unit, self.path = unit, path
        self.classes = {}
        self.functions = {}

    def cls(self, name, fields=None, ghost=None, dataclass_fields=None):
        c = ClassC(self.unit, self, name, fields, ghost, dataclass_fields)
        self.classes[name] = c
        self.unit.classes[name] = c
        return c

    def function(self, name, params=None, returns=NONE, **kw):
        fc = FuncC(self.unit, self, None, name, params, returns, **kw)
        self.functions[name] = fc
        self.unit.functions[name] = fc
        return fc


class SpecFun:
    def __init__(self, name, args, res):
        self.name, self.args, self.res = name, args, res
        self.decl = z3.Function(name, *[z(a) for a in args], z(res))


class Unit:
    """one verification unit = the contracts needed to decide (part of) one property"""

    def __init__(self, name, prop):
        self.name, self.prop = name, prop
        self.modules = OrderedDict()
        self.classes = {}
        self.functions = {}
        self.spec_funs = {}
        self.macros = {}          # name -> (params, expr string)
        self.axioms = []          # (expr string, label)
        self.var_sorts = {}       # binder name -> sort (for quantifiers over non-Int)
        self.lemmas = []          # lemmas proved by induction
        self.rec_defs = {}        # name -> (params, defining equation)
        self.guards = {}          # (class, field) -> (condition, label)
        self.volatile = set()     # (class, field) read with an environment step first
        self.write_guarantees = {}   # (class, field) -> [(expr, label)] obligations after each write
        self.apply_fun = None     # name of the spec function apply(callable_value, arg) for calls of ANY-sorted values
        self.class_object_field = None   # ghost field of an instance holding its class object (for classmethods with a symbolic class)
        self.isinstance_fun = None   # name of the spec function used for isinstance(x, <class-valued expression>)
        self.guarantee_exempt = set()   # qualnames of functions that run while no other thread exists (their post states the initial invariant)
        self.interference = None  # thread-modular environment step (DESIGN §5): see interfere()
        self.env = {}             # dotted name -> trusted FuncC (library functions)
        self.assumptions = []     # free text, goes to the evidence
        self.targets = []         # (class or None, function name) to verify, in order

    def module(self, path):
        if path not in self.modules:
            self.modules[path] = ModuleC(self, path)
        return self.modules[path]

    def spec_fun(self, name, args, res):
        f = SpecFun(name, list(args), res)
        self.spec_funs[name] = f
        return f

    def define(self, name, params, expr):
        """macro: spec-level function given by an expression over its parameters"""
        self.macros[name] = (list(params), expr)

    def axiom(self, expr, label=None):
        self.axioms.append((expr, label or "axiom%d" % len(self.axioms)))

    def var(self, name, sort):
        self.var_sorts[name] = sort

    def interfere(self, cls, when, modifies, ensures):
        """environment step of other processes / threads (rely): whenever code of class `cls` is about to call into the environment
        (library / trusted function, lock operation) - and right after releasing a lock - while `when` holds, the locations in
        `modifies` are havocked and `ensures` (two-state: old = before the step) is assumed"""
        self.interference = {"cls": cls, "when": when, "modifies": list(modifies), "ensures": list(ensures)}

    def rec_def(self, name, params, expr):
        """defining equation of a recursive spec function (recursion on an Int argument that decreases to 0: a conservative
        definition).  It is never given to the solver as a quantified axiom (recursive definitions make E-matching loop); ground
        instances are assumed explicitly with unfold('name', args...) in lemmas / use-clauses."""
        self.rec_defs[name] = (list(params), expr)

    def lemma(self, name, params, requires, ensures, induct, generalize=(), trigger=None, unfold=()):
        """a lemma proved by induction on the Int parameter `induct` (base: induct <= 0, step: from induct-1, the induction
        hypothesis being universally quantified over the parameters in `generalize`); once its two obligations are discharged it
        is available as the axiom  forall params. requires -> ensures  wherever a spec function it mentions is used"""
        for p, srt in params.items():
            self.var_sorts[p] = srt
        self.lemmas.append({"name": name, "params": dict(params), "requires": list(requires), "ensures": list(ensures),
                            "induct": induct, "generalize": list(generalize), "unfold": list(unfold)})
        # proved lemmas are not turned into quantified axioms; they are instantiated explicitly with lemma_inst('name', args...)
        self.targets.append(("lemma:", name, None))

    def library(self, dotted, params=None, returns=NONE, **kw):
        fc = FuncC(self, None, None, dotted, params, returns, trusted=True, **kw)
        self.env[dotted] = fc
        return fc

    def assume(self, text):
        self.assumptions.append(text)

    def verify(self, cls, fn, concrete=None, variant=None):
        """verify method `fn` of class `cls` (None: module-level function); `concrete`: receiver class whose MRO resolves calls;
        `variant`: verify the body once more under another typing of its parameters (ClassC.method_variant)"""
        self.targets.append((cls, fn, concrete, variant) if variant else (cls, fn, concrete))
