"""Sorts of the contract language and their SMT (z3) representation.

Every symbolic value is a single z3 term plus one of these sorts (DESIGN appendix A.1):

  INT   -> Int                      BOOL -> Bool            REAL -> Real (numeric keys, no NaN)
  ANY   -> uninterpreted sort U     STR  -> uninterpreted sort S (a few axiomatised operations)
  RefS  -> Int (0 is None)          object identity
  SeqS  -> datatype (len:Int, arr:Array Int->T)       value semantics, extensional equality is explicit
  MapS  -> datatype (dom:Array K->Bool, val:Array K->V, size:Int)
  TupS  -> datatype with one constructor
  OptS  -> datatype none | some(v)
  FunS  -> an uninterpreted function symbol (callbacks)
"""
import z3


class Sort:
    key = "?"

    def __eq__(self, o):
        return isinstance(o, Sort) and self.key == o.key

    def __ne__(self, o):
        return not self.__eq__(o)

    def __hash__(self):
        return hash(self.key)

    def __repr__(self):
        return self.key


class Prim(Sort):
    def __init__(self, key):
        self.key = key


INT = Prim("Int")
BOOL = Prim("Bool")
REAL = Prim("Real")
ANY = Prim("Any")
STR = Prim("Str")
NONE = Prim("None")
FOREIGN = Prim("Foreign")     # a value of some type that is neither ordered against nor equal to the numeric keys (C09 probes)


class SeqS(Sort):
    def __init__(self, elem):
        self.elem = elem
        self.key = "Seq[%s]" % elem.key


class MapS(Sort):
    def __init__(self, k, v):
        self.k, self.v = k, v
        self.key = "Map[%s,%s]" % (k.key, v.key)


class TupS(Sort):
    def __init__(self, *elems):
        self.elems = tuple(elems)
        self.key = "Tup[%s]" % ",".join(e.key for e in elems)


class RefS(Sort):
    def __init__(self, cls):
        self.cls = cls
        self.key = "Ref[%s]" % cls


class ArrS(Sort):
    """total function (ghost only): an SMT array"""

    def __init__(self, k, v):
        self.k, self.v = k, v
        self.key = "Arr[%s,%s]" % (k.key, v.key)


class OptS(Sort):
    def __init__(self, inner):
        self.inner = inner
        self.key = "Opt[%s]" % inner.key


class UnionS(Sort):
    """tagged union of sorts (a list whose entries are either an offset or a text)"""

    def __init__(self, *alts):
        self.alts = tuple(alts)
        self.key = "Union[%s]" % "|".join(a.key for a in alts)


class FunS(Sort):
    """callback: uninterpreted, pure, total function of its arguments"""

    def __init__(self, args, res, name=None):
        self.args, self.res = tuple(args), res
        self.name = name
        self.key = "Fun[%s->%s]%s" % (",".join(a.key for a in args), res.key, name or "")


_U = z3.DeclareSort("U")
_S = z3.DeclareSort("S")
NoneU = z3.Const("NoneU", _U)
_cache = {}


def _san(k):
    return k.replace("[", "_").replace("]", "").replace(",", "_").replace("->", "_to_")


def z(sort):
    """z3 sort of a contract sort"""
    k = sort.key
    if k in _cache:
        return _cache[k]
    if sort == INT or isinstance(sort, RefS):
        r = z3.IntSort()
    elif sort == BOOL:
        r = z3.BoolSort()
    elif sort == REAL:
        r = z3.RealSort()
    elif sort == ANY:
        r = _U
    elif sort == STR:
        r = _S
    elif sort == NONE:
        r = _U
    elif sort == FOREIGN:
        r = z3.DeclareSort("Foreign")
    elif isinstance(sort, SeqS):
        d = z3.Datatype(_san(k))
        d.declare("mk", ("len", z3.IntSort()), ("arr", z3.ArraySort(z3.IntSort(), z(sort.elem))))
        r = d.create()
    elif isinstance(sort, MapS):
        d = z3.Datatype(_san(k))
        d.declare("mk", ("dom", z3.ArraySort(z(sort.k), z3.BoolSort())), ("val", z3.ArraySort(z(sort.k), z(sort.v))),
                  ("size", z3.IntSort()))
        r = d.create()
    elif isinstance(sort, TupS):
        d = z3.Datatype(_san(k))
        d.declare("mk", *[("f%d" % i, z(e)) for i, e in enumerate(sort.elems)])
        r = d.create()
    elif isinstance(sort, ArrS):
        r = z3.ArraySort(z(sort.k), z(sort.v))
    elif isinstance(sort, UnionS):
        d = z3.Datatype(_san(k).replace("|", "_or_"))
        for i, a in enumerate(sort.alts):
            d.declare("alt%d" % i, ("u%d" % i, z(a)))
        r = d.create()
    elif isinstance(sort, OptS):
        d = z3.Datatype(_san(k))
        d.declare("none")
        d.declare("some", ("v", z(sort.inner)))
        r = d.create()
    else:
        raise TypeError("no SMT sort for %r" % sort)
    _cache[k] = r
    return r


class V:
    """symbolic value: z3 term + contract sort"""
    __slots__ = ("t", "s", "lazy", "all_none", "gen")

    def __init__(self, t, s, lazy=None):
        self.t, self.s = t, s
        self.gen = False        # the result of calling a generator FUNCTION under contract (its body runs when it is consumed)
        self.lazy = lazy        # set of heap keys a lazy iterator keeps reading (None: a plain value / snapshot)
        self.all_none = False   # a sequence known to consist of None only ([None] * k)

    def __repr__(self):
        return "V(%s:%s)" % (self.t, self.s)


_cnt = [0]


def fresh(prefix, sort):
    _cnt[0] += 1
    return z3.Const("%s!%d" % (prefix, _cnt[0]), z(sort))


def fresh_v(prefix, sort):
    return V(fresh(prefix, sort), sort)


# ---- accessors ------------------------------------------------------------------------------

def seq_len(t):
    return t.sort().accessor(0, 0)(t)


def seq_arr(t):
    return t.sort().accessor(0, 1)(t)


def seq_mk(sort, ln, arr):
    return z(sort).constructor(0)(ln, arr)


def seq_get(t, i):
    return z3.Select(seq_arr(t), i)


def map_dom(t):
    return t.sort().accessor(0, 0)(t)


def map_val(t):
    return t.sort().accessor(0, 1)(t)


def map_size(t):
    return t.sort().accessor(0, 2)(t)


def map_mk(sort, dom, val, size):
    return z(sort).constructor(0)(dom, val, size)


def tup_get(t, i):
    return t.sort().accessor(0, i)(t)


def tup_mk(sort, *ts):
    return z(sort).constructor(0)(*ts)


def opt_none(sort):
    return z(sort).constructor(0)()


def opt_some(sort, t):
    return z(sort).constructor(1)(t)


def opt_is_none(t):
    return t.sort().recognizer(0)(t)


def opt_val(t):
    return t.sort().accessor(1, 0)(t)


def simp(t):
    return z3.simplify(t)


def union_inject(sort, v):
    i = sort.alts.index(v.s)
    return V(z(sort).constructor(i)(v.t), sort)


def union_is(t, sort, alt):
    return t.sort().recognizer(sort.alts.index(alt))(t)


def union_get(t, sort, alt):
    i = sort.alts.index(alt)
    return t.sort().accessor(i, 0)(t)
