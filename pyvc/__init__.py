"""pyvc - a small contract-based deductive verifier for the Python subset used by windPyUtils.
See /verif/DESIGN.md §2 and /verif/design/A_engine.md."""
