"""Calls: modular use of callee contracts (never the callee body), builtins, container methods,
library (trusted environment) contracts, constructors, and the spec-level vocabulary."""
import ast
import z3
from .sorts import *
from . import ops
from .ops import ite


def _eng():
    from . import engine
    return engine


# ------------------------------------------------------------------------------------------------
#  code-mode calls
# ------------------------------------------------------------------------------------------------
def code_call(self, n, env):
    E = _eng()
    f = n.func
    line = getattr(n, "lineno", 0)
    kwargs = {(k.arg if k.arg is not None else "kwargs"): k.value for k in n.keywords}      # f(**m): the map is the parameter `kwargs`
    if isinstance(f, ast.Name):
        name = f.id
        if name in env.locals:
            fv = env.locals[name]
            if fv.s == ANY and self.unit.apply_fun:
                # a first-class callable held in a value of sort ANY (e.g. a field type used as a converter): t(v) is apply(t, v)
                sf = self.unit.spec_funs[self.unit.apply_fun]
                args_ = [ops.coerce(self.ev(a, env), srt) for a, srt in zip(n.args, sf.args[1:])]
                return V(sf.decl(fv.t, *[a.t for a in args_]), sf.res)
            if isinstance(fv.s, FunS):
                return self.call_uninterpreted(fv, name, [self.ev(a, env) for a in n.args], line)
            if isinstance(fv.s, RefS):
                fc = self.eng.find_contract(fv.s.cls, "__call__")
                if fc is None:
                    raise E.Unsupported("call of %s instance without a __call__ contract" % fv.s.cls)
                return self.call_contract(fc, fv, [self.ev(a, env) for a in n.args], kwargs, line, "__call__")
        if name in self.nested:
            qual = self.fc.qualname + ".<" + name + ">"
            fc = self.unit.functions.get(qual)
            if fc is None:
                raise E.Unsupported("nested function %s has no contract (%s)" % (name, qual))
            return self.call_contract(fc, None, [self.ev(a, env) for a in n.args], kwargs, line, name)
        if name in self.unit.classes:
            return self.construct(name, n, env)
        if name in self.unit.functions:
            fc = self.unit.functions[name]
            return self.call_contract(fc, None, [self.ev(a, env) for a in n.args], kwargs, line, name)
        if name in self.unit.env:
            return self.library_call(self.unit.env[name], n, env)
        return self.builtin_call(name, n, env)
    if isinstance(f, ast.Attribute):
        # super().m(...)
        if isinstance(f.value, ast.Call) and isinstance(f.value.func, ast.Name) and f.value.func.id == "super":
            selfv = env.locals[self.selfname]
            order = self.eng.mro(self.concrete)
            after = self.defcls
            for c in order[order.index(after) + 1:]:
                cc = self.unit.classes.get(c)
                if cc is not None and f.attr in cc.methods:
                    return self.call_contract(cc.methods[f.attr], selfv, [self.ev(a, env) for a in n.args], kwargs, line,
                                              "super()." + f.attr)
                m, cn = self.eng.src_class(c)
                if cn is not None and any(isinstance(x, ast.FunctionDef) and x.name == f.attr for x in cn.body):
                    raise E.Unsupported("super().%s resolves to %s.%s which has no contract" % (f.attr, c, f.attr))
            if f.attr == "__init__":
                return E.none_v()          # object.__init__ / external base without state of its own
            raise E.Unsupported("super().%s not resolvable" % f.attr)
        # module function: bisect.bisect_left, heapq.heappush, ...
        if isinstance(f.value, ast.Name) and f.value.id not in env.locals:
            dotted = f.value.id + "." + f.attr
            if dotted in self.unit.env:
                return self.library_call(self.unit.env[dotted], n, env)
            if f.value.id in self.unit.classes:
                # Class.method(self, ...) explicit base call or static/class method
                fc = self.eng.find_contract(f.value.id, f.attr)
                if fc is not None:
                    args = [self.ev(a, env) for a in n.args]
                    if fc.kind in ("static", "classmethod"):
                        return self.call_contract(fc, None, args, kwargs, line, dotted)
                    return self.call_contract(fc, args[0], args[1:], kwargs, line, dotted)
            raise E.Unsupported("call of %s (no library contract in this unit)" % dotted)
        recv = self.ev(f.value, env)
        if isinstance(recv.s, OptS) and isinstance(recv.s.inner, (SeqS, MapS)):
            self.guard(z3.Not(opt_is_none(recv.t)), "AttributeError", line)
            recv = V(opt_val(recv.t), recv.s.inner)
            if f.attr in ("append", "insert", "pop", "remove", "extend", "clear", "reverse", "update", "setdefault"):
                raise E.Unsupported("in-place method on an optional container")
        if isinstance(recv.s, SeqS):
            return self.seq_method(recv, f, n, env)
        if isinstance(recv.s, MapS):
            return self.map_method(recv, f, n, env)
        if isinstance(recv.s, RefS):
            fc = self.eng.find_contract(recv.s.cls, f.attr)
            if fc is None and f.attr in self.unit.classes:
                return self.construct(f.attr, n, env)          # nested class used through the instance: self.Nested(...)
            if fc is None:
                # a field holding a callback?
                d = self.eng.field_decl(recv.s.cls, f.attr)
                if d is not None and isinstance(d[1], FunS):
                    return self.call_uninterpreted(V(None, d[1]), f.attr, [self.ev(a, env) for a in n.args], line)
                if d is not None and isinstance(d[1], RefS):
                    # a field holding a callable object: obj.field(args) is field.__call__(args)
                    target = self.hread(env, recv, f.attr)
                    cfc = self.eng.find_contract(d[1].cls, "__call__")
                    if cfc is None:
                        raise E.Unsupported("%s.%s is called but %s has no __call__ contract" % (recv.s.cls, f.attr, d[1].cls))
                    args_ = [self.ev(a, env) for a in n.args]
                    if getattr(self, "under_binder", 0):
                        return self.spec_call_pure(cfc, target, args_, env)
                    return self.call_contract(cfc, target, args_, kwargs, line, f.attr)
                raise E.Unsupported("method %s.%s has no contract in unit %s (line %d)" % (recv.s.cls, f.attr, self.unit.name, line))
            if fc.kind in ("static", "classmethod"):
                args_ = [self.ev(a, env) for a in n.args]
                first = next(iter(fc.params), None)
                if fc.kind == "classmethod" and first is not None and isinstance(fc.params[first], RefS) and self.unit.class_object_field:
                    # the class object is an explicit parameter of the contract: the receiver itself when it is a class object,
                    # the receiver's class (ghost field) when the method is called through an instance
                    if recv.s.cls == fc.params[first].cls or fc.params[first].cls in self.eng.mro(recv.s.cls):
                        args_ = [recv] + args_
                    else:
                        args_ = [self.hread(env, recv, self.unit.class_object_field)] + args_
                return self.call_contract(fc, None, args_, kwargs, line, f.attr)
            if getattr(self, "under_binder", 0):
                # inside a comprehension element / quantified expression: only pure, definable methods (no fresh result constant)
                return self.spec_call_pure(fc, recv, [self.ev(a, env) for a in n.args], env)
            return self.call_contract(fc, recv, [self.ev(a, env) for a in n.args], kwargs, line, f.attr)
        if recv.s == STR:
            dotted = "str." + f.attr
            if dotted in self.unit.env:
                return self.library_call(self.unit.env[dotted], n, env, recv=recv)
        raise E.Unsupported("method call .%s on sort %r (line %d)" % (f.attr, recv.s, line))
    if isinstance(f, ast.Call) and isinstance(f.func, ast.Name) and f.func.id == "type":
        # type(self)(...)
        tv = self.ev(f.args[0], env)
        if isinstance(tv.s, RefS):
            return self.construct(tv.s.cls, n, env)
    raise E.Unsupported("call form at line %d" % line)


def call_uninterpreted(self, fv, name, args, line):
    """callback: pure total uninterpreted function (DESIGN A.7)"""
    fs = fv.s
    nm = fs.name or name
    decl = z3.Function(nm if "!" in nm else "cb_" + nm, *[z(a) for a in fs.args], z(fs.res))
    args = [ops.coerce(a, s) for a, s in zip(args, fs.args)]
    return V(decl(*[a.t for a in args]), fs.res)


def bind_args(self, fc, args, kwargs, env, fn_node=None):
    """actual -> formal binding for a contract call; defaults must be given as literals in the real signature"""
    E = _eng()
    names = list(fc.params.keys())
    names = [p for p in names if not p.startswith("ghost_")]
    bound = {}
    if len(args) > len(names):
        raise E.Unsupported("too many arguments for %s" % fc.qualname)
    for p, a in zip(names, args):
        bound[p] = a
    for k, node in kwargs.items():
        if k not in fc.params:
            raise E.Unsupported("unknown keyword %s for %s" % (k, fc.qualname))
        bound[k] = self.ev(node, env) if isinstance(node, ast.AST) else node
    missing = [p for p in names if p not in bound]
    if missing and fc.name.endswith(">"):
        for p in list(missing):
            if p in env.locals:              # free variable of a nested function: the enclosing function's local of that name
                bound[p] = env.locals[p]
                missing.remove(p)
    if missing:
        defaults = dict(self.defaults_of(fc))
        for k_, e_ in getattr(fc, "default_exprs", {}).items():
            defaults[k_] = ast.parse(e_, mode="eval").body
        for p in missing:
            if p not in defaults:
                raise E.Unsupported("argument %s of %s missing and no default known" % (p, fc.qualname))
            bound[p] = self.ev(defaults[p], env.spec_view())
    out = {}
    for p in names:
        s = fc.params[p]
        v = bound[p]
        if isinstance(s, FunS):
            out[p] = v
            continue
        v = self.fix_empty(v, s)
        try:
            out[p] = ops.coerce(v, s)
        except TypeError as e:
            raise E.Unsupported("argument %s of %s: %s" % (p, fc.qualname, e))
    return out


def defaults_of(self, fc):
    """default values of the REAL signature (read from the source)"""
    node = None
    if fc.trusted:
        return getattr(fc, "defaults", {})
    if fc.cls is not None:
        _, _, node = self.eng.find_source(fc.cls.name, fc.name)
    else:
        from . import frontend
        node = frontend.load_module(fc.module.path).find_function(fc.name)
    if node is None:
        return {}
    a = node.args
    pos = a.posonlyargs + a.args
    out = {}
    for arg, d in zip(pos[len(pos) - len(a.defaults):], a.defaults):
        out[arg.arg] = d
    for arg, d in zip(a.kwonlyargs, a.kw_defaults):
        if d is not None:
            out[arg.arg] = d
    return out


def call_contract(self, fc, recv, args, kwargs, line, label):
    """modular call: assert pre, havoc frame, assume post; raises clauses fork (DESIGN §2.1 step 3)"""
    E = _eng()
    self.callno += 1
    tag = "%s/call@L%d:%s" % (self.fc.qualname, line, label)
    if fc.trusted and not getattr(fc, "no_interference", False):
        self.apply_interference(line, "before " + label)       # a call into the environment is a scheduling point
    env = self.env
    hooks = getattr(self.fc, "call_hooks", {})
    for kind_, text_ in hooks.get(("before", label), []):
        if kind_ == "ghost":
            self.exec_ghost(text_)
        else:
            self.assume_use(text_, env.spec_view(old=self.entry))
    bound = bind_args(self, fc, args, kwargs, env)
    loc = dict(bound)
    selfname = "self"
    for wname, wsort in getattr(fc, "witness_funs", {}).items():
        E.Path._hc[0] += 1
        loc[wname] = V(None, FunS(wsort.args, wsort.res, name="%s!%d" % (wname, E.Path._hc[0])))
        env.locals["g_" + wname] = loc[wname]          # the caller may name the witness in its own hints / invariants
    for wname, (wsort, bound_to) in getattr(fc, "witness_vals", {}).items():
        loc[wname] = fresh_v("w_" + wname, wsort)
        env.locals["g_" + wname] = loc[wname]
    if recv is not None and fc.cls is not None:
        loc[selfname] = recv
    pre_env = E.Env(loc, dict(env.heap), env.alloc, spec=True)
    pre_env.old = pre_env
    # receiver invariant + preconditions
    inv_pre = fc.inv_pre if fc.inv_pre is not None else (fc.cls is not None and fc.kind == "method" and (not fc.name.startswith("_") or fc.name.startswith("__")))
    if inv_pre and recv is not None:
        for e, l in self.eng.invariants_of(recv.s.cls):
            self.oblige("%s:receiver-inv:%s" % (tag, l), self.ev_spec(e, pre_env).t, "pre@call", line)
    for e, l in fc.requires_l:
        self.oblige("%s:pre:%s" % (tag, l), self.ev_spec(e, pre_env).t, "pre@call", line)
    for e, l in fc.requires_l:
        self.assume(self.ev_spec(e, pre_env))
    # exceptional outcomes
    for exc, when, ens, iff in fc.raises_l:
        if when is None:
            c = fresh("may_raise_" + exc, BOOL)
        else:
            c = self.ev_spec(when, pre_env).t
            if not iff:
                c = z3.And(c, fresh("may_raise_" + exc, BOOL))      # `when` is only necessary: the callee MAY raise then
        if self.decide(c):
            # state: unchanged unless the clause says otherwise (modifies still applies when ensures are given)
            if ens:
                self.apply_modifies(fc, pre_env)
                post_env = E.Env(loc, env.heap, env.alloc, spec=True, old=pre_env)
                for x in ens:
                    self.assume(self.ev_spec(x, post_env))
                inv_post_ = fc.inv_post if fc.inv_post is not None else (inv_pre or fc.kind == "init")
                if inv_post_ and recv is not None and fc.kind != "init":
                    # the callee proves its class invariant on every declared exceptional exit too (inv-preserve-on-raise)
                    for e_, l_ in self.eng.invariants_of(recv.s.cls):
                        self.assume(self.ev_spec(e_, post_env))
            raise E.PyExc(exc, line)
    # frame + postconditions
    self.apply_modifies(fc, pre_env)
    res = None
    lazy = self.keys_of_names(fc.reads_lazily) if fc.reads_lazily else None
    if fc.yields is not None:
        res = fresh_v("ys_" + fc.name.strip("_"), SeqS(fc.yields))
        res.lazy = lazy
        res.gen = "pending" if not fc.trusted else False
        self.wf(res)
        short = fc.name.split(".")[-1].strip("<>_")
        env.locals["g_ys_" + short] = V(res.t, res.s)        # the caller may name the callee's yield summary in its invariants
    elif fc.returns is not None and fc.returns != NONE:
        res = fresh_v("r_" + fc.name.strip("_"), fc.returns)
        res.lazy = lazy
        self.wf(res)
    else:
        res = E.none_v()
    self.last_updates = {}
    if getattr(fc, "updates", None):
        # container arguments updated in place: the postcondition speaks about the new value under the parameter's name, old(p) is
        # the value passed in; the caller's variable is rebound by library_call
        loc = dict(loc)
        for pname in fc.updates:
            nv = fresh_v("u_" + pname, fc.params[pname])
            self.wf(nv)
            loc[pname] = nv
            self.last_updates[pname] = nv
    post_env = E.Env(loc, env.heap, env.alloc, spec=True, old=pre_env, result=res,
                     yielded=res if fc.yields is not None else None)
    inv_post = fc.inv_post if fc.inv_post is not None else (inv_pre or fc.kind == "init")
    if inv_post and recv is not None:
        for e, l in self.eng.invariants_of(recv.s.cls):
            self.assume(self.ev_spec(e, post_env))
    for e, l in fc.ensures_l:
        if e.strip() == "False":
            self.expect_dead = True        # the callee never returns normally (it always raises): the rest of this path is dead by design
        self.assume(self.ev_spec(e, post_env))
    if getattr(fc, "releases_lock", False):
        self.apply_interference(line, "after " + label)         # after a release other processes may run
    for kind_, text_ in hooks.get(("after", label), []):
        if kind_ == "ghost":
            self.exec_ghost(text_, result=res)
        else:
            self.assume_use(text_, self.env.spec_view(old=self.entry, result=res))
    if res is not None and getattr(res, "gen", False) == "pending":
        # the contract of a generator function was applied here, at the call; its body really runs when the generator is consumed:
        # remember the heap so that consumption after a state change is refused (as_iter_seq) instead of proved in the wrong order
        res.gen = tuple(sorted(((k, a) for k, a in self.env.heap.items()), key=lambda kv: kv[0]))
    return res


def apply_modifies(self, fc, pre_env):
    E = _eng()
    whole, cells = set(), {}
    for loc in fc.modifies_l:
        self._mod_loc(loc, pre_env, whole, cells)
    for key in sorted(whole):
        self._uniq_heap(key)
    for key, refs in sorted(cells.items(), key=lambda kv: kv[0]):
        sort = self.eng.all_heap_keys()[key]
        for r in refs:
            self.havoc_cell(key, r, sort)
    if getattr(fc, "allocates", True):
        E.Path._hc[0] += 1
        a2 = z3.Const("alloc!c%d" % E.Path._hc[0], z3.ArraySort(z3.IntSort(), z3.BoolSort()))
        o = z3.Int("o!al")
        self.assume(z3.ForAll([o], z3.Implies(z3.Select(self.env.alloc, o), z3.Select(a2, o)), patterns=[z3.Select(a2, o)]))
        self.env.alloc = a2


def construct(self, clsname, n, env):
    E = _eng()
    line = getattr(n, "lineno", 0)
    cc = self.unit.classes[clsname]
    args = [self.ev(a, env) for a in n.args]
    kwargs = {k.arg: k.value for k in n.keywords}
    if cc.dataclass_fields is not None and "__init__" not in cc.methods:
        # @dataclass: generated __init__ assigns the fields in order (defaults read from the class body)
        r = self.new_ref(clsname)
        vals = dict(zip(cc.dataclass_fields, args))
        for k, node in kwargs.items():
            vals[k] = self.ev(node, env)
        m, cn = self.eng.src_class(clsname)
        for f in cc.dataclass_fields:
            if f not in vals:
                dflt = None
                for st in cn.body:
                    if isinstance(st, ast.AnnAssign) and isinstance(st.target, ast.Name) and st.target.id == f and st.value is not None:
                        dflt = st.value
                if dflt is None:
                    raise E.Unsupported("dataclass %s field %s has no value" % (clsname, f))
                vals[f] = self.ev(dflt, env.spec_view())
            self.hwrite(r, f, self.fix_empty(vals[f], cc.fields[f]))
        return r
    fc = self.eng.find_contract(clsname, "__init__")
    if fc is None:
        raise E.Unsupported("constructor of %s has no contract" % clsname)
    r = self.new_ref(clsname)
    self.call_contract(fc, r, args, kwargs, line, clsname + ".__init__")
    return r


def library_call(self, fc, n, env, recv=None):
    args = [self.ev(a, env) for a in n.args]
    if recv is not None:
        args = [recv] + args
    kwargs = {k.arg: k.value for k in n.keywords}
    r = self.call_contract(fc, None, args, kwargs, getattr(n, "lineno", 0), fc.name)
    for pname, nv in list(getattr(self, "last_updates", {}).items()):
        k_ = list(fc.params).index(pname) - (1 if recv is not None else 0)
        an = n.args[k_] if 0 <= k_ < len(n.args) else kwargs.get(pname)
        if an is None:
            raise _eng().Unsupported("updated argument %s of %s not found at the call" % (pname, fc.name))
        self.assign(an, nv)
    self.last_updates = {}
    return r


def builtin_call(self, name, n, env):
    E = _eng()
    line = getattr(n, "lineno", 0)
    if name == "len":
        v = self.ev(n.args[0], env)
        if isinstance(v.s, OptS) and isinstance(v.s.inner, (SeqS, MapS)):
            self.guard(z3.Not(opt_is_none(v.t)), "TypeError", line)
            v = V(opt_val(v.t), v.s.inner)
        if isinstance(v.s, SeqS):
            return V(seq_len(v.t), INT) if v.t is not None else V(z3.IntVal(0), INT)
        if isinstance(v.s, MapS):
            return V(map_size(v.t), INT)
        if isinstance(v.s, TupS):
            return V(z3.IntVal(len(v.s.elems)), INT)
        if isinstance(v.s, RefS):
            fc = self.eng.find_contract(v.s.cls, "__len__")
            if fc is None:
                raise E.Unsupported("len() of %s without a __len__ contract" % v.s.cls)
            return self.call_contract(fc, v, [], {}, line, "__len__")
        raise E.Unsupported("len of sort %r" % v.s)
    if name == "isinstance":
        v = self.ev(n.args[0], env)
        tn = n.args[1]
        if self.unit.isinstance_fun and not isinstance(tn, (ast.Name, ast.Tuple)):
            # isinstance(x, <expression denoting a class object>): the unit's uninterpreted subclass test
            cv = self.ev(tn, env)
            sf = self.unit.spec_funs[self.unit.isinstance_fun]
            return V(sf.decl(ops.coerce(v, sf.args[0]).t, ops.coerce(cv, sf.args[1]).t), BOOL)
        tnames = [t.id if isinstance(t, ast.Name) else getattr(t, "attr", "?") for t in (tn.elts if isinstance(tn, ast.Tuple) else [tn])]
        return V(self.isinstance_of(v, tnames), BOOL)
    if name == "hasattr" and len(n.args) == 2 and isinstance(n.args[1], ast.Constant) and isinstance(n.args[1].value, str):
        # hasattr(x, "name") is decided by the declared sort of x: a dict has the dict methods, a list / tuple / number / string has none of
        # them, an object has what its class (MRO) declares as a method under contract or as a field
        v = self.ev(n.args[0], env)
        attr = n.args[1].value
        s_ = v.s.inner if isinstance(v.s, OptS) else v.s
        if isinstance(s_, MapS):
            return V(z3.BoolVal(attr in ("keys", "values", "items", "get", "pop", "update", "setdefault", "clear", "popitem", "copy")), BOOL)
        if isinstance(s_, (SeqS, TupS)) or s_ in (INT, REAL, BOOL, STR):
            if attr in ("keys", "values", "items"):
                return V(z3.BoolVal(False), BOOL)
            raise E.Unsupported("hasattr(<%r>, %r)" % (s_, attr))
        if isinstance(s_, RefS):
            return V(z3.BoolVal(self.eng.find_contract(s_.cls, attr) is not None or self.eng.field_decl(s_.cls, attr) is not None), BOOL)
        raise E.Unsupported("hasattr on sort %r" % (s_,))
    if name in ("list", "tuple", "iter"):
        if not n.args:
            return V(None, SeqS(NONE))
        return self.iter_seq(n.args[0], env, line)
    if name == "all" or name == "any":
        g = n.args[0]
        if isinstance(g, (ast.GeneratorExp, ast.ListComp)):
            return self.quantified_gen(g, env, name == "all")
        s = self.iter_seq(g, env, line)
        j = ops.qvar("ja")
        t = ops.truthy(V(seq_get(s.t, j), s.s.elem))
        rng = z3.And(0 <= j, j < seq_len(s.t))
        return V(z3.ForAll([j], z3.Implies(rng, t)) if name == "all" else z3.Exists([j], z3.And(rng, t)), BOOL)
    if name in ("min", "max") and len(n.args) == 2:
        a, b = self.ev(n.args[0], env), self.ev(n.args[1], env)
        a, b = self.unify(a, b)
        return V(ite(a.t <= b.t, a.t, b.t) if name == "min" else ite(a.t >= b.t, a.t, b.t), a.s)
    if name == "sum" and len(n.args) == 1 and isinstance(n.args[0], ast.GeneratorExp) \
            and isinstance(n.args[0].elt, ast.Constant) and n.args[0].elt.value == 1:
        # sum(1 for x in S if c(x)): the number of elements satisfying c - a fresh integer with what a count satisfies without a
        # recursive definition: 0 <= n <= len(S), n == 0 iff none satisfies c, n == len(S) iff all do
        g = n.args[0]
        if len(g.generators) != 1:
            raise E.Unsupported("nested generator in sum()")
        gen = g.generators[0]
        S = self.iter_seq(gen.iter, env, line)
        j = ops.qvar("jq")
        sub = E.Env(dict(env.locals), env.heap, env.alloc, True, env.old, env.result, env.yielded, dict(env.binders))
        self.bind_target(gen.target, V(seq_get(S.t, j), S.s.elem), sub)
        with E.PureGuard(self):
            conds = [ops.truthy(self.ev(c, sub)) for c in gen.ifs]
        c = z3.And(*conds) if conds else z3.BoolVal(True)
        cnt = fresh("count", INT)
        rng = z3.And(0 <= j, j < seq_len(S.t))
        self.assume(0 <= cnt, cnt <= seq_len(S.t),
                    (cnt == 0) == z3.ForAll([j], z3.Implies(rng, z3.Not(c)), patterns=[seq_get(S.t, j)]),
                    (cnt == seq_len(S.t)) == z3.ForAll([j], z3.Implies(rng, c), patterns=[seq_get(S.t, j)]))
        return V(cnt, INT)
    if name == "next":
        s = self.iter_seq(n.args[0], env, line)
        self.guard(seq_len(s.t) > 0, "StopIteration", line)
        return V(seq_get(s.t, 0), s.s.elem)
    if name == "sorted":
        return self.sorted_call(n, env)
    if name == "print":
        fc = self.unit.env.get("print")
        if fc is None:
            raise E.Unsupported("print() without an environment contract in this unit")
        return self.library_call(fc, n, env)
    if name == "range":
        a = [self.ev(x, env) for x in n.args]
        lo, hi = (z3.IntVal(0), a[0].t) if len(a) == 1 else (a[0].t, a[1].t)
        if len(a) > 2:
            raise E.Unsupported("range with a step")
        v, ax = ops.seq_range(lo, hi)
        self.assume(*ax)
        return v
    if name == "dict":
        if not n.args:
            return V(None, MapS(NONE, NONE))
        return self.dict_from_pairs(n, env)
    if name == "divmod":
        a, b = self.ev(n.args[0], env), self.ev(n.args[1], env)
        q = self.binop(ast.FloorDiv(), a, b, n)
        r = V(a.t - q.t * b.t, INT)
        s = TupS(INT, INT)
        return V(tup_mk(s, q.t, r.t), s)
    if name == "abs":
        a = self.ev(n.args[0], env)
        return V(ite(a.t >= 0, a.t, -a.t), a.s)
    if name in ("int", "float", "str", "bool"):
        a = self.ev(n.args[0], env)
        if name == "int" and a.s == INT:
            return a
        if name == "float" and a.s in (INT, REAL):
            return ops.coerce(a, REAL)
        if name == "bool":
            return V(ops.truthy(a), BOOL)
        dotted = name
        if dotted in self.unit.env:
            return self.library_call(self.unit.env[dotted], n, env)
    raise E.Unsupported("builtin %s (line %d)" % (name, line))


def isinstance_of(self, v, tnames):
    E = _eng()
    s = v.s
    if isinstance(s, OptS):
        s = s.inner          # isinstance(None, T) is False for every T used here; callers test `is not None` first
        if not self.env.spec:
            if self.decide(opt_is_none(v.t)):
                return z3.BoolVal(False)
    if isinstance(s, UnionS):
        pysort = {"int": INT, "float": REAL, "str": STR, "bool": BOOL}
        alts = [pysort[t] for t in tnames if t in pysort and pysort[t] in s.alts]
        return z3.Or(*[union_is(v.t, s, a) for a in alts]) if alts else z3.BoolVal(False)
    res = []
    for t in tnames:
        if t == "int":
            res.append(s == INT)
        elif t == "float":
            res.append(s == REAL)
        elif t == "str":
            res.append(s == STR)
        elif t == "bool":
            res.append(s == BOOL)
        elif t in ("tuple",):
            res.append(isinstance(s, TupS))
        elif t in ("list",):
            res.append(isinstance(s, SeqS))
        elif t in ("dict", "Mapping"):
            res.append(isinstance(s, MapS))
        elif t in self.unit.classes and isinstance(s, RefS):
            res.append(t in self.eng.mro(s.cls))
        elif t == "slice":
            res.append(False)
        else:
            hook = self.unit.spec_funs.get("isinstance_" + t)
            if hook is not None:
                return hook.decl(v.t)
            raise E.Unsupported("isinstance(.., %s) on sort %r" % (t, s))
    return z3.BoolVal(any(res))


def quantified_gen(self, g, env, is_all):
    """all(P(x) for x in S) / any(...)"""
    E = _eng()
    if len(g.generators) != 1:
        raise E.Unsupported("nested generator in all/any")
    gen = g.generators[0]
    j = ops.qvar("jq")
    sub = E.Env(dict(env.locals), env.heap, env.alloc, True, env.old, env.result, env.yielded, dict(env.binders))
    it = gen.iter
    if isinstance(it, ast.Call) and isinstance(it.func, ast.Name) and it.func.id == "range" and "range" not in env.locals \
            and 1 <= len(it.args) <= 2 and not it.keywords and isinstance(gen.target, ast.Name):
        # all/any over range(lo, hi): quantify over the integer itself (no materialised range sequence in the formula)
        lo = self.ev(it.args[0], env).t if len(it.args) == 2 else z3.IntVal(0)
        hi = self.ev(it.args[-1], env).t
        self.bind_target(gen.target, V(j, INT), sub)
        sub.purecalls = True
        with E.PureGuard(self):
            conds = [ops.truthy(self.ev(c, sub)) for c in gen.ifs]
            body = ops.truthy(self.ev(g.elt, sub))
        rng = z3.And(lo <= j, j < hi, *conds)
        if is_all:
            return V(z3.ForAll([j], z3.Implies(rng, body)), BOOL)
        return V(z3.Exists([j], z3.And(rng, body)), BOOL)
    S = self.iter_seq(gen.iter, env, getattr(g, "lineno", 0))
    self.bind_target(gen.target, V(seq_get(S.t, j), S.s.elem), sub)
    sub.purecalls = True
    with E.PureGuard(self):
        conds = [ops.truthy(self.ev(c, sub)) for c in gen.ifs]
        body = ops.truthy(self.ev(g.elt, sub))
    rng = z3.And(0 <= j, j < seq_len(S.t), *conds)
    trig = [seq_get(S.t, j)]
    if is_all:
        return V(z3.ForAll([j], z3.Implies(rng, body), patterns=trig), BOOL)
    return V(z3.Exists([j], z3.And(rng, body)), BOOL)


# ------------------------------------------------------------------------------------------------
#  list / dict methods (value semantics with write-back to the receiver location)
# ------------------------------------------------------------------------------------------------
def seq_method(self, recv, f, n, env):
    E = _eng()
    line = getattr(n, "lineno", 0)
    m = f.attr
    args = [self.ev(a, env) for a in n.args]
    if recv.t is None:
        # empty display whose element sort is not yet known: fixed by the first element
        if m == "append":
            recv = ops.seq_empty(SeqS(args[0].s))
        else:
            raise E.Unsupported("method %s on an untyped empty list" % m)
    es = recv.s.elem
    ln = seq_len(recv.t)
    if m == "append":
        self.assign(f.value, ops.seq_append(recv, ops.coerce(self.fix_empty(args[0], es), es)))
        return E.none_v()
    if m == "insert":
        i = args[0].t
        ie = ops.clamp_index(i, ln)
        v, ax = ops.seq_insert(recv, z3.simplify(ie), ops.coerce(args[1], es))
        self.assume(*ax)
        self.assign(f.value, v)
        return E.none_v()
    if m == "pop":
        self.guard(ln > 0, "IndexError", line)
        if args:
            i = args[0].t
            ie = ite(i < 0, i + ln, i)
            self.guard(z3.And(0 <= ie, ie < ln), "IndexError", line)
        else:
            ie = ln - 1
        r = V(seq_get(recv.t, ie), es)
        v, ax = ops.seq_delete(recv, ie)
        self.assume(*ax)
        self.assign(f.value, v)
        return r
    if m == "extend":
        other = self.as_iter_seq(args[0], line)
        if other.s != recv.s:
            other = ops.coerce(other, recv.s)
            self.assume()
        v, ax = ops.seq_concat(recv, other)
        self.assume(*ax)
        self.assign(f.value, v)
        return E.none_v()
    if m == "remove":
        x = ops.coerce(args[0], es)
        present = ops.seq_contains(recv, x)
        self.guard(present, "ValueError", line)
        p = fresh("rm_at", INT)
        j = ops.qvar("jrm")
        self.assume(0 <= p, p < ln, ops.py_eq(V(seq_get(recv.t, p), es), x),
                    z3.ForAll([j], z3.Implies(z3.And(0 <= j, j < p), z3.Not(ops.py_eq(V(seq_get(recv.t, j), es), x)))))
        v, ax = ops.seq_delete(recv, p)
        self.assume(*ax)
        self.assign(f.value, v)
        self.last_removed_at = p
        self.env.locals["_removed_at"] = V(p, INT)      # position of the removed element, for ghost code / use-clauses
        return E.none_v()
    if m == "clear":
        self.assign(f.value, ops.seq_empty(recv.s))
        return E.none_v()
    if m == "copy":
        return recv
    if m == "index":
        x = ops.coerce(args[0], es)
        self.guard(ops.seq_contains(recv, x), "ValueError", line)
        p = fresh("idx", INT)
        j = ops.qvar("jix")
        self.assume(0 <= p, p < ln, ops.py_eq(V(seq_get(recv.t, p), es), x),
                    z3.ForAll([j], z3.Implies(z3.And(0 <= j, j < p), z3.Not(ops.py_eq(V(seq_get(recv.t, j), es), x)))))
        return V(p, INT)
    if m == "reverse":
        v, ax = ops.seq_reverse(recv)
        self.assume(*ax)
        self.assign(f.value, v)
        return E.none_v()
    raise E.Unsupported("list method %s (line %d)" % (m, line))


def map_method(self, recv, f, n, env):
    E = _eng()
    line = getattr(n, "lineno", 0)
    m = f.attr
    args = [self.ev(a, env) for a in n.args]
    if recv.t is None:
        raise E.Unsupported("method on an untyped empty dict")
    if m == "keys":
        return self.map_keys_seq(recv)
    if m in ("values", "items"):
        ks = self.map_keys_seq(recv)
        es = recv.s.v if m == "values" else TupS(recv.s.k, recv.s.v)
        so = SeqS(es)
        r = fresh(m, so)
        j = ops.qvar("jv")
        val = z3.Select(map_val(recv.t), seq_get(ks.t, j))
        el = val if m == "values" else tup_mk(es, seq_get(ks.t, j), val)
        self.assume(seq_len(r) == seq_len(ks.t), z3.ForAll([j], seq_get(r, j) == el, patterns=[seq_get(r, j)]))
        self.last_keys_seq = ks
        return V(r, so)
    if m == "get":
        k = ops.coerce(args[0], recv.s.k)
        self.assume(*ops.map_facts(recv, k))
        if self.decide(z3.Select(map_dom(recv.t), k.t)):
            return V(z3.Select(map_val(recv.t), k.t), recv.s.v)
        return args[1] if len(args) > 1 else E.none_v()
    if m == "pop":
        k = ops.coerce(args[0], recv.s.k)
        self.assume(*ops.map_facts(recv, k))
        if self.decide(z3.Select(map_dom(recv.t), k.t)):
            r = V(z3.Select(map_val(recv.t), k.t), recv.s.v)
            self.assign(f.value, ops.map_del(recv, k))
            return r
        if len(args) > 1:
            return args[1]
        raise E.PyExc("KeyError", line)
    if m == "clear":
        self.assign(f.value, ops.map_empty(recv.s))
        return E.none_v()
    raise E.Unsupported("dict method %s (line %d)" % (m, line))


# ------------------------------------------------------------------------------------------------
#  spec-mode calls: the contract vocabulary
# ------------------------------------------------------------------------------------------------
def spec_call(self, n, env):
    E = _eng()
    f = n.func
    if isinstance(f, ast.Attribute):
        # method-style helpers on sequences in contracts: s.count(x) is not supported; use macros
        recv = self.ev(f.value, env)
        if isinstance(recv.s, RefS):
            fc = self.eng.find_contract(recv.s.cls, f.attr)
            if fc is not None:
                return self.spec_call_pure(fc, recv, [self.ev(a, env) for a in n.args], env)
            d = self.eng.field_decl(recv.s.cls, f.attr)
            if d is not None and isinstance(d[1], RefS):
                # a field holding a callable object with a pure __call__ contract: obj.field(args)
                cfc = self.eng.find_contract(d[1].cls, "__call__")
                if cfc is not None:
                    return self.spec_call_pure(cfc, self.hread(env, recv, f.attr), [self.ev(a, env) for a in n.args], env)
        raise E.StaleContract("unsupported call in contract expression: .%s" % f.attr)
    if not isinstance(f, ast.Name):
        raise E.StaleContract("unsupported call in contract expression")
    name = f.id
    A = n.args
    if name == "old":
        if env.old is None:
            raise E.StaleContract("old() used where there is no pre-state")
        o = env.old
        sub = E.Env(dict(o.locals), o.heap, o.alloc, True, o, env.result, None, dict(env.binders))
        # `result`, ghost locals and binders stay visible inside old() (they are values, not state)
        for k, v in env.locals.items():
            sub.locals.setdefault(k, v)       # locals that did not exist at entry (witnesses, later locals) are plain values: visible
        return self.ev(A[0], sub)
    if name in ("forall", "exists"):
        return self.quantifier(n, env, name == "forall")
    if name == "implies":
        a, b = ops.truthy(self.ev(A[0], env)), ops.truthy(self.ev(A[1], env))
        return V(z3.Implies(a, b), BOOL)
    if name == "iff":
        a, b = ops.truthy(self.ev(A[0], env)), ops.truthy(self.ev(A[1], env))
        return V(a == b, BOOL)
    if name == "ite":
        c = ops.truthy(self.ev(A[0], env))
        a, b = self.unify(self.ev(A[1], env), self.ev(A[2], env))
        return V(ite(c, a.t, b.t), a.s)
    if name == "len":
        v = self.ev(A[0], env)
        if isinstance(v.s, SeqS):
            return V(seq_len(v.t), INT)
        if isinstance(v.s, MapS):
            return V(map_size(v.t), INT)
        if isinstance(v.s, TupS):
            return V(z3.IntVal(len(v.s.elems)), INT)
        raise E.StaleContract("len() of sort %r in a contract" % v.s)
    if name in ("min", "max"):
        a, b = self.unify(self.ev(A[0], env), self.ev(A[1], env))
        return V(ite(a.t <= b.t, a.t, b.t) if name == "min" else ite(a.t >= b.t, a.t, b.t), a.s)
    if name == "alive":
        r = self.ev(A[0], env)
        return V(z3.Select(env.alloc, r.t), BOOL)
    if name == "fresh":
        r = self.ev(A[0], env)
        return V(z3.And(z3.Select(env.alloc, r.t), z3.Not(z3.Select(env.old.alloc, r.t))), BOOL)
    if name == "unchanged":
        a = self.ev(A[0], env)
        o = env.old
        b = self.ev(A[0], E.Env(dict(o.locals), o.heap, o.alloc, True, o, None, None, dict(env.binders)))
        return V(ops.py_eq(a, b), BOOL)
    if name == "same":          # structural (representation) equality, cheaper than extensional ==
        a, b = self.unify(self.ev(A[0], env), self.ev(A[1], env))
        return V(a.t == b.t, BOOL)
    if name == "insert_at":
        s, i, x = self.ev(A[0], env), self.ev(A[1], env), self.ev(A[2], env)
        v, ax = ops.seq_insert(s, i.t, ops.coerce(x, s.s.elem))
        self.assume(*ax)
        return v
    if name == "remove_at":
        s, i = self.ev(A[0], env), self.ev(A[1], env)
        v, ax = ops.seq_delete(s, i.t)
        self.assume(*ax)
        return v
    if name == "set_at":
        s, i, x = self.ev(A[0], env), self.ev(A[1], env), self.ev(A[2], env)
        return ops.seq_store(s, i.t, ops.coerce(x, s.s.elem))
    if name == "append":
        s, x = self.ev(A[0], env), self.ev(A[1], env)
        return ops.seq_append(s, ops.coerce(x, s.s.elem))
    if name == "empty_like":
        s = self.ev(A[0], env)
        return ops.seq_empty(s.s) if isinstance(s.s, SeqS) else ops.map_empty(s.s)
    if name == "mset":
        m, k, v = self.ev(A[0], env), self.ev(A[1], env), self.ev(A[2], env)
        return ops.map_set(m, ops.coerce(k, m.s.k), ops.coerce(v, m.s.v))
    if name == "mdel":
        m, k = self.ev(A[0], env), self.ev(A[1], env)
        return ops.map_del(m, ops.coerce(k, m.s.k))
    if name == "aset":
        a, k, v = self.ev(A[0], env), self.ev(A[1], env), self.ev(A[2], env)
        return V(z3.Store(a.t, ops.coerce(k, a.s.k).t, ops.coerce(v, a.s.v).t), a.s)
    if name == "lam":
        # lam(x, body): the total function x -> body (fresh array + definitional axiom); sort of x from U.var()
        vname = A[0].id
        ks = self.unit.var_sorts.get(vname, INT)
        ops._qcnt[0] += 1
        bv = z3.Const("%s!l%d" % (vname, ops._qcnt[0]), z(ks))
        sub = E.Env(env.locals, env.heap, env.alloc, True, env.old, env.result, env.yielded, dict(env.binders))
        sub.binders[vname] = V(bv, ks)
        body = self.ev(A[1], sub)
        arr = z3.Const("lam!%d" % ops._qcnt[0], z3.ArraySort(z(ks), z(body.s)))
        self.assume(z3.ForAll([bv], z3.Select(arr, bv) == body.t, patterns=[z3.Select(arr, bv)]))
        return V(arr, ArrS(ks, body.s))
    if name == "mkseq":
        # mkseq(i, n, expr): the sequence of length n whose i-th element is expr (fresh constant + definitional axiom)
        vname = A[0].id
        ops._qcnt[0] += 1
        bv = z3.Int("%s!m%d" % (vname, ops._qcnt[0]))
        nlen = self.ev(A[1], env)
        sub = E.Env(env.locals, env.heap, env.alloc, True, env.old, env.result, env.yielded, dict(env.binders))
        sub.binders[vname] = V(bv, INT)
        body = self.ev(A[2], sub)
        so = SeqS(body.s)
        r = fresh("mkseq", so)
        self.assume(seq_len(r) == ite(nlen.t > 0, nlen.t, z3.IntVal(0)),
                    ops.forall([bv], seq_get(r, bv) == body.t, patterns=[seq_get(r, bv)]))
        return V(r, so)
    if name in ("is_int", "is_str"):
        v = self.ev(A[0], env)
        return V(union_is(v.t, v.s, INT if name == "is_int" else STR), BOOL)
    if name in ("as_int", "as_str"):
        v = self.ev(A[0], env)
        alt = INT if name == "as_int" else STR
        return V(union_get(v.t, v.s, alt), alt)
    if name in ("lemma_inst", "unfold"):
        which = A[0].value
        vals = [self.ev(a, env) for a in A[1:]]
        if name == "unfold":
            if which not in self.unit.rec_defs:
                raise E.StaleContract("unfold: no recursive definition %s" % which)
            params, expr = self.unit.rec_defs[which]
            binders = {k_: v_ for k_, v_ in env.binders.items() if k_ not in params}
            sub = E.Env(dict(zip(params, vals)), env.heap, env.alloc, True, None, None, None, binders)
            return self.ev_spec(expr, sub)
        lem = next((l_ for l_ in self.unit.lemmas if l_["name"] == which), None)
        if lem is None:
            raise E.StaleContract("lemma_inst: no lemma %s" % which)
        if self.fc.qualname.startswith("lemma:"):
            order = [l_["name"] for l_ in self.unit.lemmas]
            if order.index(which) >= order.index(self.fc.qualname[len("lemma:"):]):
                raise E.StaleContract("lemma %s may only use lemmas declared before it (no circular proofs)" % self.fc.qualname)
        names = list(lem["params"])
        if len(vals) != len(names):
            raise E.StaleContract("lemma_inst(%s): expected %d arguments" % (which, len(names)))
        vals = [ops.coerce(v_, lem["params"][p_]) for p_, v_ in zip(names, vals)]
        binders = {k_: v_ for k_, v_ in env.binders.items() if k_ not in names}
        sub = E.Env(dict(zip(names, vals)), env.heap, env.alloc, True, None, None, None, binders)
        req = [self.ev_spec(r_, sub).t for r_ in lem["requires"]]
        ens = [self.ev_spec(e_, sub).t for e_ in lem["ensures"]]
        return V(z3.Implies(z3.And(*req) if req else z3.BoolVal(True), z3.And(*ens)), BOOL)
    if name == "is_none":
        return V(ops.is_none(self.ev(A[0], env)), BOOL)
    if name == "some":          # value inside an Opt
        v = self.ev(A[0], env)
        return V(opt_val(v.t), v.s.inner)
    if name == "to_real":
        return ops.coerce(self.ev(A[0], env), REAL)
    if name == "tup":
        vs = [self.ev(a, env) for a in A]
        s = TupS(*[v.s for v in vs])
        return V(tup_mk(s, *[v.t for v in vs]), s)
    if name == "cb":            # application of a callback parameter: cb(f, x)
        fv = self.ev(A[0], env)
        return self.call_uninterpreted(fv, getattr(A[0], "id", "f"), [self.ev(a, env) for a in A[1:]], 0)
    if name in self.unit.macros:
        return self.apply_macro(name, [self.ev(a, env) for a in A], env)
    if name in self.unit.spec_funs:
        sf = self.unit.spec_funs[name]
        self.require_axioms(name)
        vs = [ops.coerce(self.ev(a, env), s) for a, s in zip(A, sf.args)]
        return V(sf.decl(*[v.t for v in vs]), sf.res)
    if name in env.locals and isinstance(env.locals[name].s, FunS):
        return self.call_uninterpreted(env.locals[name], name, [self.ev(a, env) for a in A], 0)
    if name in env.locals and env.locals[name].s == ANY and self.unit.apply_fun:
        sf = self.unit.spec_funs[self.unit.apply_fun]
        args_ = [ops.coerce(self.ev(a, env), srt) for a, srt in zip(A, sf.args[1:])]
        return V(sf.decl(env.locals[name].t, *[a.t for a in args_]), sf.res)
    if name in env.locals and isinstance(env.locals[name].s, RefS):
        fc = self.eng.find_contract(env.locals[name].s.cls, "__call__")
        if fc is not None:
            return self.spec_call_pure(fc, env.locals[name], [self.ev(a, env) for a in A], env)
    raise E.StaleContract("unknown function %s in a contract expression" % name)


def apply_macro(self, name, args, env):
    E = _eng()
    params, expr = self.unit.macros[name]
    if len(params) != len(args):
        raise E.StaleContract("macro %s expects %d arguments" % (name, len(params)))
    binders = {k: v for k, v in env.binders.items() if k not in params}      # parameters shadow outer bound variables
    sub = E.Env(dict(zip(params, args)), env.heap, env.alloc, True, None, env.result, env.yielded, binders)
    if env.old is not None:
        o = env.old
        sub.old = E.Env(dict(zip(params, args)), o.heap, o.alloc, True, None, None, None, dict(binders))
        sub.old.old = sub.old
    node = ast.parse(expr.strip(), mode="eval").body
    saved_cb = getattr(self, "collect_bounds", None)
    self.collect_bounds = None          # contract text: subscripts are specification-level (total), not code
    try:
        return self.ev(node, sub)
    finally:
        self.collect_bounds = saved_cb


def quantifier(self, n, env, is_forall):
    """forall(i, lo, hi, body [, trigger=expr])  bounded over Int;   forall(k, body) over the declared sort of k"""
    E = _eng()
    A = n.args
    if not isinstance(A[0], ast.Name):
        raise E.StaleContract("quantifier: first argument must be the bound variable")
    vname = A[0].id
    kw = {k.arg: k.value for k in n.keywords}
    ops._qcnt[0] += 1
    if len(A) == 4:
        bv = z3.Int("%s!b%d" % (vname, ops._qcnt[0]))
        sub = E.Env(env.locals, env.heap, env.alloc, True, env.old, env.result, env.yielded, dict(env.binders))
        sub.binders[vname] = V(bv, INT)
        lo, hi = self.ev(A[1], env), self.ev(A[2], env)
        body = ops.truthy(self.ev(A[3], sub))
        rng = z3.And(lo.t <= bv, bv < hi.t)
    elif len(A) == 2:
        s = self.unit.var_sorts.get(vname, INT)
        bv = z3.Const("%s!b%d" % (vname, ops._qcnt[0]), z(s))
        sub = E.Env(env.locals, env.heap, env.alloc, True, env.old, env.result, env.yielded, dict(env.binders))
        sub.binders[vname] = V(bv, s)
        body = ops.truthy(self.ev(A[1], sub))
        rng = None
    else:
        raise E.StaleContract("quantifier: expected (var, lo, hi, body) or (var, body)")
    pats = []
    for kwname in ("trigger", "alt_trigger", "alt_trigger2"):      # alternatives: any one of them instantiates the quantifier
        if kwname in kw:
            tn = kw[kwname]
            tlist = tn.elts if isinstance(tn, (ast.Tuple, ast.List)) else [tn]
            terms = [self.ev(t, sub).t for t in tlist]
            pats.append(z3.MultiPattern(*terms) if len(terms) > 1 else terms[0])
    if is_forall:
        b = z3.Implies(rng, body) if rng is not None else body
        return V(ops.forall([bv], b, patterns=pats), BOOL)
    b = z3.And(rng, body) if rng is not None else body
    return V(z3.Exists([bv], b), BOOL)


def spec_call_pure(self, fc, recv, args, env):
    """use of a pure method inside a contract: unfolds `ensures result == <expr>` definitions"""
    E = _eng()
    defs = [e for e, l in fc.ensures_l if e.replace(" ", "").startswith("result==")]
    sames = [e for e, l in fc.ensures_l if e.replace(" ", "").startswith("same(result,") and e.strip().endswith(")")]
    if not (defs or sames) or fc.modifies_l:
        raise E.StaleContract("%s is not usable in a contract (needs a single `result == ...` definition and no modifies)" % fc.qualname)
    expr = defs[0].split("==", 1)[1] if defs else sames[0].strip()[:-1].split(",", 1)[1]
    names = [p for p in fc.params]
    args = [ops.coerce(self.fix_empty(a, fc.params[p]), fc.params[p]) if not isinstance(fc.params[p], FunS) else a for p, a in zip(names, args)]
    loc = dict(zip(names, args))
    loc["self"] = recv
    sub = E.Env(loc, env.heap, env.alloc, True, None, None, None, dict(env.binders))
    node = ast.parse(expr.strip(), mode="eval").body
    saved_cb = getattr(self, "collect_bounds", None)
    self.collect_bounds = None
    try:
        v = self.ev(node, sub)
    finally:
        self.collect_bounds = saved_cb
    return ops.coerce(v, fc.returns) if fc.returns not in (None, NONE) else v


def lambda_apply(self, lam, args, env):
    """pure application of a lambda (used for key=)"""
    E = _eng()
    if not isinstance(lam, ast.Lambda):
        raise E.Unsupported("key= must be a lambda")
    names = [a.arg for a in lam.args.args]
    sub = E.Env(dict(env.locals), env.heap, env.alloc, True, env.old, env.result, env.yielded, dict(env.binders))
    for nm, a in zip(names, args):
        sub.locals[nm] = a
    with E.PureGuard(self):
        return self.ev(lam.body, sub)


def sorted_call(self, n, env):
    """sorted(iterable, key=lambda, reverse=b): trusted library contract (DESIGN section 4): a STABLE permutation, ascending in key
    (descending and stable among equals for reverse=True); delivered in the global form + inverse permutation."""
    E = _eng()
    kw = {k.arg: k.value for k in n.keywords}
    S = self.iter_seq(n.args[0], env, getattr(n, "lineno", 0))
    es = S.s.elem
    R = fresh("sorted", S.s)
    E.Path._hc[0] += 1
    perm = z3.Function("perm!%d" % E.Path._hc[0], z3.IntSort(), z3.IntSort())
    inv = z3.Function("pinv!%d" % E.Path._hc[0], z3.IntSort(), z3.IntSort())
    i, j = ops.qvar("si"), ops.qvar("sj")
    nlen = seq_len(S.t)

    def key_of(term):
        v = V(term, es)
        if "key" in kw and not (isinstance(kw["key"], ast.Constant) and kw["key"].value is None):
            return self.lambda_apply(kw["key"], [v], env)
        return v
    ki, kj = key_of(seq_get(R, i)), key_of(seq_get(R, j))
    if ki.s not in (INT, REAL):
        raise E.Unsupported("sorted(): keys of sort %r" % ki.s)
    rev = z3.BoolVal(False)
    if "reverse" in kw:
        rev = ops.truthy(self.ev(kw["reverse"], env))
    order = ite(rev, ki.t >= kj.t, ki.t <= kj.t)
    self.assume(seq_len(R) == nlen,
                z3.ForAll([i], z3.Implies(z3.And(0 <= i, i < nlen),
                                          z3.And(0 <= perm(i), perm(i) < nlen, inv(perm(i)) == i, seq_get(R, i) == seq_get(S.t, perm(i)))),
                          patterns=[seq_get(R, i)]),
                # (no second copy triggered by perm(i): together with the inverse axiom below it forms a matching loop
                #  perm(i) -> inv(perm(i)) -> perm(inv(perm(i))) -> ... that made discharge times erratic)
                z3.ForAll([j], z3.Implies(z3.And(0 <= j, j < nlen), z3.And(0 <= inv(j), inv(j) < nlen, perm(inv(j)) == j)),
                          patterns=[inv(j)]),
                z3.ForAll([i, j], z3.Implies(z3.And(0 <= i, i < j, j < nlen),
                                             z3.And(order, z3.Implies(ki.t == kj.t, perm(i) < perm(j)))),
                          patterns=[z3.MultiPattern(seq_get(R, i), seq_get(R, j))]))
    self.last_sorted = (perm, inv, S, V(R, S.s))
    env.locals["g_perm"] = V(None, FunS([INT], INT, name="perm!%d" % E.Path._hc[0]))
    env.locals["g_pinv"] = V(None, FunS([INT], INT, name="pinv!%d" % E.Path._hc[0]))
    env.locals["g_sorted_in"] = S
    env.locals["g_sorted"] = V(R, S.s)          # the sorted sequence itself (contracts may name it in exit hints)
    return V(R, S.s)


def dict_from_pairs(self, n, env):
    """dict(pairs) / dict(mapping): trusted builtin - the finite map in which, for every key, the LAST pair with that key wins"""
    E = _eng()
    src = self.ev(n.args[0], env)
    if isinstance(src.s, MapS):
        return src
    S = self.as_iter_seq(src, getattr(n, "lineno", 0))
    if not (isinstance(S.s.elem, TupS) and len(S.s.elem.elems) == 2):
        raise E.Unsupported("dict() of a sequence of %r" % S.s.elem)
    ks, vs = S.s.elem.elems
    ms = MapS(ks, vs)
    m = fresh("dict", ms)
    E.Path._hc[0] += 1
    last = z3.Function("dlast!%d" % E.Path._hc[0], z(ks), z3.IntSort())
    j = ops.qvar("jd")
    kx = z3.Const("k!d%d" % E.Path._hc[0], z(ks))
    nlen = seq_len(S.t)
    key_at = lambda i: tup_get(seq_get(S.t, i), 0)
    val_at = lambda i: tup_get(seq_get(S.t, i), 1)
    self.assume(map_size(m) >= 0, map_size(m) <= nlen, (map_size(m) == 0) == (nlen == 0),
                z3.ForAll([j], z3.Implies(z3.And(0 <= j, j < nlen),
                                          z3.And(z3.Select(map_dom(m), key_at(j)), j <= last(key_at(j)))), patterns=[seq_get(S.t, j)]),
                z3.ForAll([kx], z3.Implies(z3.Select(map_dom(m), kx),
                                           z3.And(0 <= last(kx), last(kx) < nlen, key_at(last(kx)) == kx,
                                                  z3.Select(map_val(m), kx) == val_at(last(kx)))), patterns=[last(kx)]),
                z3.ForAll([kx], z3.Implies(z3.Select(map_dom(m), kx),
                                           z3.And(0 <= last(kx), last(kx) < nlen, key_at(last(kx)) == kx,
                                                  z3.Select(map_val(m), kx) == val_at(last(kx)))), patterns=[z3.Select(map_dom(m), kx)]))
    env.locals["g_dlast"] = V(None, FunS([ks], INT, name="dlast!%d" % E.Path._hc[0]))
    return V(m, ms)
