#!/opt/veriftools/pyvenv/bin/python
"""Regenerates MANIFEST.json from contracts/registry.py (claimed properties) and the NOT_APPLICABLE table below."""
import json, os, sys
HERE = os.path.dirname(os.path.abspath(__file__))
sys.path.insert(0, HERE)
from contracts import registry

ALL = ["C%02d" % i for i in range(1, 21)]
NOT_YET = "deductive obligations for this property are not built yet in this revision (DESIGN.md §9 build order); not claimed rather than decided by another technique"


def main():
    checks = []
    for pid in ALL:
        cfg = registry.PROPS.get(pid)
        if not cfg:
            continue
        checks.append({
            "property_id": pid,
            "quick_cmd": "./check %s --tier quick" % pid,
            "thorough_cmd": "./check %s --tier thorough" % pid,
            "evidence_file": "evidence/%s.json" % pid,
            "replay_cmd_template": "./check --replay {path}",
            "engine": "pyvc",
            "level_claimed": {"category": cfg.get("level", "proof"), "text": cfg["level_text"], "design_ref": cfg.get("design_ref", "DESIGN.md §6 " + pid)},
            "level_note": cfg["level_note"],
            "technique": cfg.get("technique", "contract-based deductive verification: VCs generated from the real function bodies (ast) against sidecar contracts, discharged by z3/cvc5; bounded run-time stand-in for replay"),
        })
    na = []
    for pid in ALL:
        if pid not in registry.PROPS:
            na.append({"property_id": pid, "reason": registry.NOT_APPLICABLE.get(pid, NOT_YET)})
    man = {
        "version": 1,
        "setup_cmd": "./setup.sh",
        "hooks": {"guard": "WINDPYUTILS_VERIF", "enable": "none needed: no hook or instrumentation was added to /repo; contracts live in /verif/contracts and the real source is re-read on every run",
                  "baseline_off_cmd": "cd /repo && /venv/bin/python -m pytest -ra -q -p no:cacheprovider --timeout=900 --continue-on-collection-errors",
                  "source_commits": [], "add_only": True},
        "engines": [{"name": "pyvc", "path": "pyvc/", "serves_properties": [c["property_id"] for c in checks],
                     "kind_free_text": "own deductive verifier for a Python subset: symbolic execution of the real ast per path, loops cut by sidecar invariants, calls by callee contract, obligations discharged by z3 (cvc5 for z3's unknowns)"},
                    {"name": "bounded", "path": "bounded/", "serves_properties": [c["property_id"] for c in checks],
                     "kind_free_text": "bounded stand-in and replay search on the real code (small-history / small-input enumeration against reference models); never counted as proved"}],
        "checks": checks,
        "not_applicable": na,
        "notes": "Exit codes of ./check: 0 held, 1 VIOLATION, 2 undecided (solver unknown / unsupported construct / stale contract), 3 checker error. An obligation that was discharged on the reference tree (baseline/<ID>.json, recorded by `./check <ID> --update-baseline` on the unchanged /repo) and is not discharged in a function whose source changed is reported as VIOLATION ... no-failing-input-found (DESIGN.md §10.2); the same obligation open in an unchanged function is solver instability and stays undecided. Genuine defects found on the pinned tree were repaired by `fix:` commits in /repo and are listed as fixed in KNOWN_FINDINGS.jsonl (F1-F13); there is no unrepaired known finding.",
    }
    json.dump(man, open(os.path.join(HERE, "MANIFEST.json"), "w"), indent=1)
    import jsonschema
    jsonschema.validate(man, json.load(open("/root/.vp/MANIFEST.schema.json")))
    print("MANIFEST.json written: %d checks, %d not_applicable" % (len(checks), len(na)))


if __name__ == "__main__":
    main()
