#!/bin/bash
# usage: tools_seed_file.sh <ID> [worktree]   - renumbers the agent's out/mutant_k.* after the seeds already filed for <ID>, then confirms
# and files them (tools_seed_confirm.py)
cd "$(dirname "$0")"
id=$1; wt=${2:-/tmp/seedx/$id}
last=$(ls -d seeded/$id-* 2>/dev/null | sed "s/.*-//" | sort -n | tail -1); last=${last:-0}
cd $wt/out || exit 1
ks=$(ls mutant_*.diff 2>/dev/null | sed 's/mutant_\(.*\)\.diff/\1/' | sort -n)
n=$last
for k in $ks; do n=$((n+1)); for f in mutant_$k.diff demo_$k.py meta_$k.json; do [ -f $f ] && mv $f new_${f/_$k./_$n.}; done; done
for f in new_*; do [ -f $f ] && mv $f ${f#new_}; done
cd - >/dev/null
./tools_seed_confirm.py $id $wt
