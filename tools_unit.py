#!/opt/veriftools/pyvenv/bin/python
"""developer helper: verify ONE contract unit and list what is not discharged.
usage: tools_unit.py contracts.c19_generic:unit_compare [--t ms] [--only substring]"""
import os, sys, time
if os.environ.get("PYTHONHASHSEED") != "0":
    os.environ["PYTHONHASHSEED"] = "0"
    os.execv(sys.executable, [sys.executable] + sys.argv)
HERE = os.path.dirname(os.path.abspath(__file__))
sys.path.insert(0, HERE); os.chdir(HERE)
os.environ.setdefault("PYVC_REPO", "/repo")
import importlib
from pyvc import solve
name = sys.argv[1]
t = int(sys.argv[sys.argv.index("--t") + 1]) if "--t" in sys.argv else 10000
modname, _, fn = name.partition(":")
loader = getattr(importlib.import_module(modname), fn or "unit")
t0 = time.time()
bad = 0
for r in solve.verify_unit(loader, timeout_ms=t, jobs=14):
    obs = r["obligations"]
    nd = [o for o in obs if o["result"] != "discharged"]
    print("%-50s %-8s %3d obligations, %d not discharged  %s" % (r["target"], r["status"], len(obs), len(nd),
          (r["detail"] or "").splitlines()[0] if r["status"] != "ok" and r["detail"] else ""))
    if r["status"] == "crash":
        print(r["detail"])
    for o in nd:
        bad += 1
        print("    %s: %s %s" % (o["name"], o["result"], (o.get("detail") or "")[:200]))
        if "--model" in sys.argv and o.get("model"):
            print("       model:", str(o["model"])[:3000])
print("%.1fs, %d not discharged" % (time.time() - t0, bad))
