#!/bin/bash
# runs every claimed check (quick tier by default) against /repo and reports exit codes; evidence files are rewritten
cd "$(dirname "$0")"
tier=${1:-quick}
for p in $(python3 -c "import json;print(' '.join(c['property_id'] for c in json.load(open('MANIFEST.json'))['checks']))"); do
  start=$(date +%s); out=$(./check $p --tier $tier 2>&1); rc=$?; end=$(date +%s)
  echo "$p exit=$rc $((end-start))s  $(echo "$out" | head -1 | cut -c1-150)"
  echo "$out" | grep -E "^(VIOLATION|UNDECIDED|KNOWN-FINDING|CHECKER-ERROR)" | cut -c1-220
done
