#!/bin/bash
# usage: tools_seedtest.sh <PID> <worktree> <diff> [check args]   -- applies a seeded change in a scratch worktree and runs the check on it
PID=$1; WT=$2; DIFF=$3; shift 3
git -C $WT checkout -q -- . && git -C $WT apply $DIFF || { echo "APPLY-FAILED $DIFF"; exit 9; }
cd /verif && PYVC_REPO=$WT ./check $PID "$@" 2>&1 | grep -v "^   " | cut -c1-260
rc=${PIPESTATUS[0]}
git -C $WT checkout -q -- .
echo "check exit=$rc"
