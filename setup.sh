#!/bin/bash
# Offline setup: nothing to build. The prover runs under the pre-installed tooling venv (python3-vt: z3-solver, cvc5),
# the real code under /venv/bin/python. This script only checks that both are present and that the engine imports.
set -e
cd "$(dirname "$0")"
/opt/veriftools/pyvenv/bin/python -c "import z3, sys; sys.path.insert(0, '.'); import pyvc.engine, pyvc.solve; print('pyvc ok, z3', z3.get_version_string())"
/venv/bin/python -c "import sys; print('runtime python', sys.version.split()[0])"
mkdir -p evidence replays
