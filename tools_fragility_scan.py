"""usage: python3-vt tools_fragility_scan.py [IDs]
fragility scan: every obligation of every unit of the given properties is tried with several seeds (full hypotheses, short timeout);
reports the ones that most seeds cannot prove - candidates for flaky verdicts on another machine"""
import sys, os, time, json, importlib
os.environ.setdefault("PYTHONHASHSEED", "0")
sys.path.insert(0, "/verif")
import multiprocessing as mp
import z3
from pyvc import solve, engine as E, frontend
from contracts import registry
SEEDS = [1, 2, 3, 4, 5]
OBS = []
def work(i):
    ob = OBS[i]
    okc = 0; times = []
    for sd in SEEDS:
        s = z3.Solver(); s.set("timeout", 3000); s.set("random_seed", sd)
        s.add(*ob.hyps); s.add(*E.strlit_axioms()); s.add(z3.Not(ob.goal))
        t0 = time.time(); r = s.check(); times.append(round(time.time() - t0, 2))
        okc += (r == z3.unsat)
    return i, okc, times
def main():
    global OBS
    props = sys.argv[1:] or sorted(registry.PROPS)
    seen_units = set(); rows = []
    for pid in props:
        for un in registry.PROPS[pid]["units"]:
            if un in seen_units: continue
            seen_units.add(un)
            modname, _, fn = un.partition(":")
            unit = getattr(importlib.import_module(modname), fn or "unit")()
            frontend.clear_cache()
            OBS = []
            for t in unit.targets:
                res, obs = solve.generate_target(unit, t[0], t[1], t[2] if len(t) > 2 else None, t[3] if len(t) > 3 else None)
                OBS.extend(o for o in obs if o.result is None and o.kind not in ("vacuity", "vacuity-exit"))
            ctx = mp.get_context("fork")
            with ctx.Pool(14) as pool:
                for i, okc, times in pool.imap_unordered(work, range(len(OBS)), chunksize=4):
                    if okc < len(SEEDS):
                        rows.append((okc, un, OBS[i].name, times))
            print(un, len(OBS), "obligations scanned", flush=True)
    rows.sort()
    print("\nFRAGILE (proved by k of %d seeds within 3 s):" % len(SEEDS))
    for okc, un, name, times in rows:
        print(okc, un.replace("contracts.", ""), name[:110], times)
main()
