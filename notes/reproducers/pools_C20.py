import sys, os, tempfile, shutil
sys.path.insert(0, "/repo")
from windpyutils.files import TmpPool, FilePool
def t(f):
    try: return f()
    except BaseException as e: return f"EXC {type(e).__name__}: {e}"
d = tempfile.mkdtemp()
try:
    with TmpPool(d) as p:
        a=p.create(); b=p.create(); c=p.create()
        p.remove(b); print(len(p), sorted(os.listdir(d))==sorted(os.path.basename(x) for x in [a,c]))
        os.remove(a); print("remove externally deleted:", t(lambda: p.remove(a)), len(p))
        p.flush(); print("after flush", len(p), os.listdir(d)); e=p.create(); print(len(p), os.listdir(d)==[os.path.basename(e)])
        print("remove unknown:", t(lambda: p.remove("/nonexistent/x")), len(p))
        raise RuntimeError("body")
except RuntimeError: pass
print("after exc exit:", os.listdir(d))
paths=[]
for i in range(3):
    pth=os.path.join(d,f"f{i}"); open(pth,"w").write("x"); paths.append(pth)
try:
    with FilePool(paths) as fp:
        hs=[fp[x] for x in paths]; print([h.closed for h in hs], len(fp), list(fp)==paths)
        raise KeyError()
except KeyError: pass
print([h.closed for h in hs], t(lambda: len(fp)))
fp = FilePool(paths+["/nonexistent/zzz"]); print(t(lambda: fp.__enter__()))
shutil.rmtree(d)
