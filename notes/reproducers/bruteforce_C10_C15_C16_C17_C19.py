import sys, itertools, io, random, math
sys.path.insert(0, "/repo")
from windpyutils.buffers import Buffer, PrintBuffer
from windpyutils.structures.circular_buffer import CircularBuffer
from windpyutils.structures.maps import ImmutIntervalMap
from windpyutils.structures.span_set import *
from windpyutils.generic import *
bad = 0
# C15 Buffer all perms n<=6 with drains at all points subset (sampled)
for n in range(0,6):
    for perm in itertools.permutations(range(n)):
        for drains in itertools.product([0,1], repeat=n):
            b = Buffer(); out=[]
            for k,(i,dr) in enumerate(zip(perm,drains)):
                b(i, ("it",i))
                if dr:
                    out.extend(b)
                    assert b.waiting_for()==len(out) and len(b)==k+1-len(out)
            out.extend(b)
            assert out==[("it",i) for i in range(n)], (perm,drains,out)
            # PrintBuffer
            f = io.StringIO(); pb = PrintBuffer(f); cnt=0
            for k,i in enumerate(perm):
                pb.print(i, f"v{i}")
                got = f.getvalue().split("\n")[:-1]
                assert got==[f"v{j}" for j in range(len(got))] and pb.waiting_for==len(got) and len(pb)==k+1-len(got)
            assert f.getvalue()=="".join(f"v{j}\n" for j in range(n))
print("C15 buffers ok")
# PrintBuffer flush semantics
f = io.StringIO(); pb = PrintBuffer(f); pb.print(3,"c"); pb.print(1,"a"); pb.flush(); print(repr(f.getvalue()), pb.waiting_for, len(pb))
f = io.StringIO(); pb = PrintBuffer(f); pb.print(0,"z"); pb.flush(); print(repr(f.getvalue()), pb.waiting_for, len(pb))
# CircularBuffer
for c in range(1,5):
    for ops in itertools.product("pc", repeat=7):
        cb = CircularBuffer(c); hist=[]; k=0
        for o in ops:
            if o=="p": cb.put(k); hist.append(k); k+=1
            else: cb.clear(); hist=[]
            exp = hist[-c:] if hist else []
            assert list(cb)==exp and len(cb)==len(exp), (c,ops,list(cb),exp)
            for idx in (-1, len(exp)):
                try: cb[idx]; assert False, ("no IndexError", idx)
                except IndexError: pass
print("C15 circular ok")
# C16
vals = [0,1,2,3,4]
ivs = [(a,b) for a in vals for b in vals]
cnt=0
for k in range(0,4):
    for combo in itertools.permutations(ivs, k):
        if len(set(combo))<k: continue
        valid = all(a<=b for a,b in combo) and all(not (x[0]<=y[1] and y[0]<=x[1]) for x,y in itertools.combinations(combo,2))
        try:
            m = ImmutIntervalMap({iv: ("v",iv) for iv in combo}); ok=True
        except KeyError: ok=False
        assert ok==valid, (combo, ok, valid)
        if ok:
            cnt+=1
            assert len(m)==k and list(m)==[(iv,("v",iv)) for iv in sorted(combo)]
            for key in [x/2 for x in range(-2,11)]:
                exp=[("v",iv) for iv in combo if iv[0]<=key<=iv[1]]
                try: got=[m[key]]
                except KeyError: got=[]
                assert got==exp and (key in m)==bool(exp), (combo,key,got,exp)
print("C16 ok", cnt)
# C17
for n in range(0,6):
    for scores in itertools.product(range(0,4), repeat=n):
        out = list(sorted_combinations(list(range(n)), lambda c: sum(scores[i] for i in c), yield_key=True))
        combs=[c for c,_ in out]
        allc=[c for r in range(1,n+1) for c in itertools.combinations(range(n), r)]
        assert sorted(combs)==sorted(allc) and len(set(combs))==len(combs)
        keys=[k for _,k in out]; assert keys==sorted(keys) and all(k==sum(scores[i] for i in c) for c,k in out)
        if n<=4:
          for a in range(-1,8):
            for b in range(a-1,9):
                got = min_combinations_in_interval_iter_sorted(list("abcde"[:n]), list(scores), a, b)
                sums = {c: sum(scores[i] for i in c) for c in allc}
                inr=[s for s in sums.values() if a<=s<b]
                exp = sorted((["abcde"[i] for i in c], s) for c,s in sums.items() if inr and s==min(inr))
                assert sorted(got)==exp, (scores,a,b,got,exp)
print("C17 ok")
# C19
canon = lambda n: "M"*(n//1000)+["","C","CC","CCC","CD","D","DC","DCC","DCCC","CM"][n//100%10]+["","X","XX","XXX","XL","L","LX","LXX","LXXX","XC"][n//10%10]+["","I","II","III","IV","V","VI","VII","VIII","IX"][n%10]
assert all(int_2_roman(n)==canon(n) and roman_2_int(canon(n))==n for n in range(1,4000)); print("roman ok", repr(int_2_roman(0)))
for n in range(0,6):
    for s in itertools.product("ab", repeat=n):
        s=list(s)
        p=arg_sort(s); assert p==sorted(range(n), key=lambda i:(s[i],i))
        p=arg_sort(s, True); assert p==sorted(range(n), key=lambda i:(-ord(s[i]),i)), (s,p)
        for m in range(0,4):
            for q in itertools.product("ab", repeat=m):
                q=list(q)
                occ=[(o,o+m) for o in range(0,n-m+1) if s[o:o+m]==q]
                assert sub_seq(q,s)==bool(occ), (q,s)
                if m and n: assert search_sub_seq(q,s)==occ
                from collections import Counter
                assert compare_pos_in_iterables(q,s)==(Counter(q)==Counter(s))
for n in range(0,12):
    for bs in range(1,14):
        d=list(range(n)); b=Batcher(d,bs); assert len(b)==math.ceil(n/bs)
        bat=[b[i] for i in range(len(b))]; assert sum(bat,[])==d and all(len(x)==bs for x in bat[:-1]) and all(len(x)>0 for x in bat)
        bi=list(BatcherIter(iter(d),bs)); assert bi==bat
        bt=Batcher((d,[str(x) for x in d]),bs); bat2=[bt[i] for i in range(len(bt))]
        assert [x[0] for x in bat2]==bat and [x[1] for x in bat2]==[[str(y) for y in x] for x in bat]
        bit=list(BatcherIter((iter(d),[str(x) for x in d]),bs)); assert [x[0] for x in bit]==bat and [x[1] for x in bit]==[[str(y) for y in x] for x in bat]
try: Batcher([1,2,3],2)[2]; print("no IndexError")
except IndexError: print("IndexError ok")
print("Batcher neg idx:", Batcher([1,2,3,4,5],2)[-1])
print("C19 ok")
# C10
rels=[SpanSetExactEqRelation, SpanSetPartOfEqRelation, SpanSetIncludesEqRelation, SpanSetOverlapsEqRelation]
U=[(a,b) for a in range(3) for b in range(a,3)]
rng=random.Random(1)
def mem(x,S): return any(S.eq_relation(x[0],x[1],s,e) for s,e in zip(S.starts,S.ends))
n=0
for ra in rels:
  for rb in rels:
    for _ in range(400):
        A=[rng.choice(U) for _ in range(rng.randint(0,4))]; B=[rng.choice(U) for _ in range(rng.randint(0,4))]
        SA=SpanSet(A, eq_relation=ra()); SB=SpanSet(B, eq_relation=rb())
        # construction
        kept=[]
        for x in A:
            if not any(ra()(x[0],x[1],k[0],k[1]) for k in kept): kept.append(x)
        assert list(SA)==kept
        pool=list(SA)+list(SB)
        def exp(pred):
            r=[]
            for x in pool:
                if pred(x) and x not in r: r.append(x)
            return r
        assert list(SA&SB)==exp(lambda x: mem(x,SA) and mem(x,SB))
        assert list(SA|SB)==exp(lambda x: mem(x,SA) or mem(x,SB))
        assert list(SA-SB)==exp(lambda x: mem(x,SA) and not mem(x,SB))
        assert list(SA^SB)==exp(lambda x: mem(x,SA) != mem(x,SB))
        le=all(mem(x,SB) for x in SA); ge=all(mem(x,SA) for x in SB)
        assert (SA<=SB)==le and (SA>=SB)==ge and (SA==SB)==(le and ge) and (SA!=SB)==(not(le and ge)) and (SA<SB)==(le and not ge) and (SA>SB)==(ge and not le)
        assert SA.isdisjoint(SB)==all(not mem(x,SA) for x in SB) and SA.issubset(SB)==le and SA.issuperset(SB)==ge
        n+=1
print("C10 ok", n)
