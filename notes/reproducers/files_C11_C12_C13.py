import sys, os, signal
sys.path.insert(0, "/repo")
from windpyutils.files import *
from dataclasses import dataclass
def t(f):
    try: return f()
    except BaseException as e: return f"EXC {type(e).__name__}: {e}"
def w(name, b):
    open(name,"wb").write(b); return name

p = w("/tmp/pr/a.txt", "a\rb\nčř\n\nlast".encode())
ref = "a\rb\nčř\n\nlast".split("\n")
for cls in (RandomLineAccessFile, MemoryMappedRandomLineAccessFile, MutableRandomLineAccessFile, MutableMemoryMappedRandomLineAccessFile):
    with cls(p) as f:
        print(cls.__name__, len(f), t(lambda: [f[i] for i in range(len(f))]), "iter", t(lambda: list(f)), "neg", f[-1], f[1:3], f[[2,0]])
print("ref", ref)
p = w("/tmp/pr/b.txt", b"l0\nl1\nl2\nl3\n")
with RandomLineAccessFile(p) as f:
    offs = list(f._lines)
print("offs", offs)
# custom index subset/permutation
for cls in (RandomLineAccessFile, MemoryMappedRandomLineAccessFile):
    with cls(p, [offs[3], offs[1]]) as f:
        print(cls.__name__, "custom idx: index", [f[i] for i in range(len(f))], "iter", list(f))
# interleave
for cls in (RandomLineAccessFile, MemoryMappedRandomLineAccessFile):
    with cls(p) as f:
        out=[]
        for i,x in enumerate(f):
            out.append(x)
            if i==0: f[3]
        print(cls.__name__, "interleaved iter", out)
    with cls(p) as f:
        out=[]
        it1 = iter(f); out.append(next(it1)); it2 = iter(f); out.append(("it2",next(it2))); out.append(next(it1)); out.append(("it2",next(it2)))
        print(cls.__name__, "two iters", out)
# empty file
p0 = w("/tmp/pr/e.txt", b"")
with RandomLineAccessFile(p0) as f: print("empty buffered", len(f), list(f))
print("empty mmap", t(lambda: MemoryMappedRandomLineAccessFile(p0).open()))
# file with only "\n"
p1 = w("/tmp/pr/n.txt", b"\n")
with RandomLineAccessFile(p1) as f: print("single newline", len(f), list(f), [f[0]])
# long lines
p2 = w("/tmp/pr/long.txt", ("x"*20000+"\n"+"y"*9000).encode())
with RandomLineAccessFile(p2) as f: print("long", len(f), len(f[0]), len(f[1]), [len(x) for x in f])
# mutable ops
p = w("/tmp/pr/m.txt", b"l0\nl1\nl2\nl3\n")
with MutableRandomLineAccessFile(p) as f:
    print("dirty0", f.dirty)
    del f[0]; f.insert(1, "new"); print(list(f), f.dirty, f[2], len(f))
    f.reverse(); print("rev", list(f)); f += ["z"]; print(list(f)); print("pop", f.pop(), f.pop(0)); f.remove("new"); print(list(f))
    print("oob", t(lambda: f[10]), t(lambda: f.__setitem__(10,"x")), t(lambda: f.pop(10)))
    f.save("/tmp/pr/m_out.txt", "\r\n")
print(open("/tmp/pr/m_out.txt","rb").read(), open(p,"rb").read())
# records
@dataclass
class R(CSVRecord):
    a: int
    b: str
    c: float
for r in [R(1,"x,y",1.5), R(-3,' lead "q" trail ', 1e-7), R(0,"",0.1), R(5,"tab\there",2.0), R(5,"\x00",2.0), R(5,"é€",float(10**20))]:
    s = t(lambda: r.save()); print(repr(s), t(lambda: R.load(s)) == r)
@dataclass
class R1(CSVRecord):
    b: str
print(repr(R1("").save()), t(lambda: R1.load(R1("").save())))
@dataclass
class J(JsonRecord):
    a: object
for v in ["\n \x00", {"k":[1,2.5,None,True,{"z":"\\"}]}, 1e308, -0.0]:
    s = J(v).save(); print(repr(s), J.load(s)==J(v), "\n" in s)
