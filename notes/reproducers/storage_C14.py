import sys, os, builtins, tempfile, shutil
sys.path.insert(0, "/repo")
import windpyutils.parallel.storage as st
def t(f):
    try: return f()
    except BaseException as e: return f"EXC {type(e).__name__}: {e}"
d = tempfile.mkdtemp()
s = st.TextFileStorage(d)
seen = []
def hooked_print(*a, **k):
    # a concurrent reader scheduled between index publication and the write
    r = st.TextFileStorage.__getitem__(s, 0)
    seen.append(r)
    return builtins.print(*a, **k)
st.print = hooked_print
with s:
    s[0] = "hello"
    print("C14 reader in the gap saw:", repr(seen), " later:", repr(s[0]))
del st.print
d2 = tempfile.mkdtemp()
s = st.TextFileStorage(d2)
with s:
    s[5] = "five"; s[2] = "two"
    print("C14 gaps: len", len(s), "contig", s.is_contiguous(), "iter", list(s), "s[5]", s[5], "s[3]", t(lambda: s[3]), "s[9]", t(lambda: s[9]))
    print("dup:", t(lambda: s.__setitem__(5, "again")), len(s), list(s), s[5])
    s[0]="zero"; s[1]="one"; print(len(s), s.is_contiguous(), list(s))
    s[3]="three"; s[4]="four"; print(len(s), s.is_contiguous(), list(s))
s.flush(); print("after flush", len(s), os.listdir(d2), s.is_contiguous())
d3 = tempfile.mkdtemp()
s = st.TextFileStorage(d3, number_of_data=4)
with s:
    s[3]="x"; s[0]="y"; print("presized", len(s), s.is_contiguous(), list(s), t(lambda: s[1]))
    s["neg"] if False else None
    print("neg id:", t(lambda: s.__setitem__(-1, "neg")), len(s), list(s))
    s2 = "a\rb"; 
    s[1] = s2; print(repr(s[1]))
shutil.rmtree(d); shutil.rmtree(d2); shutil.rmtree(d3)
