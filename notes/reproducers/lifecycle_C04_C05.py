import sys, os, time, threading, multiprocessing
sys.path.insert(0, "/repo")
from windpyutils.parallel.own_proc_pools import *
from windpyutils.parallel.pools import FunctorMap
from windpyutils.parallel.maps import mul_p_map
LOG = multiprocessing.get_context().Queue()
class W(FunctorWorker):
    def __init__(self, q=math.inf, bad_begin=False, bad_item=None):
        super().__init__(q); self.bad_begin=bad_begin; self.bad_item=bad_item
    def begin(self):
        LOG.put((self.wid,"begin"))
        if self.bad_begin: raise RuntimeError("begin")
    def end(self): LOG.put((self.wid,"end"))
    def __call__(self, x):
        LOG.put((self.wid,"item",x))
        if x == self.bad_item: raise ValueError("item")
        return x+1
class Fac(FunctorWorkerFactory):
    def __init__(s,q): s.q=q
    def create(s): return W(s.q)
def drain():
    out=[]; time.sleep(0.3)
    while True:
        try: out.append(LOG.get(timeout=0.3))
        except Exception: break
    return out
def sq(x): return x*x
which=sys.argv[1]
if which=="life":
    ws=[W(), W(bad_begin=True)]
    with FunctorPool(ws) as p:
        r=list(p.imap(range(6),2))
    print("results", r, "alive", [w.is_alive() for w in ws]); print(sorted(drain(), key=lambda t:(t[0],)))
if which=="item":
    ws=[W(bad_item=None), W(bad_item=None)]
    w=W(bad_item=3); w.start() if False else None
    # run worker.run() inline in a child with a queue to check finally
    ws=[W(bad_item=2)]
    pool=FunctorPool(ws)
    pool.__enter__()
    pool._work_queue.put((0,[1,2,3])); time.sleep(1.0)
    print("alive after exception:", ws[0].is_alive(), ws[0].exitcode); print(drain())
    os._exit(0)
if which=="quota":
    f=Fac(2); pool=FactoryFunctorPool(2,f)
    with pool:
        r=list(pool.imap(range(10),1)); procs=list(pool.procs)
    print("results",r); lg=drain()
    from collections import Counter
    print("items per wid", Counter(t[0] for t in lg if t[1]=="item"), "begins", Counter(t[0] for t in lg if t[1]=="begin"), "ends", Counter(t[0] for t in lg if t[1]=="end"))
    print("alive", [p.is_alive() for p in procs], "children", multiprocessing.active_children())
if which=="fmap":
    with FunctorMap(sq, 3) as m:
        print(list(m([],1)), list(m([1],5)), list(m(range(7),2)), list(m(iter(range(5)),3)), list(m(range(4),1)))
    print(mul_p_map(sq, [], 2), mul_p_map(sq, [3], 4), mul_p_map(sq, iter(range(9)), 2))
